"""Shared machinery of every property check (see DESIGN.md sections 2-4).

A property module `harness/props/cXX.py` defines

  PID            "C46"
  THEOREMS       fully qualified names of the property theorems (Props module)
  LEAN_MODULES   lake targets to build (Props + Audit + Model)
  DRIVER         path of the line-protocol driver, relative to /verif/lean (or None)
  RULE           text: how cases are generated, what makes one non-trivial
  TRUSTED        list of strings: property specific trusted base / modelled-not-verified
  gen_case(rng, tier)   -> JSON-serialisable case (dict)
  impl_run(case)        -> JSON-serialisable canonical output of the REAL code (porepy from /repo)
  model_ops(case)       -> list of op dicts sent to the Lean driver (without the reset line)
  model_decode(outs, case) -> canonical output comparable to impl_run's (default: outs)
  compare(impl, model, case) -> None | str   (default: canonical equality, tolerance class T via `close`)
  oracle(case)          -> None | {"what": str, "key": str}   direct property check on the real code
  nontrivial(case)      -> bool                (default True)
  signature(case)       -> hashable            (default: canonical JSON of the case)
  shrink_candidates(case) -> iterable of smaller cases (optional)
  N = {"quick": int, "thorough": int}

`run(module, tier, seed, replay)` implements the verdict logic of DESIGN.md section 4.
"""
from __future__ import annotations

import json
import math
import os
import random
import re
import subprocess
import sys
import time
import traceback
from fractions import Fraction

VERIF = os.path.dirname(os.path.dirname(os.path.abspath(__file__)))
LEAN = os.path.join(VERIF, "lean")
REPO = os.environ.get("VERIF_REPO", "/repo")  # VERIF_REPO: development only (mutation self-tests in a scratch worktree)
ALLOWED_AXIOMS = {"propext", "Classical.choice", "Quot.sound"}
BASE_TRUSTED = [
    "Lean 4.33.0 kernel; axioms allowed in property theorems: propext, Classical.choice, Quot.sound (audited every run with #print axioms)",
    "no sorry/admit/own axioms/native_decide/bv_decide/implemented_by/unsafe in /verif/lean (grep'd every run)",
    "Mathlib v4.33.0 modules imported by the proof files",
    "the Python correspondence harness (generators, canonicalisation, tolerances) and the Lean line-protocol driver",
    "CPython, numpy, scipy, numba as black boxes; binary64 rounding is outside every theorem (models compute over exact rationals)",
]

FORBIDDEN = re.compile(r"\bsorry\b|\badmit\b|^\s*axiom\s|native_decide|bv_decide|implemented_by|\bunsafe\s|maxHeartbeats\s+0\b")


# ----------------------------------------------------------------------------- helpers
def frac(x) -> str:
    """Exact wire representation of a python number ("n/d")."""
    if isinstance(x, Fraction):
        f = x
    elif isinstance(x, (int,)) or (hasattr(x, "dtype") and "int" in str(x.dtype)):
        f = Fraction(int(x))
    else:
        f = Fraction(float(x))
    return str(f.numerator) if f.denominator == 1 else f"{f.numerator}/{f.denominator}"


def unfrac(s) -> Fraction:
    if isinstance(s, (int, float)):
        return Fraction(s)
    return Fraction(s)


def fracs(xs):
    return [frac(x) for x in xs]


def close(a, b, rtol=1e-9, atol=1e-9) -> bool:
    """Tolerance class T: |a-b| <= atol + rtol*max(|a|,|b|) on floats / Fractions / "n/d" strings."""
    fa, fb = float(unfrac(a)), float(unfrac(b))
    if math.isnan(fa) or math.isnan(fb):
        return math.isnan(fa) and math.isnan(fb)
    return abs(fa - fb) <= atol + rtol * max(abs(fa), abs(fb))


def deep_compare(a, b, path="", tol=None):
    """Structural comparison; strings that look like rationals and numbers are compared exactly,
    or with class-T tolerance if `tol` is given. Returns None or a description of the first difference."""
    if isinstance(a, dict) and isinstance(b, dict):
        if set(a) != set(b):
            return f"{path}: keys {sorted(a)} vs {sorted(b)}"
        for k in a:
            r = deep_compare(a[k], b[k], f"{path}.{k}", tol)
            if r:
                return r
        return None
    if isinstance(a, (list, tuple)) and isinstance(b, (list, tuple)):
        if len(a) != len(b):
            return f"{path}: length {len(a)} vs {len(b)}"
        for i, (x, y) in enumerate(zip(a, b)):
            r = deep_compare(x, y, f"{path}[{i}]", tol)
            if r:
                return r
        return None
    if isinstance(a, bool) or isinstance(b, bool) or a is None or b is None:
        return None if a == b else f"{path}: {a!r} vs {b!r}"
    num = lambda v: isinstance(v, (int, float, Fraction)) or (isinstance(v, str) and re.fullmatch(r"-?\d+(/\d+)?", v))
    if num(a) and num(b):
        if tol is None:
            return None if unfrac(a) == unfrac(b) else f"{path}: {a} vs {b}"
        return None if close(a, b, tol, tol) else f"{path}: {a} vs {b} (tol {tol})"
    return None if a == b else f"{path}: {a!r} vs {b!r}"


def err_kind(e: BaseException) -> dict:
    """Map an exception of the real code to the small error enum of the protocol."""
    return {"err": type(e).__name__}


def assert_repo():
    import porepy

    p = os.path.realpath(porepy.__file__)
    if not p.startswith(os.path.realpath(REPO) + os.sep):
        print(f"harness error: porepy imported from {p}, not from {REPO}", file=sys.stderr)
        sys.exit(2)


# ----------------------------------------------------------------------------- Lean side
def lean_grep(dirs):
    """Forbidden constructs in the Lean sources of the given sub-directories of lean/PorepyVerif
    (the property's own directory, Common, and whatever it imports; comments stripped line-wise)."""
    hits = []
    walk = []
    for d in dirs:
        walk += list(os.walk(os.path.join(LEAN, "PorepyVerif", d)))
    for root, _, files in walk:
        for f in files:
            if not f.endswith(".lean"):
                continue
            p = os.path.join(root, f)
            in_block = 0
            for n, line in enumerate(open(p, encoding="utf-8"), 1):
                s = line
                # crude comment stripping: block comments and line comments
                out = ""
                i = 0
                while i < len(s):
                    if s.startswith("/-", i):
                        in_block += 1
                        i += 2
                    elif s.startswith("-/", i) and in_block:
                        in_block -= 1
                        i += 2
                    elif in_block:
                        i += 1
                    elif s.startswith("--", i):
                        break
                    else:
                        out += s[i]
                        i += 1
                if FORBIDDEN.search(out):
                    hits.append(f"{os.path.relpath(p, VERIF)}:{n}: {line.strip()}")
    return hits


def lake_build(targets):
    t0 = time.time()
    r = subprocess.run(["lake", "build"] + list(targets), cwd=LEAN, stdout=subprocess.PIPE, stderr=subprocess.STDOUT, text=True)
    return r.returncode == 0, r.stdout[-6000:], time.time() - t0


def audit(theorems, audit_file):
    """Run `#print axioms` for each theorem through `lake env lean <audit_file>` and parse the output.
    Returns (dict theorem -> sorted axiom list | None, raw output)."""
    r = subprocess.run(["lake", "env", "lean", audit_file], cwd=LEAN, stdout=subprocess.PIPE, stderr=subprocess.STDOUT, text=True)
    out = r.stdout
    res = {t: None for t in theorems}
    # messages look like: "'Name' depends on axioms: [a, b]"  or "'Name' does not depend on any axioms"
    flat = re.sub(r"\s+", " ", out)
    for m in re.finditer(r"'([^']+)' depends on axioms: \[([^\]]*)\]", flat):
        res[m.group(1)] = sorted(a.strip() for a in m.group(2).split(",") if a.strip())
    for m in re.finditer(r"'([^']+)' does not depend on any axioms", flat):
        res[m.group(1)] = []
    return res, out, r.returncode


def run_driver(driver, cases_ops, timeout=3600):
    """cases_ops: list of op-lists. Sends reset + ops for each case through one driver process;
    returns list of output lists (decoded JSON), same shape."""
    lines = []
    for ops in cases_ops:
        lines.append(json.dumps({"op": "reset"}))
        for op in ops:
            lines.append(json.dumps(op, separators=(",", ":")))
    inp = "\n".join(lines) + "\n"
    r = subprocess.run(["lake", "env", "lean", "--run", driver], cwd=LEAN, input=inp, stdout=subprocess.PIPE, stderr=subprocess.PIPE, text=True, timeout=timeout)
    outl = [l for l in r.stdout.split("\n") if l.strip()]
    if r.returncode != 0 or len(outl) != len(lines):
        raise RuntimeError(f"driver {driver}: rc={r.returncode}, {len(outl)} answers for {len(lines)} lines\n{r.stderr[-3000:]}\n{r.stdout[-1000:]}")
    res, k = [], 0
    for ops in cases_ops:
        k += 1  # reset answer
        res.append([json.loads(x) for x in outl[k : k + len(ops)]])
        k += len(ops)
    return res


# ----------------------------------------------------------------------------- known findings
def load_findings(pid):
    out = []
    for p in (os.path.join(VERIF, "known_findings.json"), os.path.join(VERIF, "known_findings.d", f"{pid}.json")):
        if os.path.exists(p):
            data = json.load(open(p))
            out += [f for f in data.get("findings", []) if f.get("property") == pid and f.get("status") == "open"]
    return out


# ----------------------------------------------------------------------------- evidence
def write_evidence(pid, tier, seed, cov, wall, violations, assumptions):
    os.makedirs(os.path.join(VERIF, "evidence"), exist_ok=True)
    ev = {
        "property_id": pid,
        "tier": tier,
        "seed": int(seed),
        "level": "proof",
        "coverage": cov,
        "assumptions": assumptions,
        "wall_s": round(wall, 2),
        "violations": int(violations),
    }
    path = os.path.join(VERIF, "evidence", f"{pid}.json")
    with open(path + ".tmp", "w") as f:
        json.dump(ev, f, indent=1, default=str)
    os.replace(path + ".tmp", path)


def write_replay(pid, seed, payload):
    os.makedirs(os.path.join(VERIF, "replays"), exist_ok=True)
    p = os.path.join(VERIF, "replays", f"{pid}-{seed}.json")
    with open(p, "w") as f:
        json.dump(payload, f, indent=1, default=str)
    return os.path.relpath(p, VERIF)


def shrink(mod, case, fails):
    """Greedy shrinking with the module's `shrink_candidates` while `fails(case)` stays true."""
    cands = getattr(mod, "shrink_candidates", None)
    if cands is None:
        return case
    budget = 400
    improved = True
    while improved and budget > 0:
        improved = False
        for c in cands(case):
            budget -= 1
            if budget <= 0:
                break
            try:
                if fails(c):
                    case = c
                    improved = True
                    break
            except Exception:
                continue
    return case


def safe_oracle(mod, case):
    try:
        return mod.oracle(case)
    except Exception as e:  # an oracle crash is a harness defect, not a violation
        raise RuntimeError(f"oracle crashed on case {json.dumps(case, default=str)[:2000]}: {traceback.format_exc()}")


def corpus_cases(pid):
    d = os.path.join(VERIF, "corpus", pid)
    out = []
    if os.path.isdir(d):
        for f in sorted(os.listdir(d)):
            if f.endswith(".json"):
                out.append(json.load(open(os.path.join(d, f))))
    return out


# ----------------------------------------------------------------------------- main verdict logic
def run(mod, tier="quick", seed=0, replay=None):
    t0 = time.time()
    pid = mod.PID
    assert_repo()
    rng = random.Random(f"{pid}-{seed}-{tier}")
    n = mod.N[tier]
    findings = load_findings(pid)
    known_keys = {f["key"]: f for f in findings}
    violations = []  # (what, replay payload, suffix)
    known_hit = {}
    broken = []  # broken proof / correspondence descriptions

    # 1. translator (optional) -------------------------------------------------
    translator_info = None
    if hasattr(mod, "translate"):
        try:
            translator_info = mod.translate()
        except Exception as e:
            broken.append({"kind": "translator", "what": f"translator failed: {e}"})

    # 2. build + audit ----------------------------------------------------------
    ok, log, bt = lake_build(mod.LEAN_MODULES)
    obligations = len(mod.THEOREMS) + (translator_info or {}).get("obligations", 0)
    discharged = 0
    audit_res = {}
    if not ok:
        broken.append({"kind": "proof", "what": "lake build failed", "log": log[-3000:]})
    else:
        audit_res, raw, rc = audit(mod.THEOREMS, mod.AUDIT)
        for t in mod.THEOREMS:
            ax = audit_res.get(t)
            if ax is None:
                broken.append({"kind": "proof", "what": f"theorem {t} missing from audit output", "log": raw[-1500:]})
            elif not set(ax) <= ALLOWED_AXIOMS:
                broken.append({"kind": "proof", "what": f"theorem {t} depends on disallowed axioms {ax}"})
            else:
                discharged += 1
        if discharged == len(mod.THEOREMS):
            discharged += (translator_info or {}).get("obligations", 0)
    hits = lean_grep([pid, "Common"] + list(getattr(mod, "LEAN_DIRS", [])))
    if hits:
        broken.append({"kind": "proof", "what": "forbidden construct in lean sources", "log": "\n".join(hits[:20])})
        discharged = 0
    if tier == "thorough" and ok and getattr(mod, "LEANCHECKER", True):
        r = subprocess.run(["lake", "env", "leanchecker"] + [m for m in mod.LEAN_MODULES], cwd=LEAN, stdout=subprocess.PIPE, stderr=subprocess.STDOUT, text=True)
        if r.returncode != 0:
            broken.append({"kind": "proof", "what": "leanchecker rejected a module", "log": r.stdout[-2000:]})

    # 3. cases: replay file, corpus, fresh -----------------------------------------
    cases = []
    if replay:
        payload = json.load(open(replay))
        if "case" in payload:
            cases.append(payload["case"])
        elif payload.get("broken"):  # broken-correspondence replay: the first disagreeing case
            firsts = [b["first"]["case"] for b in payload["broken"] if isinstance(b.get("first"), dict) and "case" in b["first"]]
            if not firsts:
                raise SystemExit(f"replay {replay}: no case recorded (kind {payload.get('kind')}); the replay names the broken theorem/correspondence only")
            cases.append(firsts[0])
        else:
            cases.append(payload)
    else:
        cases += corpus_cases(pid)
        for f in findings:
            if "case" in f:
                cases.append(f["case"])
        ncorp = len(cases)
        for _ in range(n):
            cases.append(mod.gen_case(rng, tier))

    # 4. real code, oracle -------------------------------------------------------------
    impl_outs, oracle_fail = [], []
    for c in cases:
        try:
            impl_outs.append(mod.impl_run(c))
        except Exception as e:
            impl_outs.append({"harness_exc": f"{type(e).__name__}: {e}", "tb": traceback.format_exc()[-1500:]})
        o = safe_oracle(mod, c)
        oracle_fail.append(o)

    # 5. model through the driver, comparison ------------------------------------------
    disagreements = []
    model_outs = [None] * len(cases)
    if ok and getattr(mod, "DRIVER", None):
        try:
            ops = [mod.model_ops(c) for c in cases]
            raw = run_driver(mod.DRIVER, ops)
            dec = getattr(mod, "model_decode", lambda o, c: o)
            cmp = getattr(mod, "compare", lambda a, b, c: deep_compare(a, b))
            for i, c in enumerate(cases):
                model_outs[i] = dec(raw[i], c)
                if oracle_fail[i] is not None and oracle_fail[i].get("key") in known_keys:
                    continue  # impl is known to be wrong here; model follows the property
                d = cmp(impl_outs[i], model_outs[i], c)
                if d:
                    disagreements.append({"case": c, "impl": impl_outs[i], "model": model_outs[i], "diff": d})
        except Exception as e:
            broken.append({"kind": "correspondence", "what": f"driver failed: {e}"})
    if disagreements:
        broken.append({"kind": "correspondence", "what": f"{len(disagreements)} disagreement(s) between model and implementation; first: {disagreements[0]['diff']}", "first": disagreements[0]})

    # 6. verdict --------------------------------------------------------------------------
    def handle_fail(c, o):
        if o.get("key") in known_keys:
            known_hit[o["key"]] = o
            return
        small = shrink(mod, c, lambda x: (lambda r: r is not None and r.get("key") not in known_keys)(mod.oracle(x)))
        o2 = mod.oracle(small) or o
        violations.append({"what": o2["what"], "payload": {"property": pid, "kind": "oracle-failure", "what": o2["what"], "key": o2.get("key"), "case": small, "seed": seed, "tier": tier}, "suffix": ""})

    for c, o in zip(cases, oracle_fail):
        if o is not None:
            handle_fail(c, o)

    extra_evals = 0
    if broken and not violations:
        # enlarged failing-input search on the real code (10x budget, both tiers' generators)
        deadline = time.time() + (120 if tier == "quick" else 900)
        rng2 = random.Random(f"{pid}-{seed}-search")
        found = False
        for k in range(10 * max(n, 50)):
            if time.time() > deadline:
                break
            c = mod.gen_case(rng2, "thorough" if k % 2 else "quick")
            extra_evals += 1
            o = safe_oracle(mod, c)
            if o is not None and o.get("key") not in known_keys:
                handle_fail(c, o)
                found = True
                break
        if not found:
            b = broken[0]
            violations.append({"what": b["what"], "payload": {"property": pid, "kind": "broken-" + b["kind"], "broken": broken, "seed": seed, "tier": tier, "searched_cases": extra_evals + len(cases)}, "suffix": " no-failing-input-found"})

    # known findings are reported once each (they were replayed as part of `cases`)
    for f in findings:
        if f["key"] in known_hit:
            print(f"KNOWN-FINDING: property={pid} {f['what']}")
        else:
            print(f"note: known finding {f['key']} did not reproduce in this run (fixed?)")

    # 7. evidence ------------------------------------------------------------------------------
    sig = getattr(mod, "signature", lambda c: json.dumps(c, sort_keys=True, default=str))
    nontriv = getattr(mod, "nontrivial", lambda c: True)
    distinct = len({sig(c) for c in cases if nontriv(c)})
    stats = getattr(mod, "stats", None)
    cov = {
        "obligations": obligations,
        "discharged": discharged,
        "checker_cmd": f"cd lean && lake build {' '.join(mod.LEAN_MODULES)} && lake env lean {mod.AUDIT}",
        "trusted_base": BASE_TRUSTED + list(getattr(mod, "TRUSTED", [])),
        "theorems": {t: audit_res.get(t) for t in mod.THEOREMS},
        "evaluations": len(cases) + extra_evals,
        "distinct_nontrivial": distinct,
        "rule": mod.RULE,
        "samples": [{"case": cases[i], "impl": impl_outs[i], "model": model_outs[i]} for i in range(min(3, len(cases)))] if not replay else [cases[0]],
        "traces_validated_against_impl": sum(1 for m in model_outs if m is not None) - len(disagreements),
        "disagreements": len(disagreements),
        "oracle_failures_known": len(known_hit),
        "broken": [b["what"] for b in broken],
        "explanation": getattr(mod, "EXPLANATION", ""),
    }
    if discharged < 1:  # keep the evidence file schema-valid when no obligation is discharged (broken proof)
        cov["obligations_total"] = cov.pop("obligations")
        cov["obligations_discharged"] = cov.pop("discharged")
    if translator_info:
        cov["translator"] = translator_info
    if stats:
        try:
            cov["input_distribution"] = stats(cases, impl_outs)
        except Exception as e:
            cov["input_distribution"] = f"stats failed: {e}"
    write_evidence(pid, tier, seed, cov, time.time() - t0, len(violations), list(getattr(mod, "ASSUMPTIONS", [])))

    if violations:
        v = violations[0]
        path = write_replay(pid, seed, v["payload"])
        print(f"detail: {v['what'][:500]}")
        print(f"VIOLATION property={pid} replay={path}{v['suffix']}")
        return 1
    print(f"OK property={pid} tier={tier} seed={seed} theorems={discharged}/{obligations} cases={len(cases)} distinct={distinct} corr_ok={cov['traces_validated_against_impl']} wall={time.time()-t0:.1f}s")
    return 0
