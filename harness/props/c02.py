"""C02 Operator-tree evaluation matches direct forward-mode evaluation.

Case = a small mixed-dimensional grid (1-3 subdomains, 0-2 interfaces), variables on it (cell, face and
interface variables, one with two dofs per cell), values stored at several iterate / time-step indices,
time-dependent arrays, and ONE python expression over operators, raw numbers, numpy arrays and scipy matrices
(the expression is built with python's operators on the real objects, so the arithmetic overloads of
`Operator`, including the reverse ones, `_parse_other`, `__neg__`, `previous_timestep` / `previous_iteration`
and `pp.ad.Function.__call__` are executed by the real code).

Expression JSON ("k" = node kind):
  var{name,grids,md}  scalar{c}  dense{v}  sparse{nc,rows,fmt}  proj{dom,rng,rsize,dsize}  plist{ps}
  td{id}  gridproj{which,all,sub}  raw{r: num{c} | arr{v} | sp{nc,rows,fmt}}
  bin{op,a,b}  neg{a}  pt{steps,a}  pi{steps,a}  f1{f,a}  f2{f,a,b}       (f = polynomial body: x y c add sub mul)
"""
import operator
from fractions import Fraction

import numpy as np

from harness.common import close, deep_compare, err_kind, frac

PID = "C02"
THEOREMS = [
    "PorepyVerif.C02.parseBin_eq_directBin",
    "PorepyVerif.C02.parse_eq_direct",
    "PorepyVerif.C02.evaluate_eq_direct",
    "PorepyVerif.C02.evaluate_list_cache_transparent",
    "PorepyVerif.C02.evaluate_list_eq_map",
    "PorepyVerif.C02.parse_val_noderiv",
    "PorepyVerif.C02.evaluate_val_noderiv",
    "PorepyVerif.C02.prev_leaf_is_stored",
    "PorepyVerif.C02.prev_is_constant",
    "PorepyVerif.C02.prev_zero_jacobian",
    "PorepyVerif.C02.shiftTime_no_current",
    "PorepyVerif.C02.shiftIter_no_current",
    "PorepyVerif.C02.const_add_keeps_jacobian",
    "PorepyVerif.C02.directBin_add_comm",
    "PorepyVerif.C02.reverse_build",
    "PorepyVerif.C02.reverse_build_parse",
    "PorepyVerif.C02.parse_eq_direct_dec",
    "PorepyVerif.C02.build_indexOk",
    "PorepyVerif.C02.built_prev_no_current",
    "PorepyVerif.C02.built_prev_zero_jacobian",
    "PorepyVerif.C02.state_none_is_iterate0",
    "PorepyVerif.C02.value_and_jacobian_eq_evaluate",
]
LEAN_MODULES = ["PorepyVerif.C02.Props"]
AUDIT = "PorepyVerif/C02/Audit.lean"
DRIVER = "PorepyVerif/C02/Driver.lean"
N = {"quick": 200, "thorough": 25000}
RULE = ("one python expression (depth <= 4, thorough <= 5) per case over a random md-grid (1-3 subdomains of dim 2/1/0, 0-2 mortar "
        "grids, variables created in random order: cell variable on all subdomains, 2-dof cell variable, face variable, interface "
        "variable), evaluated with derivative=True and False, with an explicit state or the stored iterate; operands of every kind "
        "(variable / md-variable at current, previous time step k, previous iterate k; Scalar, DenseArray, SparseArray csr/csc, "
        "Projection, ProjectionList incl. empty, TimeDependentDenseArray, subdomain cell restriction/prolongation; raw float, "
        "ndarray, csr_matrix) on either side of + - * / ** @, unary minus, previous_timestep/previous_iteration of whole "
        "sub-expressions, pp.ad.Function and DiagonalJacobianFunction with polynomial bodies of one and two arguments, length-1 arrays "
        "broadcast against vectors, 35 % of the cases evaluate a list of 2-3 operators sharing sub-expression objects in one call; "
        "half of the cases create the sub-variables in an order different from the md-grid order; strata (counted in the evidence): "
        "size-0 operands (md-variable over no grid, empty arrays, matrices without rows/columns), all stored values scaled by "
        "2^+-20, one sub-expression object repeated (x-x, x/x, ...), sum_operator_list of 1-4 operators, the same operator several "
        "times in one evaluate call, whole-expression shifts (previous_timestep/iteration(k), nested, pp.ad.time_increment, pp.ad.dt) "
        "of composite trees with two different wrapped functions and the same one twice on the same argument sub-tree; every case is also evaluated through Operator.value_and_jacobian / Operator.value and with "
        "state=None resolved by the model; type-directed (sizes fit) with ~10 % "
        "ill-typed nodes (size mismatch with both sizes >= 2, wrong kinds) and shifts beyond the stored indices; values are small "
        "dyadic rationals, state entries non-zero. non-trivial = the expression has a binary node whose left operand parses to an "
        "ndarray/number and whose right operand parses to an AdArray, or a raw left operand, or a time/iterate shift; distinct = "
        "distinct (grid, expression) pairs")
TRUSTED = [
    "modelled, not verified: numpy/scipy arithmetic on floats, 1-d arrays and sparse matrices (transcribed as list functions over "
    "rationals, including numpy's broadcasting of a length-1 array and scipy's rule that only the scalar 0 can be added to a "
    "matrix); binary64 rounding (comparison of values and Jacobians with relative tolerance 1e-9)",
    "real powers and logarithms (non-integer exponents, integer exponents beyond 64, AdArray exponents, c ** x) are uninterpreted "
    "PARAMETERS of the model (PowFns: pow, log and their domains); every theorem holds for every interpretation, the chain rules "
    "y x^(y-1) dx + x^y log x dy and c^x log c dx are the ones coded in AdArray.__pow__/__rpow__. The driver instantiates the "
    "parameters with 'nowhere defined', so the correspondence skips those cases (answer `unsupported`); the oracle checks them on "
    "the real code with numpy's pow/log",
    "outside the model (`unsupported`, skipped and counted): 2-d dense results (ndarray +/- sparse), spmatrix `*` as matrix product, "
    "ArraySlicer with pending operand (slicer as right operand of * / + - **, slicer @ slicer), ndarray @ ndarray, a float-valued "
    "DiagonalJacobianFunction, InterpolatedFunction; divisions by zero (numpy inf/nan) are `div0`, non-finite results of the real "
    "code (overflow) are skipped",
    "ArraySlicer._slice_matrix (CSR index arithmetic) is modelled as a row scatter, valid for distinct range indices (property C36); "
    "the dof layout EquationSystem.dofs_of is read from the real system (property C05); get/set_solution_values storage is "
    "modelled as global vectors per index",
    "the parser's cache is modelled keyed by the leaf itself instead of the operator object's identity (a superset of the real "
    "hits; equal leaves parse to equal values); bodies of pp.ad.Function / get_values of DiagonalJacobianFunction are harness code "
    "(polynomials evaluated with operand order AdArray-first where numpy would take over)",
]
EXPLANATION = ("FULL for the parser on the modelled arithmetic. Model = AdParser.evaluate/_evaluate_single with its operand flips, "
               "AdArray's methods as coded in forward_mode.py, python's dispatch of `l op r` on the parsed values, the Operator "
               "overloads building the tree (incl. the reverse ones, _parse_other, __neg__), previous_timestep/iteration tree copies, "
               "pp.ad.Function calls and all leaf kinds. Theorems (all trees, all environments): parse = direct forward-mode "
               "evaluation with closed-form sum/product/quotient/power rules in mathematical operand order, error kinds included "
               "(parseBin_eq_directBin over all 6x6x6 operation/operand-kind combinations, parse_eq_direct, evaluate_eq_direct); "
               "derivative=False result = derivative=True result with the Jacobian dropped (parse_val_noderiv, evaluate_val_noderiv); "
               "previous time-step / iterate leaves are the stored values (prev_leaf_is_stored), trees without current variables "
               "evaluate independently of the derivative flag and get an all-zero Jacobian (prev_is_constant, prev_zero_jacobian), "
               "previous_timestep/previous_iteration of any expression yields such a tree (shiftTime/shiftIter_no_current), adding "
               "such a tree leaves the Jacobian unchanged (const_add_keeps_jacobian); the tree python builds for `c op x` with a "
               "number / ndarray / sparse matrix c on the left denotes `c op x` (directBin_add_comm, reverse_build, "
               "reverse_build_parse); evaluating a LIST of operators in one call with the shared cache of parsed leaves is evaluating "
               "them one by one (evaluate_list_cache_transparent, evaluate_list_eq_map). Functions: pp.ad.Function (polynomial body) and "
               "DiagonalJacobianFunction (values exact, Jacobian sum of multipliers times argument Jacobians). Correspondence compares, per case, the shape of the tree built by the real overloads with the "
               "model's `build`, and value + dense Jacobian (rel. tol 1e-9) or the error kind for derivative=True and False; the "
               "driver also re-checks parse = direct on every case. The oracle is independent of Lean: forward-mode rules written "
               "out in numpy/scipy (including real powers with logarithms) vs EquationSystem.evaluate, derivative=False vs True, "
               "zero Jacobian of previous-only expressions, Operator.value / value_and_jacobian vs evaluate.")
ASSUMPTIONS = [
    "clause map: 'evaluation = direct forward mode' -> parseBin_eq_directBin, parse_eq_direct(_dec), evaluate_eq_direct, "
    "evaluate_list_*; 'number/array as left operand' -> directBin_add_comm, reverse_build(_parse); 'values with and without "
    "derivatives agree' -> parse_val_noderiv, evaluate_val_noderiv; 'previous time step / iterate = stored values, no derivative' "
    "-> prev_leaf_is_stored, prev_is_constant, prev_zero_jacobian, shift*_no_current, build_indexOk, built_prev_no_current, "
    "built_prev_zero_jacobian, const_add_keeps_jacobian; entry points -> state_none_is_iterate0, value_and_jacobian_eq_evaluate",
    "EnvWF is now the decidable input condition envWFb, evaluated by the driver on every case (compare fails if false); indexOk is "
    "proved for every tree python can build from fresh operator objects (build_indexOk), so the shift theorems need no hypothesis "
    "for constructible expressions",
    "parse_eq_direct / evaluate_eq_direct / prev_leaf_is_stored / reverse_build_parse: stored global vectors have the length of the "
    "state vector (EnvWF; needed only for md-variables at previous indices, whose values the parser scatters into a state-shaped vector)",
    "shiftTime_no_current / shiftIter_no_current: private time-step / iterate indices of the variables are >= -1 (indexOk), as the "
    "constructors guarantee",
    "reverse_build for `+` (python builds `x + c`): the operator operand evaluates to a number, vector, matrix or AdArray, not to an "
    "ArraySlicer; for `c ** x` with a scipy matrix c python never reaches the reverse overload (excluded)",
    "evaluate_val_noderiv and parse_val_noderiv are conditional on the derivative=True evaluation succeeding",
    "values are dyadic rationals of small magnitude; results are compared with relative tolerance 1e-9 (binary64 rounding is outside "
    "the theorems)",
]
OPS = {"add": operator.add, "sub": operator.sub, "mul": operator.mul, "div": operator.truediv, "pow": operator.pow,
       "matmul": operator.matmul}
TOL = 1e-9


def F(x):
    return Fraction(x)


def fl(x):
    return float(Fraction(x))


# ----------------------------------------------------------------------------- sizes without porepy
def grid_counts(g):
    """(cells, faces) of a grid spec."""
    d, n = g["dim"], g["n"]
    if g["kind"] == "sub":
        if d == 0:
            return (1, 0)
        if d == 1:
            return (n, n + 1)
        return (n, 3 * n + 1)
    return ((1 if d == 0 else n) * g["sides"], 0)


def var_size(case, v, gk):
    c, f = grid_counts(case["grids"][gk])
    return c * v["cells"] + f * v["faces"]


def total_dofs(case):
    return sum(var_size(case, v, gk) for v in case["vars"] for gk in v["grids"])


# ----------------------------------------------------------------------------- the real objects of one case
def _mk_grid(dim, n, geometry=False):
    import porepy as pp
    if dim == 0:
        g = pp.PointGrid(np.zeros((3, 1)))
    else:
        g = pp.CartGrid(np.array([n] + [1] * (dim - 1)))
    if geometry:
        g.compute_geometry()
    return g


def _mk_mortar(dim, n, sides):
    import porepy as pp
    from porepy.grids.mortar_grid import MortarSides
    sg = {MortarSides.LEFT_SIDE: _mk_grid(dim, n, True)}
    if sides == 2:
        sg[MortarSides.RIGHT_SIDE] = _mk_grid(dim, n, True)
    return pp.MortarGrid(dim, sg, codim=1)


def _sp(spec):
    import scipy.sparse as sps
    rows = [[fl(x) for x in r] for r in spec["rows"]]
    a = np.array(rows, dtype=float).reshape(len(rows), spec["nc"])
    return sps.csc_matrix(a) if spec.get("fmt") == "csc" else sps.csr_matrix(a)


class World:
    def __init__(self, case):
        import porepy as pp
        import scipy.sparse as sps
        self.pp = pp
        self.case = case
        gs = case["grids"]
        self.objs = [_mk_grid(g["dim"], g["n"]) if g["kind"] == "sub" else _mk_mortar(g["dim"], g["n"], g["sides"]) for g in gs]
        self.mdg = pp.MixedDimensionalGrid()
        self.mdg.add_subdomains([self.objs[k] for k, g in enumerate(gs) if g["kind"] == "sub"])
        for k, g in enumerate(gs):
            if g["kind"] == "intf":
                a, b = g["pair"]
                self.mdg.add_interface(self.objs[k], (self.objs[a], self.objs[b]), sps.identity(1))
        self.es = pp.ad.EquationSystem(self.mdg)
        self.atomic = {}
        for v in case["vars"]:
            dof = {k: v[k] for k in ("cells", "faces") if v[k] > 0}
            grids = [self.objs[k] for k in v["grids"]]
            if gs[v["grids"][0]]["kind"] == "sub":
                md = self.es.create_variables(v["name"], dof, subdomains=grids)
            else:
                md = self.es.create_variables(v["name"], dof, interfaces=grids)
            for gk, sv in zip(v["grids"], md.sub_vars):
                self.atomic[(v["name"], gk)] = sv
        self.N = self.es.num_dofs()
        assert self.N == total_dofs(case), (self.N, total_dofs(case))
        for k, vec in enumerate(case["iter"]):
            self.es.set_variable_values(np.array([fl(x) for x in vec]), iterate_index=k)
        for k, vec in enumerate(case["time"]):
            self.es.set_variable_values(np.array([fl(x) for x in vec]), time_step_index=k)
        for td in case["td"]:
            for gi, gk in enumerate(td["grids"]):
                data = self._data(gk)
                pp.set_solution_values(td["name"], np.array([fl(x) for x in td["iter"][gi]]), data, iterate_index=0)
                for t, per_grid in enumerate(td["time"]):
                    pp.set_solution_values(td["name"], np.array([fl(x) for x in per_grid[gi]]), data, time_step_index=t)
        self.state = np.array([fl(x) for x in case["state"]]) if case["use_state"] else None
        self._leaf_memo = {}

    def _data(self, gk):
        g = self.objs[gk]
        return self.mdg.subdomain_data(g) if self.case["grids"][gk]["kind"] == "sub" else self.mdg.interface_data(g)

    def env_state(self):
        return self.case["state"] if self.case["use_state"] else self.case["iter"][0]

    def dofs(self, name, gk):
        return [int(i) for i in self.es.dofs_of([self.atomic[(name, gk)]])]

    # -- python objects of an expression (real operators, built through the overloads)
    def build(self, e):
        """python object of an expression; with case["share"] equal sub-expressions (leaves in particular) are ONE
        object, also across the operators of a list (so that the parser's cache of parsed leaves is hit), otherwise
        every occurrence is a fresh object"""
        if self.case.get("share") and e["k"] != "raw":
            import json
            key = json.dumps(e, sort_keys=True)
            if key not in self._leaf_memo:
                self._leaf_memo[key] = self._build(e)
            return self._leaf_memo[key]
        return self._build(e)

    def _build(self, e):
        pp = self.pp
        k = e["k"]
        if k == "var":
            if e["md"]:
                return pp.ad.MixedDimensionalVariable([self.atomic[(e["name"], g)] for g in e["grids"]])
            return self.atomic[(e["name"], e["grids"][0])]
        if k == "scalar":
            return pp.ad.Scalar(fl(e["c"]))
        if k == "dense":
            return pp.ad.DenseArray(np.array([fl(x) for x in e["v"]], dtype=float))
        if k == "sparse":
            return pp.ad.SparseArray(_sp(e))
        if k == "proj":
            return self._proj(e)
        if k == "plist":
            return pp.ad.ProjectionList([self._proj(p) for p in e["ps"]])
        if k == "td":
            td = self.case["td"][e["id"]]
            return pp.ad.TimeDependentDenseArray(td["name"], [self.objs[g] for g in td["grids"]])
        if k == "gridproj":
            sp = pp.ad.SubdomainProjections([self.objs[g] for g in e["all"]])
            return getattr(sp, e["which"])([self.objs[g] for g in e["sub"]])
        if k == "raw":
            r = e["r"]
            if r["k"] == "num":
                return fl(r["c"])
            if r["k"] == "arr":
                return np.array([fl(x) for x in r["v"]], dtype=float)
            return _sp(r)
        if k == "bin":
            return OPS[e["op"]](self.build(e["a"]), self.build(e["b"]))
        if k == "sum":
            return pp.ad.sum_operator_list([self.build(x) for x in e["xs"]])
        if k == "tinc":
            return pp.ad.time_increment(self.build(e["a"]))
        if k == "dt":
            return pp.ad.dt(self.build(e["a"]), pp.ad.Scalar(fl(e["c"])))
        if k == "neg":
            return -self.build(e["a"])
        if k == "pt":
            return self.build(e["a"]).previous_timestep(e["steps"])
        if k == "pi":
            return self.build(e["a"]).previous_iteration(e["steps"])
        if k == "f1":
            return _function(e)(self.build(e["a"]))
        if k == "f2":
            return _function(e)(self.build(e["a"]), self.build(e["b"]))
        raise RuntimeError(f"unknown node {k}")

    def _proj(self, p):
        return self.pp.ad.Projection(np.array(p["dom"], dtype=int), np.array(p["rng"], dtype=int), p["dsize"], p["rsize"])

    # -- the same expression for the Lean driver: variables by their dofs, grid projections by their matrix
    def lean_expr(self, e):
        k = e["k"]
        if k == "var":
            return {"k": "var", "subs": [self.dofs(e["name"], g) for g in e["grids"]], "md": bool(e["md"]), "t": -1, "i": -1}
        if k in ("scalar", "dense", "proj", "plist"):
            return e
        if k == "sparse":
            return {"k": "sparse", "nc": e["nc"], "rows": e["rows"]}
        if k == "td":
            return {"k": "td", "id": e["id"], "t": -1}
        if k == "gridproj":
            m = self.build(e)._mat.toarray()
            return {"k": "sparse", "nc": int(m.shape[1]), "rows": [[frac(x) for x in r] for r in m]}
        if k == "raw":
            r = e["r"]
            return {"k": "raw", "r": ({"k": "sp", "nc": r["nc"], "rows": r["rows"]} if r["k"] == "sp" else r)}
        if k in SUGAR:  # the model gets what these helpers are specified to build
            return self.lean_expr(_desugar(e))
        out = dict(e)
        for c in ("a", "b"):
            if c in e:
                out[c] = self.lean_expr(e[c])
        return out


def _sum_fold(e):
    xs = e["xs"]
    out = xs[0]
    for x in xs[1:]:
        out = {"k": "bin", "op": "add", "a": out, "b": x}
    return out


SUGAR = ("sum", "tinc", "dt")


def _desugar(e):
    """what the helper functions of porepy are specified to build: sum_operator_list = left fold of +,
    pp.ad.time_increment(a) = a - a.previous_timestep(), pp.ad.dt(a, c) = time_increment(a) / c"""
    if e["k"] == "sum":
        return _sum_fold(e)
    inc = {"k": "bin", "op": "sub", "a": e["a"], "b": {"k": "pt", "steps": 1, "a": e["a"]}}
    if e["k"] == "tinc":
        return inc
    return {"k": "bin", "op": "div", "a": inc, "b": {"k": "scalar", "c": e["c"]}}


# ----------------------------------------------------------------------------- bodies of pp.ad.Function
def _fbin(op, p, q):
    """`p op q` for the values a function body meets; a numpy array on the left of an AdArray is combined
    AdArray-first (user code has to do that, see the class documentation of AdArray)."""
    import porepy as pp
    if isinstance(p, np.ndarray) and isinstance(q, pp.ad.AdArray):
        if op == "add":
            return q + p
        if op == "sub":
            return -(q - p)
        return q * p
    return OPS[op](p, q)


def _feval(f, x, y):
    k = f["k"]
    if k == "x":
        return x
    if k == "y":
        return y
    if k == "c":
        return fl(f["c"])
    return _fbin(k, _feval(f["a"], x, y), _feval(f["b"], x, y))


def _callable(f):
    def func(*args):
        x = args[0]
        y = args[1] if len(args) > 1 else args[0]
        return _feval(f, x, y)
    return func


def _function(e):
    """pp.ad.Function with the polynomial body e["f"], or — with e["diag"] = [m1] / [m1, m2] — a
    DiagonalJacobianFunction whose values are that body applied to the plain values of the arguments"""
    import porepy as pp
    if "diag" not in e:
        return pp.ad.Function(_callable(e["f"]), "f")
    body = e["f"]

    class _Diag(pp.ad.DiagonalJacobianFunction):
        def get_values(self, *args):
            plain = [a.val if isinstance(a, pp.ad.AdArray) else a for a in args]
            return _feval(body, plain[0], plain[1] if len(plain) > 1 else plain[0])

    return _Diag([fl(m) for m in e["diag"]], "g")


# ----------------------------------------------------------------------------- canonical forms
def tree_str(op):
    import porepy as pp
    if isinstance(op, pp.ad.MixedDimensionalVariable):
        return f"mdvar[{op.size},{op._time_step_index},{op._iterate_index}]"
    if isinstance(op, pp.ad.Variable):
        return f"var[{op.size},{op._time_step_index},{op._iterate_index}]"
    if isinstance(op, pp.ad.Scalar):
        return f"scalar[{frac(op._value)}]"
    if isinstance(op, pp.ad.DenseArray):
        return f"dense[{op._values.size}]"
    if isinstance(op, pp.ad.SparseArray):
        return f"sparse[{op._mat.shape[0]}x{op._mat.shape[1]}]"
    if isinstance(op, pp.ad.Projection):
        return f"proj[{op._slicer.domain_size}>{op._slicer.range_size}]"
    if isinstance(op, pp.ad.ProjectionList):
        return f"plist[{len(op.children)}]"
    if isinstance(op, pp.ad.TimeDependentDenseArray):
        return f"td[{op._c02_id},{op._time_step_index}]"
    if len(op.children) == 0:
        return f"leaf:{type(op).__name__}"
    return f"{op.operation.value}({','.join(tree_str(c) for c in op.children)})"


def _tag_td(w, op, seen=None):
    """give every TimeDependentDenseArray in the tree the id of its case entry (names are unique)"""
    import porepy as pp
    names = {td["name"]: i for i, td in enumerate(w.case["td"])}
    stack = [op]
    while stack:
        o = stack.pop()
        if isinstance(o, pp.ad.TimeDependentDenseArray):
            o._c02_id = names[o.name]
        if not isinstance(o, pp.ad.ProjectionList):
            stack.extend(getattr(o, "children", []))


def canon(res):
    import porepy as pp
    import scipy.sparse as sps
    from porepy.numerics.linalg.matrix_operations import ArraySlicer
    if isinstance(res, pp.ad.AdArray):
        j = res.jac.toarray()
        if not (np.all(np.isfinite(res.val)) and np.all(np.isfinite(j))):
            return {"kind": "nonfinite"}
        return {"kind": "ad", "val": [frac(x) for x in res.val], "jac": [[frac(x) for x in r] for r in j]}
    if isinstance(res, (int, float)):
        return {"kind": "scalar", "c": frac(float(res))} if np.isfinite(res) else {"kind": "nonfinite"}
    if isinstance(res, complex) or (isinstance(res, np.ndarray) and np.iscomplexobj(res)):
        return {"kind": "complex"}
    if isinstance(res, np.ndarray):
        if res.ndim != 1 or res.dtype == object:
            return {"kind": "weird-array"}
        if not np.all(np.isfinite(res)):
            return {"kind": "nonfinite"}
        return {"kind": "vec", "v": [frac(x) for x in res]}
    if sps.issparse(res):
        a = res.toarray()
        if not np.all(np.isfinite(a)):
            return {"kind": "nonfinite"}
        return {"kind": "mat", "nc": int(a.shape[1]), "rows": [[frac(x) for x in r] for r in a]}
    if isinstance(res, ArraySlicer):
        return {"kind": "slicer"}
    if isinstance(res, list):
        return {"kind": "slicers"}
    return {"kind": f"other:{type(res).__name__}"}


def _evaluate(w, op, deriv):
    import warnings
    with warnings.catch_warnings():
        warnings.simplefilter("ignore")
        with np.errstate(all="ignore"):
            try:
                return canon(w.es.evaluate(op, derivative=deriv, state=w.state))
            except Exception as e:
                return err_kind(e)


def _entry(w, op, name):
    """the deprecated entry points Operator.value_and_jacobian / Operator.value"""
    import warnings
    with warnings.catch_warnings():
        warnings.simplefilter("ignore")
        with np.errstate(all="ignore"):
            try:
                return canon(getattr(op, name)(w.es, state=w.state))
            except Exception as e:
                return err_kind(e)


_world_cache = {}


def world(case):
    key = id(case)
    if key not in _world_cache:
        if len(_world_cache) > 4:
            _world_cache.clear()
        _world_cache[key] = (case, World(case))
    return _world_cache[key][1]


def impl_run(case):
    import porepy as pp
    w = world(case)
    try:
        op = w.build(case["expr"])
    except Exception as e:
        return {"build_err": type(e).__name__}
    if not isinstance(op, pp.ad.Operator):
        return {"build_err": "raw"}
    _tag_td(w, op)
    out = {"tree": tree_str(op), "d1": _evaluate(w, op, True), "d0": _evaluate(w, op, False),
           "vj": _entry(w, op, "value_and_jacobian"), "v": _entry(w, op, "value")}
    if case.get("extra"):
        ops = _extra_ops(w, case)
        if ops is None:
            out["list_build_err"] = True
        else:
            out["l1"] = _evaluate_list(w, [op] + ops, True)
            out["l0"] = _evaluate_list(w, [op] + ops, False)
    return out


def _extra_ops(w, case):
    import porepy as pp
    ops = []
    for x in case["extra"]:
        try:
            o = w.build(x)
        except Exception:
            return None
        if not isinstance(o, pp.ad.Operator):
            return None
        ops.append(o)
    return ops


def _evaluate_list(w, ops, deriv):
    import warnings
    with warnings.catch_warnings():
        warnings.simplefilter("ignore")
        with np.errstate(all="ignore"):
            try:
                return [canon(r) for r in w.es.evaluate(ops, derivative=deriv, state=w.state)]
            except Exception as e:
                return err_kind(e)


def model_ops(case):
    w = world(case)
    env = {"state": case["state"] if case["use_state"] else None, "iter": case["iter"], "time": case["time"],
           "tdIter": [sum(td["iter"], []) for td in case["td"]],
           "tdTime": [[sum(pg, []) for pg in td["time"]] for td in case["td"]]}
    op = {"op": "eval", "env": env, "expr": w.lean_expr(case["expr"])}
    if case.get("extra"):
        op["extra"] = [w.lean_expr(x) for x in case["extra"]]
    return [op]


def model_decode(outs, case):
    return outs[0]


SKIP = ("unsupported", "div0")


def _may_broadcast(case):
    """does the expression contain an operand that can have length 1 (numpy then broadcasts instead of raising)?"""
    for n in _nodes(case["expr"]):
        k = n["k"]
        if k == "var":
            v = next(v for v in case["vars"] if v["name"] == n["name"])
            if sum(var_size(case, v, g) for g in n["grids"]) <= 1:
                return True
        elif k == "dense" and len(n["v"]) <= 1:
            return True
        elif k == "raw" and ((n["r"]["k"] == "arr" and len(n["r"]["v"]) <= 1) or (n["r"]["k"] == "sp" and len(n["r"]["rows"]) <= 1)):
            return True
        elif k == "sparse" and len(n["rows"]) <= 1:
            return True
        elif k == "proj" and n["rsize"] <= 1:
            return True
        elif k == "plist" and any(p["rsize"] <= 1 for p in n["ps"]):
            return True
        elif k == "td" and sum(grid_counts(case["grids"][g])[0] for g in case["td"][n["id"]]["grids"]) <= 1:
            return True
        elif k == "gridproj":
            return True
    return False


def compare(impl, model, case):
    if "harness_exc" in impl:
        return f"harness exception: {impl['harness_exc']}"
    if "err" in model and str(model["err"]).startswith("bad-op"):
        return f"driver rejected the case: {model['err']}"
    if "build_err" in model:
        if model["build_err"] in SKIP:
            return None
        return None if impl.get("build_err") == model["build_err"] else f"build: impl {impl} vs model {model['build_err']}"
    if "build_err" in impl:
        return f"build: impl raises {impl['build_err']}, model builds {model['tree']}"
    if "state_err" in model:
        return f"model cannot resolve the state: {model['state_err']}"
    if impl["tree"] != model["tree"]:
        return f"tree: impl {impl['tree']} vs model {model['tree']}"
    if model.get("wf") is not True:
        return "the environment of the case does not satisfy the well-formedness hypothesis of parse_eq_direct (envWFb)"
    for key in ("d1", "d0", "vj", "v"):
        if key in ("d1", "d0") and model[key] != model["s" + key[1]]:
            return f"model: parse and direct differ on {key}: {model[key]} vs {model['s' + key[1]]}"
        m, i = model[key], impl[key]
        if m.get("err") in SKIP:
            continue
        if i.get("kind") == "nonfinite":
            continue  # binary64 overflow (or 0 * inf) in the real code: outside the rational model
        d = deep_compare(i, m, key, tol=TOL)
        if d:
            return d
    if case.get("extra") and ("list_build_err" in model) != ("list_build_err" in impl):
        return f"list: building the further operators: impl {'fails' if 'list_build_err' in impl else 'works'}, model {'fails' if 'list_build_err' in model else 'works'}"
    for key in ("l1", "l0"):
        if key not in model or key not in impl:
            continue
        m, i = model[key], impl[key]
        if isinstance(m, dict):
            if m.get("err") in SKIP:
                continue
            if m != i:
                return f"{key}: impl {str(i)[:200]} vs model {m}"
            continue
        if isinstance(i, dict):
            return f"{key}: impl {i} vs model list of {len(m)} values"
        if len(i) != len(m):
            return f"{key}: {len(i)} vs {len(m)} results"
        for k, (ii, mm) in enumerate(zip(i, m)):
            if ii.get("kind") == "nonfinite":
                continue
            d = deep_compare(ii, mm, f"{key}[{k}]", tol=TOL)
            if d:
                return d
    return None


# ----------------------------------------------------------------------------- oracle: direct forward-mode evaluation
class Skip(Exception):
    pass


class OV:
    """value of the direct evaluation: number / vector (+ Jacobian) / matrix / projection"""

    def __init__(self, kind, val, jac=None):
        self.kind, self.val, self.jac = kind, val, jac  # kind: "s" float, "v" vector, "m" scipy matrix, "p" projection (as matrix)


def _diag(v):
    import scipy.sparse as sps
    return sps.diags(np.asarray(v, dtype=float)) if len(v) else sps.csr_matrix((0, 0))


def _obin(op, l, r):
    """mathematical forward-mode rule for `l op r` (operand order as written)."""
    import scipy.sparse as sps
    if "p" in (l.kind, r.kind) and not (op == "matmul" and l.kind == "p" and r.kind in ("v", "m")):
        raise Skip()  # a projection only acts from the left through @
    if op == "matmul":
        if l.kind not in ("m", "p"):
            raise Skip()
        if r.kind == "s":
            raise Skip()
        if l.val.shape[1] != r.val.shape[0]:
            raise Skip()
        if r.kind == "m":
            return OV("m", sps.csr_matrix(l.val @ r.val))
        return OV("v", l.val @ r.val, None if r.jac is None else sps.csr_matrix(l.val @ r.jac))
    if l.kind == "m" or r.kind == "m":
        if l.kind == "m" and r.kind == "m" and op in ("add", "sub"):
            if l.val.shape != r.val.shape:
                raise Skip()
            return OV("m", sps.csr_matrix(l.val + r.val if op == "add" else l.val - r.val))
        if op == "mul" and "s" in (l.kind, r.kind):
            m, s = (l, r) if l.kind == "m" else (r, l)
            return OV("m", sps.csr_matrix(m.val * s.val))
        if op == "div" and l.kind == "m" and r.kind == "s":
            if r.val == 0:
                raise Skip()
            return OV("m", sps.csr_matrix(l.val / r.val))
        raise Skip()
    if l.kind == "v" and r.kind == "v" and len(l.val) != len(r.val):
        # numpy broadcasting of a length-1 constant: against another constant always, against an AdArray only where
        # AdArray supports it (a +/- c, a ** c, c ** a); everything else is ill-typed for AdArray
        one, other = (l, r) if len(l.val) == 1 else (r, l)
        if len(one.val) != 1 or one.jac is not None:
            raise Skip()
        if other.jac is not None and not (op in ("add", "sub", "pow")):
            raise Skip()
        if other.jac is not None and op == "sub" and one is l:
            pass
        full = OV("v", np.full(len(other.val), one.val[0]))
        l, r = (full, r) if one is l else (l, full)
    if l.kind == "s" and r.kind == "s":
        if op == "pow" and ((r.val != int(r.val) and l.val <= 0) or (l.val == 0 and r.val < 0)):
            raise Skip()
        if op == "div" and r.val == 0:
            raise Skip()
        return OV("s", float(OPS[op](l.val, r.val)))
    n = len(l.val) if l.kind == "v" else len(r.val)
    lv = np.full(n, l.val) if l.kind == "s" else np.asarray(l.val, dtype=float)
    rv = np.full(n, r.val) if r.kind == "s" else np.asarray(r.val, dtype=float)
    lj, rj = l.jac, r.jac
    with np.errstate(all="ignore"):
        if op == "add":
            val = lv + rv
            jac = lj if rj is None else rj if lj is None else lj + rj
        elif op == "sub":
            val = lv - rv
            jac = lj if rj is None else -rj if lj is None else lj - rj
        elif op == "mul":
            val = lv * rv
            t1 = None if lj is None else _diag(rv) @ lj
            t2 = None if rj is None else _diag(lv) @ rj
            jac = t1 if t2 is None else t2 if t1 is None else t1 + t2
        elif op == "div":
            if np.any(rv == 0):
                raise Skip()
            val = lv / rv
            t1 = None if lj is None else _diag(1.0 / rv) @ lj
            t2 = None if rj is None else _diag(-lv / (rv * rv)) @ rj
            jac = t1 if t2 is None else t2 if t1 is None else t1 + t2
        elif op == "pow":
            integer = rj is None and bool(np.all(rv == np.round(rv)))
            if integer:
                if np.any((lv == 0) & (rv < (0 if lj is None else 1))):
                    raise Skip()
            elif np.any(lv <= 0):
                raise Skip()  # real exponents / exponents depending on the variables need log(base)
            val = lv ** rv
            t1 = None if lj is None else _diag(rv * lv ** (rv - 1)) @ lj
            t2 = None if rj is None else _diag(val * np.log(lv)) @ rj
            jac = t1 if t2 is None else t2 if t1 is None else t1 + t2
        else:
            raise Skip()
    return OV("v", val, jac)


def _shift(e, kind, steps):
    """the expression `e.previous_timestep(steps)` / `.previous_iteration(steps)`, leaves carrying their indices"""
    if e["k"] in SUGAR:
        e = _desugar(e)
    if e["k"] in ("pt", "pi"):  # a nested shift: apply the inner one first
        e = _shift(e["a"], e["k"], e["steps"])
    k = e["k"]
    if k == "var":
        t, i = e.get("t", -1), e.get("i", -1)
        if steps <= 0 or (kind == "pt" and i >= 0) or (kind == "pi" and t >= 0):
            raise Skip()
        return dict(e, t=t + steps, i=i) if kind == "pt" else dict(e, t=t, i=i + steps)
    if k == "td":
        if kind == "pt":
            if steps <= 0:
                raise Skip()
            return dict(e, t=e.get("t", -1) + steps)
        return e
    out = dict(e)
    for c in ("a", "b"):
        if c in e:
            out[c] = _shift(e[c], kind, steps)
    return out


def _oeval(w, e, deriv):
    import scipy.sparse as sps
    case = w.case
    k = e["k"]
    if k == "var":
        dofs = sum((w.dofs(e["name"], g) for g in e["grids"]), [])
        t, i = e.get("t", -1), e.get("i", -1)
        if t >= 0 or i >= 0:
            src = case["time"] if t >= 0 else case["iter"]
            idx = t if t >= 0 else i
            if idx >= len(src):
                raise Skip()
            return OV("v", np.array([fl(src[idx][d]) for d in dofs]))
        st = w.env_state()
        val = np.array([fl(st[d]) for d in dofs])
        if not deriv:
            return OV("v", val)
        return OV("v", val, sps.csr_matrix((np.ones(len(dofs)), (np.arange(len(dofs)), np.array(dofs, dtype=int))), shape=(len(dofs), w.N)))
    if k == "scalar":
        return OV("s", fl(e["c"]))
    if k == "dense":
        return OV("v", np.array([fl(x) for x in e["v"]]))
    if k == "sparse":
        return OV("m", _sp(e).tocsr())
    if k == "proj":
        return OV("p", _proj_matrix(e))
    if k == "plist":
        if not e["ps"]:
            raise Skip()
        shapes = {(p["rsize"], p["dsize"]) for p in e["ps"]}
        if len(shapes) != 1:
            raise Skip()
        return OV("p", sum((_proj_matrix(p) for p in e["ps"][1:]), _proj_matrix(e["ps"][0])))
    if k == "td":
        td = case["td"][e["id"]]
        t = e.get("t", -1)
        if t >= 0:
            if t >= len(td["time"]):
                raise Skip()
            return OV("v", np.array([fl(x) for x in sum(td["time"][t], [])]))
        return OV("v", np.array([fl(x) for x in sum(td["iter"], [])]))
    if k == "gridproj":
        return OV("m", _gridproj_matrix(case, e))
    if k == "raw":
        r = e["r"]
        if r["k"] == "num":
            return OV("s", fl(r["c"]))
        if r["k"] == "arr":
            return OV("v", np.array([fl(x) for x in r["v"]]))
        return OV("m", _sp(r).tocsr())
    if k == "bin":
        l, r = _oeval(w, e["a"], deriv), _oeval(w, e["b"], deriv)
        if e["op"] == "matmul" and e["a"]["k"] in ("proj", "plist") and r.kind == "s":
            m = l.val
            return OV("v", m @ np.full(m.shape[1], r.val))
        return _obin(e["op"], l, r)
    if k in SUGAR:
        return _oeval(w, _desugar(e), deriv)
    if k in ("neg", "pt", "pi", "f1", "f2") and (e["a"]["k"] == "raw" or (k == "f2" and e["b"]["k"] == "raw")):
        raise Skip()  # python applies these to a plain number / array, no operator is involved
    if k == "neg":
        x = _oeval(w, e["a"], deriv)
        return OV(x.kind, -x.val, None if x.jac is None else -x.jac)
    if k in ("pt", "pi"):
        return _oeval(w, _shift(e["a"], k, e["steps"]), deriv)
    if k in ("f1", "f2"):
        x = _oeval(w, e["a"], deriv)
        y = _oeval(w, e["b"], deriv) if k == "f2" else x
        if "diag" in e:
            # values of the body on the plain values; Jacobian by definition m1*J(x) [+ m2*J(y)]
            val = _ofunc(e["f"], OV(x.kind, x.val), OV(y.kind, y.val))
            if val.kind != "v":
                raise Skip()
            args = [x, y] if k == "f2" else [x]
            if all(a.jac is None for a in args):
                return val
            terms = [fl(m) * a.jac for a, m in zip(args, e["diag"]) if a.jac is not None]
            if not terms or any(t.shape[0] != len(val.val) for t in terms):
                raise Skip()
            return OV("v", val.val, sum(terms[1:], terms[0]))
        return _ofunc(e["f"], x, y)
    raise Skip()


def _ofunc(f, x, y):
    k = f["k"]
    if k == "x":
        return x
    if k == "y":
        return y
    if k == "c":
        return OV("s", fl(f["c"]))
    return _obin(k, _ofunc(f["a"], x, y), _ofunc(f["b"], x, y))


def _proj_matrix(p):
    import scipy.sparse as sps
    if len(p["dom"]) != len(p["rng"]) or len(set(p["rng"])) != len(p["rng"]):
        raise Skip()
    if any(d >= p["dsize"] for d in p["dom"]) or any(r >= p["rsize"] for r in p["rng"]):
        raise Skip()
    return sps.csr_matrix((np.ones(len(p["dom"])), (np.array(p["rng"], dtype=int), np.array(p["dom"], dtype=int))),
                          shape=(p["rsize"], p["dsize"]))


def _gridproj_matrix(case, e):
    """cell restriction (rows = cells of `sub`, in that order) or prolongation (its transpose), computed from the counts"""
    import scipy.sparse as sps
    sizes = [grid_counts(case["grids"][g])[0] for g in e["all"]]
    off = {g: sum(sizes[:i]) for i, g in enumerate(e["all"])}
    cols = [off[g] + c for g in e["sub"] for c in range(grid_counts(case["grids"][g])[0])]
    m = sps.csr_matrix((np.ones(len(cols)), (np.arange(len(cols)), np.array(cols, dtype=int))), shape=(len(cols), sum(sizes)))
    return m if e["which"] == "cell_restriction" else sps.csr_matrix(m.T)


def _sig(e, depth=2):
    k = e["k"]
    if k == "raw":
        return "raw-" + e["r"]["k"]
    if k == "bin":
        return e["op"] + ("(" + _sig(e["a"], depth - 1) + "," + _sig(e["b"], depth - 1) + ")" if depth > 0 else "")
    if k in ("neg", "pt", "pi", "f1"):
        return k + ("(" + _sig(e["a"], depth - 1) + ")" if depth > 0 else "")
    if k == "f2":
        return k + ("(" + _sig(e["a"], depth - 1) + "," + _sig(e["b"], depth - 1) + ")" if depth > 0 else "")
    if k == "var":
        return "mdvar" if e["md"] else "var"
    return k


def _has_current_var(e, shifted=False):
    k = e["k"]
    if k == "var":
        return not shifted
    if k in SUGAR:
        return _has_current_var(_desugar(e), shifted)
    if k in ("pt", "pi"):
        return _has_current_var(e["a"], True)
    return any(_has_current_var(e[c], shifted) for c in ("a", "b") if c in e)


def _dense(j):
    return np.asarray(j.toarray() if hasattr(j, "toarray") else j, dtype=float)


def _arr_close(a, b):
    a, b = np.asarray(a, dtype=float), np.asarray(b, dtype=float)
    if a.shape != b.shape:
        return False
    scale = max(1.0, float(np.max(np.abs(b))) if b.size else 1.0)
    return bool(np.all(np.abs(a - b) <= TOL * scale))


def oracle(case):
    import warnings
    with warnings.catch_warnings():
        warnings.simplefilter("ignore")
        return _oracle(case)


def _oracle(case):
    """The property on the real code: EquationSystem.evaluate vs the forward-mode rules applied directly
    (independent of the Lean model), derivative=False vs True, previous values carry no derivative."""
    import warnings
    import porepy as pp
    w = world(case)
    sig = _sig(case["expr"])
    try:
        op = w.build(case["expr"])
    except Exception as e:
        op = e
    direct = None
    try:
        with warnings.catch_warnings():
            warnings.simplefilter("ignore")
            direct = _oeval(w, case["expr"], True)
            direct0 = _oeval(w, case["expr"], False)
        if direct.kind in ("m", "p") or not np.all(np.isfinite(np.atleast_1d(direct.val))):
            direct = None
        elif direct.jac is not None and not np.all(np.isfinite(_dense(direct.jac))):
            direct = None
    except (Skip, ZeroDivisionError, OverflowError):
        direct = None
    if isinstance(op, Exception):
        if direct is not None:
            return {"what": f"building the expression raises {type(op).__name__}: {op} although it has a direct forward-mode value", "key": f"build-raises:{type(op).__name__}:{sig}"}
        return None
    if not isinstance(op, pp.ad.Operator):
        if direct is not None:
            return {"what": f"python built {type(op).__name__} instead of an Operator", "key": f"build-not-operator:{sig}"}
        return None
    with warnings.catch_warnings():
        warnings.simplefilter("ignore")
        with np.errstate(all="ignore"):
            try:
                r1 = w.es.evaluate(op, derivative=True, state=w.state)
            except Exception as e:
                r1 = e
            try:
                r0 = w.es.evaluate(op, derivative=False, state=w.state)
            except Exception as e:
                r0 = e
    if case.get("extra"):
        bad = _oracle_list(w, case, op, sig)
        if bad:
            return bad
    if any(isinstance(r, complex) or (isinstance(r, np.ndarray) and np.iscomplexobj(r)) for r in (r0, r1)):
        return None  # negative number to a fractional power: python switches to complex numbers
    if direct is not None:
        dval = np.atleast_1d(np.asarray(direct.val, dtype=float))
        djac = np.zeros((len(dval), w.N)) if direct.jac is None else _dense(direct.jac)
        if isinstance(r1, Exception):
            return {"what": f"evaluate(derivative=True) raises {type(r1).__name__} ({str(r1)[:120]}) although the expression has the direct value {dval[:6].tolist()}", "key": f"parser-raises:{type(r1).__name__}:{sig}"}
        if not isinstance(r1, pp.ad.AdArray):
            return {"what": f"evaluate(derivative=True) returned {type(r1).__name__}, not an AdArray", "key": f"not-adarray:{sig}"}
        if not _arr_close(r1.val, dval):  # the direct value is finite: nan/inf from the parser is a difference too
            return {"what": f"value differs from direct forward-mode evaluation: {r1.val[:6].tolist()} vs {dval[:6].tolist()}", "key": f"value-differs:{sig}"}
        if not _arr_close(_dense(r1.jac), djac):
            return {"what": f"Jacobian differs from direct forward-mode evaluation: {_dense(r1.jac)[:3].tolist()} vs {djac[:3].tolist()}", "key": f"jacobian-differs:{sig}"}
        d0 = np.atleast_1d(np.asarray(direct0.val, dtype=float))
        if isinstance(r0, Exception):
            return {"what": f"evaluate(derivative=False) raises {type(r0).__name__} although derivative=True works", "key": f"noderiv-raises:{type(r0).__name__}:{sig}"}
        if isinstance(r0, (int, float, np.ndarray)) and np.ndim(r0) <= 1 and np.all(np.isfinite(r0)) and not _arr_close(np.atleast_1d(r0), d0):
            return {"what": f"derivative=False value differs from the direct value: {np.atleast_1d(r0)[:6].tolist()} vs {d0[:6].tolist()}", "key": f"noderiv-value-differs:{sig}"}
    if isinstance(r1, pp.ad.AdArray) and not isinstance(r0, Exception) and np.all(np.isfinite(r1.val)):
        v0 = np.atleast_1d(np.asarray(r0, dtype=float)) if isinstance(r0, (int, float, np.ndarray)) and np.ndim(r0) <= 1 else None
        if v0 is None or not _arr_close(v0, r1.val):
            return {"what": f"values with and without derivatives disagree: {r0 if v0 is None else v0[:6].tolist()} vs {r1.val[:6].tolist()}", "key": f"noderiv-disagrees:{sig}"}
    if isinstance(r1, pp.ad.AdArray) and np.all(np.isfinite(r1.val)) and np.all(np.isfinite(_dense(r1.jac))) and len(sig) % 3 == 0:
        # the deprecated entry points of the operator itself go through the same parser
        with warnings.catch_warnings():
            warnings.simplefilter("ignore")
            with np.errstate(all="ignore"):
                try:
                    r2 = op.value_and_jacobian(w.es, state=w.state)
                    v2 = op.value(w.es, state=w.state)
                except Exception as e:
                    return {"what": f"Operator.value_and_jacobian/value raises {type(e).__name__} where EquationSystem.evaluate works", "key": f"operator-entry-raises:{sig}"}
        if not (isinstance(r2, pp.ad.AdArray) and _arr_close(r2.val, r1.val) and _arr_close(_dense(r2.jac), _dense(r1.jac))
                and isinstance(v2, (int, float, np.ndarray)) and _arr_close(np.atleast_1d(np.asarray(v2, dtype=float)), r1.val)):
            return {"what": "Operator.value_and_jacobian / Operator.value differ from EquationSystem.evaluate", "key": f"operator-entry-differs:{sig}"}
    if isinstance(r1, pp.ad.AdArray) and not _has_current_var(case["expr"]) and r1.jac.nnz and np.any(_dense(r1.jac) != 0):
        return {"what": "an expression without current variables (only previous time steps / iterates and constants) has a non-zero Jacobian", "key": f"prev-has-derivative:{sig}"}
    return None


def _oracle_list(w, case, op, sig):
    """evaluating several operators in one call = evaluating them one by one (the cache must be transparent)"""
    import warnings
    import porepy as pp
    ops = _extra_ops(w, case)
    if ops is None:
        return None
    ops = [op] + ops
    for deriv in (True, False):
        with warnings.catch_warnings():
            warnings.simplefilter("ignore")
            with np.errstate(all="ignore"):
                try:
                    singles = [w.es.evaluate(o, derivative=deriv, state=w.state) for o in ops]
                except Exception:
                    continue  # some operator fails on its own: the list call has to fail too, which the correspondence compares
                try:
                    together = w.es.evaluate(ops, derivative=deriv, state=w.state)
                except Exception as e:
                    return {"what": f"evaluate([..{len(ops)} operators..], derivative={deriv}) raises {type(e).__name__} although every operator evaluates on its own", "key": f"list-raises:{sig}"}
        if len(together) != len(singles):
            return {"what": "evaluate(list) returned a list of another length", "key": f"list-length:{sig}"}
        for k, (a, b) in enumerate(zip(together, singles)):
            ca, cb = canon(a), canon(b)
            if "nonfinite" in (ca.get("kind"), cb.get("kind")) or ca.get("kind") == "complex":
                continue
            if deep_compare(ca, cb, tol=1e-12):
                return {"what": f"operator {k} of a list evaluates differently in evaluate(list, derivative={deriv}) than on its own: {deep_compare(ca, cb, tol=1e-12)}", "key": f"list-differs:{sig}"}
    return None


# ----------------------------------------------------------------------------- generator
VALS = [Fraction(n, d) for d in (1, 2, 4) for n in range(-12, 13) if n != 0 and abs(Fraction(n, d)) <= 3]


def rv(rng, zero=0.0):
    if rng.random() < zero:
        return "0"
    return frac(rng.choice(VALS))


def rvec(rng, n, zero=0.05):
    return [rv(rng, zero) for _ in range(n)]


def ivec(rng, n):
    return [str(rng.choice([-2, -1, 0, 1, 2, 2, 3])) for _ in range(n)]


def gen_world(rng, tier):
    nsub = rng.choice([1, 2, 2, 3])
    grids = [{"kind": "sub", "dim": 2, "n": rng.randint(2, 3)}]
    if nsub >= 2:
        grids.append({"kind": "sub", "dim": 1, "n": rng.randint(2, 3)})
    if nsub >= 3:
        grids.append({"kind": "sub", "dim": rng.choice([1, 0]), "n": rng.randint(2, 3)})
    nintf = rng.randint(0, min(2, nsub - 1)) if nsub > 1 else 0
    pairs = [(0, 1), (0, 2), (1, 2)][: 1 if nsub == 2 else 3]
    rng.shuffle(pairs)
    for a, b in pairs[:nintf]:
        d = min(grids[a]["dim"], grids[b]["dim"])
        grids.append({"kind": "intf", "dim": d, "n": rng.randint(1, 2), "sides": rng.choice([1, 2]), "pair": [a, b]})
    subs = [k for k, g in enumerate(grids) if g["kind"] == "sub"]
    intfs = [k for k, g in enumerate(grids) if g["kind"] == "intf"]
    vars_ = [{"name": "p", "cells": 1, "faces": 0, "grids": subs}]
    if rng.random() < 0.5:
        vars_.append({"name": "u", "cells": 2, "faces": 0, "grids": [rng.choice(subs)]})
    if rng.random() < 0.5:
        vars_.append({"name": "f", "cells": 0, "faces": 1, "grids": [rng.choice([k for k in subs if grids[k]["dim"] > 0])]})
    if intfs:
        vars_.append({"name": "lam", "cells": 1, "faces": 0, "grids": intfs})
    rng.shuffle(vars_)
    # stratum: sub-variables created in md-grid order (even cases) or in a different order (odd cases), so that the
    # dof blocks of an md-variable are not in grid order
    if rng.random() < 0.5:
        for v in vars_:
            v["grids"] = rng.sample(v["grids"], len(v["grids"]))
    case = {"grids": grids, "vars": vars_}
    n = total_dofs(case)
    case["iter"] = [rvec(rng, n, 0.0) for _ in range(rng.choice([1, 2, 3, 3, 4]))]
    case["time"] = [rvec(rng, n, 0.0) for _ in range(rng.choice([0, 1, 2, 3, 3, 4]))]
    case["state"] = rvec(rng, n, 0.0)
    case["use_state"] = rng.random() < 0.6
    td = []
    for j in range(rng.randint(0, 2)):
        gks = rng.sample(subs, rng.randint(1, len(subs))) if (not intfs or rng.random() < 0.7) else rng.sample(intfs, rng.randint(1, len(intfs)))
        sizes = [grid_counts(grids[g])[0] for g in gks]
        td.append({"name": f"src{j}", "grids": gks,
                   "iter": [rvec(rng, s, 0.0) for s in sizes],
                   "time": [[rvec(rng, s, 0.0) for s in sizes] for _ in range(rng.randint(0, 2))]})
    case["td"] = td
    return case


class Gen:
    def __init__(self, rng, case, tier):
        self.rng, self.case, self.tier = rng, case, tier
        self.bad = 0.10
        # vector-valued leaves by size
        self.vec_leaves = {}
        for v in case["vars"]:
            for gk in v["grids"]:
                self.vec_leaves.setdefault(var_size(case, v, gk), []).append({"k": "var", "name": v["name"], "grids": [gk], "md": False})
            if len(v["grids"]) >= 1:
                for m in range(1, len(v["grids"]) + 1):
                    gs = v["grids"][:m] if rng.random() < 0.7 else rng.sample(v["grids"], m)
                    self.vec_leaves.setdefault(sum(var_size(case, v, g) for g in gs), []).append({"k": "var", "name": v["name"], "grids": gs, "md": True})
        for i, td in enumerate(case["td"]):
            self.vec_leaves.setdefault(sum(grid_counts(case["grids"][g])[0] for g in td["grids"]), []).append({"k": "td", "id": i})
        self.sizes = sorted(self.vec_leaves)

    def size(self):
        r = self.rng
        return r.choice(self.sizes) if r.random() < 0.8 else r.randint(2, 5)

    def shift(self, e):
        r = self.rng
        p = r.random()
        if p < 0.55:
            return e
        steps = r.choice([1, 1, 1, 2, 3]) if r.random() < 0.97 else 0
        return {"k": "pt" if r.random() < 0.55 else "pi", "steps": steps, "a": e}

    def vec_leaf(self, n):
        r = self.rng
        opts = self.vec_leaves.get(n, [])
        if opts and r.random() < 0.7:
            e = dict(r.choice(opts))
            return self.shift(e) if e["k"] == "var" or r.random() < 0.5 else e
        return {"k": "dense", "v": rvec(r, n)}

    def scalar(self, depth):
        r = self.rng
        if depth <= 0 or r.random() < 0.75:
            return {"k": "scalar", "c": rv(r, 0.03)}
        op = r.choice(["add", "sub", "mul", "div"])
        return {"k": "bin", "op": op, "a": self.scalar(depth - 1), "b": self.scalar(depth - 1)}

    def exponent(self):
        return {"k": "scalar", "c": str(self.rng.choice([-2, -1, 0, 1, 2, 2, 3]))}

    def mat(self, nr, nc, depth):
        r = self.rng
        rows = lambda: [[rv(r, 0.5) for _ in range(nc)] for _ in range(nr)]
        if depth <= 0 or r.random() < 0.6:
            return {"k": "sparse", "nc": nc, "rows": rows(), "fmt": r.choice(["csr", "csr", "csc"])}
        p = r.random()
        if p < 0.3:
            return {"k": "bin", "op": r.choice(["add", "sub"]), "a": self.mat(nr, nc, depth - 1), "b": self.mat(nr, nc, depth - 1)}
        if p < 0.5:
            a, b = self.scalar(0), self.mat(nr, nc, depth - 1)
            if r.random() < 0.5:
                a = {"k": "raw", "r": {"k": "num", "c": a["c"]}}
            return {"k": "bin", "op": "mul", "a": a, "b": b} if r.random() < 0.6 else {"k": "bin", "op": r.choice(["mul", "div"]), "a": b, "b": a}
        if p < 0.75:
            k = r.randint(1, 4)
            return {"k": "bin", "op": "matmul", "a": self.mat(nr, k, depth - 1), "b": self.mat(k, nc, depth - 1)}
        if p < 0.85:
            return {"k": "neg", "a": self.mat(nr, nc, depth - 1)}
        k = r.randint(1, 4)
        return {"k": "bin", "op": "matmul", "a": self.proj(k, nr), "b": self.mat(k, nc, depth - 1)}

    def proj(self, dsize, rsize):
        r = self.rng
        k = r.randint(0, min(dsize, rsize))
        rng_idx = r.sample(range(rsize), k)
        dom = [r.randrange(dsize) for _ in range(k)] if r.random() < 0.3 else r.sample(range(dsize), k)
        return {"k": "proj", "dom": dom, "rng": rng_idx, "dsize": dsize, "rsize": rsize}

    def raw_of(self, e):
        """turn an operator leaf into the raw python value it wraps (only where the other operand is an operator)"""
        if e["k"] == "scalar":
            return {"k": "raw", "r": {"k": "num", "c": e["c"]}}
        if e["k"] == "dense":
            return {"k": "raw", "r": {"k": "arr", "v": e["v"]}}
        if e["k"] == "sparse":
            return {"k": "raw", "r": {"k": "sp", "nc": e["nc"], "rows": e["rows"], "fmt": "csr"}}
        return e

    def fexpr(self, depth, two):
        r = self.rng
        if depth <= 0 or r.random() < 0.3:
            p = r.random()
            if p < 0.2:
                return {"k": "c", "c": rv(r)}
            return {"k": "y"} if two and p < 0.6 else {"k": "x"}
        return {"k": r.choice(["add", "sub", "mul", "mul"]), "a": self.fexpr(depth - 1, two), "b": self.fexpr(depth - 1, two)}

    def vec(self, n, depth):
        r = self.rng
        if depth <= 0 or r.random() < 0.12:
            return self.vec_leaf(n)
        if r.random() < self.bad:
            return self.ill(n, depth)
        if r.random() < 0.06:
            return self.broadcast(n, depth)
        p = r.random()
        if p < 0.34:  # vector op vector
            op = r.choice(["add", "sub", "mul", "div", "add", "sub", "mul"])
            a, b = self.vec(n, depth - 1), self.vec(n, depth - 1)
            if op == "div" and r.random() < 0.7:
                b = self.vec_leaf(n)
            return self.maybe_raw({"k": "bin", "op": op, "a": a, "b": b})
        if p < 0.52:  # scalar with vector, either side
            op = r.choice(["add", "sub", "mul", "div"])
            s, v = self.scalar(1), self.vec(n, depth - 1)
            e = {"k": "bin", "op": op, "a": s, "b": v} if r.random() < 0.55 else {"k": "bin", "op": op, "a": v, "b": s}
            return self.maybe_raw(e)
        if p < 0.60:  # powers
            base = self.vec(n, depth - 1)
            ex = self.exponent() if r.random() < 0.7 else {"k": "dense", "v": ivec(r, n)}
            if r.random() < 0.12:  # number ** vector: needs the logarithm when the vector is an AdArray
                base = {"k": "scalar", "c": frac(abs(Fraction(rv(r))))} if r.random() < 0.5 else {"k": "dense", "v": [frac(abs(Fraction(x))) for x in rvec(r, n, 0.0)]}
                ex = self.vec(n, min(depth - 1, 1))
            return self.maybe_raw({"k": "bin", "op": "pow", "a": base, "b": ex})
        if p < 0.72:  # matrix @ vector
            m = r.choice(self.sizes) if r.random() < 0.7 else r.randint(1, 5)
            gr = self.grid_restr(n) if r.random() < 0.2 else None
            if gr is not None:
                return {"k": "bin", "op": "matmul", "a": gr[0], "b": self.vec(gr[1], depth - 1)}
            return self.maybe_raw({"k": "bin", "op": "matmul", "a": self.mat(n, m, depth - 1), "b": self.vec(m, depth - 1)})
        if p < 0.82:  # projections
            m = r.choice(self.sizes) if r.random() < 0.7 else r.randint(1, 5)
            q = r.random()
            if q < 0.55:
                a = self.proj(m, n)
            else:
                a = {"k": "plist", "ps": [self.proj(m, n) for _ in range(r.choice([0, 1, 2, 2, 3]))]}
                for pj in a["ps"]:
                    pj.pop("k")
            b = self.vec(m, depth - 1) if r.random() < 0.85 else self.scalar(0)
            return {"k": "bin", "op": "matmul", "a": a, "b": b}
        if p < 0.87:
            return {"k": "neg", "a": self.vec(n, depth - 1)}
        if p < 0.93:
            steps = r.choice([1, 1, 2]) if r.random() < 0.95 else 0
            return {"k": r.choice(["pt", "pi"]), "steps": steps, "a": self.vec(n, depth - 1)}
        if r.random() < 0.5:
            e = {"k": "f1", "f": self.fexpr(2, False), "a": self.vec(n, depth - 1)}
            if r.random() < 0.35:
                e["diag"] = [rv(r, 0.1)]
            return e
        b = self.vec(n, depth - 1) if r.random() < 0.7 else self.scalar(0)
        e = {"k": "f2", "f": self.fexpr(2, True), "a": self.vec(n, depth - 1), "b": b}
        if r.random() < 0.35:
            e["diag"] = [rv(r, 0.1)] if r.random() < 0.25 else [rv(r, 0.1), rv(r, 0.1)]
        return e

    def broadcast(self, n, depth):
        """a length-1 array against a vector of length n (numpy broadcasts; AdArray accepts it for a +/- c, a ** c, c ** a)"""
        r = self.rng
        q = r.random()
        if q < 0.5:
            one = {"k": "dense", "v": [rv(r, 0.0) if r.random() < 0.5 else str(r.choice([1, 2, 2, 3]))]}
        elif q < 0.8 or 1 not in self.vec_leaves:
            one = {"k": "raw", "r": {"k": "arr", "v": [rv(r, 0.0)]}}
        else:
            one = self.vec_leaf(1)
        op = r.choice(["add", "sub", "add", "sub", "pow", "mul", "div"])
        other = self.vec(max(n, 2), depth - 1)
        if one["k"] == "raw" and other["k"] == "raw":
            other = self.vec_leaf(max(n, 2))
        return {"k": "bin", "op": op, "a": other, "b": one} if r.random() < 0.55 else {"k": "bin", "op": op, "a": one, "b": other}

    def grid_restr(self, n):
        """cell restriction / prolongation among the subdomains whose result has n rows"""
        r = self.rng
        gs = self.case["grids"]
        subs = [k for k, g in enumerate(gs) if g["kind"] == "sub"]
        cells = {k: grid_counts(gs[k])[0] for k in subs}
        tot = sum(cells.values())
        for _ in range(6):
            sub = r.sample(subs, r.randint(0, len(subs)))
            m = sum(cells[k] for k in sub)
            if m == n:
                return {"k": "gridproj", "which": "cell_restriction", "all": subs, "sub": sub}, tot
            if tot == n:
                return {"k": "gridproj", "which": "cell_prolongation", "all": subs, "sub": sub}, m
        return None

    def maybe_raw(self, e):
        """replace one operator leaf operand by the raw python value (the other operand stays an operator)"""
        r = self.rng
        if r.random() < 0.45:
            side = r.choice(["a", "a", "b"])
            other = "b" if side == "a" else "a"
            if e[side]["k"] in ("scalar", "dense", "sparse") and e[other]["k"] != "raw":
                e = dict(e)
                e[side] = self.raw_of(e[side])
        return e

    def any_operand(self, depth):
        r = self.rng
        p = r.random()
        n = r.choice(self.sizes + [2, 3])
        if p < 0.35:
            return self.vec(max(n, 2), depth)
        if p < 0.5:
            return self.scalar(0)
        if p < 0.7:
            return self.mat(r.randint(2, 4), r.randint(2, 4), 0)
        if p < 0.85:
            return self.proj(r.randint(2, 4), r.randint(2, 4))
        ps = [self.proj(3, 3) for _ in range(r.randint(0, 2))]
        for pj in ps:
            pj.pop("k")
        return {"k": "plist", "ps": ps}

    def ill(self, n, depth):
        """an ill-typed (or oddly typed) node"""
        r = self.rng
        n = max(2, n)
        if r.random() < 0.5:  # size mismatch, both sizes >= 2
            m = n + r.choice([1, 2])
            op = r.choice(["add", "sub", "mul", "div", "pow", "matmul"])
            a, b = self.vec(max(2, n), depth - 1), self.vec(m, depth - 1)
            if op == "matmul":
                a = self.mat(n, m + 1, 0)
            return self.maybe_raw({"k": "bin", "op": op, "a": a, "b": b} if r.random() < 0.5 or op == "matmul" else {"k": "bin", "op": op, "a": b, "b": a})
        op = r.choice(list(OPS))
        return self.maybe_raw({"k": "bin", "op": op, "a": self.any_operand(depth - 1), "b": self.any_operand(depth - 1)})

    def expr(self):
        r = self.rng
        depth = r.choice([1, 2, 2, 3, 3, 4]) if self.tier == "quick" else r.choice([1, 2, 3, 3, 4, 4, 5])
        p = r.random()
        if p < 0.9:
            return self.vec(self.size(), depth)
        if p < 0.93:
            return self.scalar(2)
        if p < 0.96:
            return self.mat(r.randint(1, 4), r.randint(1, 4), 2)
        return self.any_operand(1)


def _has_raw_pair(e):
    """raw (x) raw never reaches an operator: not an expression of the property"""
    if e["k"] == "bin" and e["a"]["k"] == "raw" and e["b"]["k"] == "raw":
        return True
    return any(_has_raw_pair(e[c]) for c in ("a", "b") if c in e and isinstance(e[c], dict))


STRATA = ["normal"] * 11 + ["shift-fn"] * 3 + ["empty", "empty", "scale", "scale", "repeat", "repeat", "sum", "sum", "dup-list"]


def _scale(vec, k):
    return [frac(Fraction(x) * Fraction(2) ** k) for x in vec]


def _fnodes(f):
    yield f
    for c in ("a", "b"):
        if c in f:
            yield from _fnodes(f[c])


def _stratum_expr(rng, g, case, stratum):
    """corner-case strata: size-0 operands, extreme scale, one sub-expression repeated, sum_operator_list"""
    n = g.size()
    if stratum == "empty":
        name = case["vars"][0]["name"]
        empty = {"k": "var", "name": name, "grids": [], "md": True}
        if rng.random() < 0.4:
            empty = {"k": rng.choice(["pt", "pi"]), "steps": 1, "a": empty}
        other = rng.choice([{"k": "dense", "v": []}, {"k": "raw", "r": {"k": "arr", "v": []}}, empty,
                            {"k": "bin", "op": "matmul", "a": {"k": "sparse", "nc": n, "rows": [], "fmt": "csr"}, "b": g.vec(n, 1)},
                            {"k": "scalar", "c": rv(rng)}])
        q = rng.random()
        if q < 0.6:
            return {"k": "bin", "op": rng.choice(["add", "sub", "mul", "div", "pow"]), "a": empty, "b": other} if rng.random() < 0.5 else \
                {"k": "bin", "op": rng.choice(["add", "sub", "mul"]), "a": other, "b": empty}
        if q < 0.8:  # a matrix without columns times an empty vector: a zero vector of length n
            return {"k": "bin", "op": "add", "a": {"k": "bin", "op": "matmul", "a": {"k": "sparse", "nc": 0, "rows": [[] for _ in range(n)], "fmt": "csr"}, "b": empty}, "b": g.vec(n, 1)}
        return {"k": "f1", "f": g.fexpr(2, False), "a": empty}
    if stratum == "repeat":
        x = g.vec(n, 2)
        op = rng.choice(["sub", "div", "mul", "add"])
        e = {"k": "bin", "op": op, "a": x, "b": x}
        if rng.random() < 0.5:
            e = {"k": "bin", "op": rng.choice(["sub", "add", "mul"]), "a": e, "b": x}
        return e
    if stratum == "shift-fn":
        # a composite tree with two DIFFERENT wrapped functions (and the same one twice) of the same argument sub-tree,
        # shifted as a whole (previous_timestep / previous_iteration / time_increment / dt, also nested)
        x = g.vec_leaf(n) if rng.random() < 0.6 else g.vec(n, 1)
        while x["k"] in ("pt", "pi"):
            x = x["a"]
        two = rng.random() < 0.3
        y = g.vec_leaf(n)
        while y["k"] in ("pt", "pi"):
            y = y["a"]

        def fn(body, diag=None):
            e = {"k": "f2", "f": body, "a": x, "b": y} if two else {"k": "f1", "f": body, "a": x}
            if diag:
                e["diag"] = diag
            return e

        bodies = []
        while len(bodies) < 2:
            b = g.fexpr(2, two)
            if b not in bodies and any(nd.get("k") == "x" for nd in _fnodes(b)):
                bodies.append(b)
        fa, fb, fa2 = fn(bodies[0]), fn(bodies[1]), fn(bodies[0])
        if rng.random() < 0.25:  # two DiagonalJacobianFunctions that differ in their multipliers only
            fb = fn(bodies[0], [rv(rng, 0.0)] + ([rv(rng, 0.0)] if two else []))
            fa = fn(bodies[0], [rv(rng, 0.0)] + ([rv(rng, 0.0)] if two else []))
        q = g.vec_leaf(n)
        while q["k"] in ("pt", "pi"):
            q = q["a"]
        form = rng.randrange(4)
        if form == 0:
            comp = {"k": "bin", "op": "add", "a": {"k": "bin", "op": "mul", "a": fa, "b": q}, "b": {"k": "bin", "op": "mul", "a": {"k": "scalar", "c": "5/2"}, "b": fb}}
        elif form == 1:
            comp = {"k": "bin", "op": "sub", "a": fa, "b": fb}
        elif form == 2:
            comp = {"k": "bin", "op": "add", "a": {"k": "bin", "op": "mul", "a": fa, "b": fa2}, "b": fb}
        else:
            comp = {"k": "sum", "xs": [fa, fb, fa2]}
        w = rng.random()
        if w < 0.3:
            return {"k": "pt", "steps": rng.choice([1, 1, 2]), "a": comp}
        if w < 0.5:
            return {"k": "pi", "steps": rng.choice([1, 1, 2]), "a": comp}
        if w < 0.65:
            return {"k": "tinc", "a": comp}
        if w < 0.8:
            return {"k": "dt", "a": comp, "c": rng.choice(["1/2", "2", "1/4"])}
        if w < 0.9:
            return {"k": "pt", "steps": 1, "a": {"k": "pt", "steps": 1, "a": comp}}
        return {"k": "bin", "op": "sub", "a": comp, "b": {"k": "pi", "steps": 1, "a": comp}}
    if stratum == "sum":
        return {"k": "sum", "xs": [g.vec(n, rng.choice([0, 1, 2])) for _ in range(rng.randint(1, 4))]}
    return None


def gen_case(rng, tier):
    case = gen_world(rng, tier)
    stratum = rng.choice(STRATA)
    case["stratum"] = stratum
    if stratum == "scale":  # extreme scale: all stored values times 2^k, |k| = 20 (still exact in binary64)
        k = rng.choice([-20, 20])
        for key in ("iter", "time"):
            case[key] = [_scale(v, k) for v in case[key]]
        case["state"] = _scale(case["state"], k)
    g = Gen(rng, case, tier)
    for _ in range(20):
        e = _stratum_expr(rng, g, case, stratum) or g.expr()
        if not _has_raw_pair(e) and e["k"] != "raw":
            break
    case["expr"] = e
    case["share"] = rng.random() < 0.5
    if rng.random() < 0.35:  # further operators for ONE evaluate call, sharing sub-expressions with the first
        subs = [n for n in _nodes(e) if n["k"] != "raw"]
        extra = []
        for _ in range(rng.randint(1, 2)):
            q = rng.random()
            x = rng.choice(subs)
            if q < 0.35:
                extra.append(x)
            elif q < 0.75:
                y = g.scalar(0) if rng.random() < 0.5 else rng.choice(subs)
                extra.append({"k": "bin", "op": rng.choice(["add", "mul", "sub"]), "a": x, "b": y})
            else:
                extra.append(g.vec(g.size(), 1))
        case["extra"] = [x for x in extra if not _has_raw_pair(x)]
    if stratum in ("dup-list", "repeat"):  # the same operator (object, when shared) several times in one evaluate call
        case["share"] = True
        case["extra"] = (case.get("extra") or []) + [e] + ([e] if rng.random() < 0.3 else [])
    return case


# ----------------------------------------------------------------------------- bookkeeping
def _nodes(e):
    yield e
    for x in e.get("xs", []) if e.get("k") == "sum" else []:
        yield from _nodes(x)
    for c in ("a", "b"):
        if c in e and isinstance(e[c], dict):
            yield from _nodes(e[c])


def nontrivial(case):
    return any(n["k"] in ("pt", "pi", "raw") or (n["k"] == "bin" and n["a"]["k"] in ("scalar", "dense", "raw", "td", "pt", "pi")) for n in _nodes(case["expr"]))


def signature(case):
    import json
    return json.dumps([case["grids"], case["vars"], case["expr"]], sort_keys=True)


def shrink_candidates(case):
    e = case["expr"]
    for c in ("a", "b"):
        if c in e and isinstance(e[c], dict) and e[c]["k"] != "raw":
            yield dict(case, expr=e[c])

    def rebuild(e):
        for c in ("a", "b"):
            if c in e and isinstance(e[c], dict):
                for sub in ("a", "b"):
                    if sub in e[c] and isinstance(e[c][sub], dict) and not (e[c][sub]["k"] == "raw" and e["k"] == "bin" and e.get("b" if c == "a" else "a", {}).get("k") == "raw"):
                        yield dict(e, **{c: e[c][sub]})
                for r in rebuild(e[c]):
                    yield dict(e, **{c: r})

    for e2 in rebuild(e):
        if not _has_raw_pair(e2):
            yield dict(case, expr=e2)
    if case["use_state"]:
        yield dict(case, use_state=False)


def stats(cases, impl_outs):
    from collections import Counter
    kinds, ops, res1, res0, raws = Counter(), Counter(), Counter(), Counter(), Counter()
    flips = 0
    for c, o in zip(cases, impl_outs):
        for n in _nodes(c["expr"]):
            kinds[n["k"]] += 1
            if n["k"] == "bin":
                ops[n["op"]] += 1
                if n["a"]["k"] == "raw":
                    raws["left-" + n["a"]["r"]["k"]] += 1
                if n["b"]["k"] == "raw":
                    raws["right-" + n["b"]["r"]["k"]] += 1
            if n["k"] in ("f1", "f2") and "diag" in n:
                kinds["diagonal-jacobian-function"] += 1
        if isinstance(o, dict):
            if "build_err" in o:
                res1["build:" + o["build_err"]] += 1
            elif "d1" in o:
                res1[o["d1"].get("kind") or o["d1"].get("err")] += 1
                res0[o["d0"].get("kind") or o["d0"].get("err")] += 1
    verdicts = 0
    for c in cases:
        try:
            d = _oeval(world(c), c["expr"], True)
            verdicts += d.kind not in ("m", "p")
        except Skip:
            pass
        except Exception:
            pass
    return {"oracle_has_direct_value": verdicts, "node_kinds": dict(kinds), "operations": dict(ops), "raw_operands": dict(raws), "derivative_true": dict(res1),
            "derivative_false": dict(res0), "use_state": sum(1 for c in cases if c["use_state"]),
            "shared_leaf_objects": sum(1 for c in cases if c.get("share")),
            "list_evaluations": sum(1 for c in cases if c.get("extra")),
            "strata": dict(Counter(c.get("stratum", "corpus") for c in cases)),
            "size0_operands": sum(1 for c in cases for n in _nodes(c["expr"]) if (n["k"] == "var" and not n["grids"]) or (n["k"] == "dense" and not n["v"]) or (n["k"] == "sparse" and (not n["rows"] or n["nc"] == 0))),
            "sum_operator_list": sum(1 for c in cases for n in _nodes(c["expr"]) if n["k"] == "sum"),
            "subvariables_created_out_of_grid_order": sum(1 for c in cases if any(v["grids"] != sorted(v["grids"]) for v in c["vars"])),
            "length1_operands": sum(1 for c in cases for n in _nodes(c["expr"]) if (n["k"] == "dense" and len(n["v"]) == 1) or (n["k"] == "raw" and n["r"]["k"] == "arr" and len(n["r"]["v"]) == 1)),
            "subdomains": dict(Counter(sum(1 for g in c["grids"] if g["kind"] == "sub") for c in cases)),
            "interfaces": dict(Counter(sum(1 for g in c["grids"] if g["kind"] == "intf") for c in cases))}
