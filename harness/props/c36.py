"""C36 Array slicers act exactly like their projection matrices (programs that build, chain, transpose, re-use slicers)."""
import copy
import warnings
from fractions import Fraction

import numpy as np
import scipy.sparse as sps

from harness.common import frac, err_kind, deep_compare

PID = "C36"
THEOREMS = [
    "PorepyVerif.C36.slice_vec_eq_matmul",
    "PorepyVerif.C36.slice_rows_eq_matmul",
    "PorepyVerif.C36.slice_csr_rows",
    "PorepyVerif.C36.slice_csr_eq_matmul",
    "PorepyVerif.C36.slice_ad",
    "PorepyVerif.C36.slice_scalar",
    "PorepyVerif.C36.applyCore_eq_spec",
    "PorepyVerif.C36.transpose_is_PT",
    "PorepyVerif.C36.transpose_chain",
    "PorepyVerif.C36.chain_eq_product",
    "PorepyVerif.C36.chain_eq_product_vec",
    "PorepyVerif.C36.pending_eq",
    "PorepyVerif.C36.pending_div_ad",
    "PorepyVerif.C36.pending_pow_ad",
    "PorepyVerif.C36.div_rule_secant",
    "PorepyVerif.C36.transpose_involutive",
    "PorepyVerif.C36.slicer_eq_spec",
    "PorepyVerif.C36.run_eq_specRun",
    "PorepyVerif.C36.run_eq_of_inv",
    "PorepyVerif.C36.run_eq_specRun_dec",
    "PorepyVerif.C36.run_eq_specRun_wf",
    "PorepyVerif.C36.slicer_eq_spec_wf",
    "PorepyVerif.C36.wfB_iff",
    "PorepyVerif.C36.goodB_iff",
    "PorepyVerif.C36.shapedB_sound",
    "PorepyVerif.C36.progGoodB_sound",
    "PorepyVerif.C36.applyCore_flag_irrelevant",
    "PorepyVerif.C36.ropNow_eq",
    "PorepyVerif.C36.chainNow_eq",
    "PorepyVerif.C36.transposeNow_eq",
    "PorepyVerif.C36.mkCore_good",
]
LEAN_MODULES = ["PorepyVerif.C36.Props"]
AUDIT = "PorepyVerif/C36/Audit.lean"
DRIVER = "PorepyVerif/C36/Driver.lean"
N = {"quick": 400, "thorough": 25000}
RULE = ("programs of 2-12 statements over slicer variables: ArraySlicer(...) with random index sets (restrictions with/without explicit "
        "range_size = onto / scatter path, prolongations, injections with both index lists, permutations; explicit or implied sizes; "
        "empty index lists; a few repeated domain indices), S.T, S.copy(), a∘S for a number / 1-d array / sparse matrix and ∘ in + - * / ** @, "
        "S_j @ S_k (chains up to length 3), and S @ y for y a number, 1-d array, 2-d array, csr/csc matrix (unsorted / repeated / explicit-zero "
        "entries, empty rows) or AdArray; variables are re-used after being chained; all slicers are dumped and probed again at the end. "
        "Data are small dyadic rationals (exact in binary64); results with / or ** are compared with tolerance 1e-9, everything else exactly. "
        "non-trivial = at least one S @ y with a non-scalar y through a slicer built by chain / reverse operation / transpose; "
        "distinct = distinct programs")
TRUSTED = [
    "modelled, not verified: numpy fancy indexing `x[dom]`, `vec[ran] = ...` (sequential assignment), np.argsort / np.cumsum / np.take, "
    "scipy row indexing A[dom] and tocsr() (csc input is converted by scipy before it reaches the model), scipy / numpy / AdArray arithmetic "
    "used for the pending operation `a ∘ sliced` (specLeft in the model mirrors it for the generated operand combinations)",
    "forward-mode rules on the sliced AdArray for s / x (exact: -s/x^2) and s ** x (integral x; ln s is not rational: the binary64 value of "
    "np.log(s) is passed to the model as data, Const.scalLn); other AdArray arithmetic is C01's subject",
    "Python operator dispatch (which of a.__op__ / S.__rop__ is called); 1-d numpy arrays as LEFT operands do not dispatch to the slicer "
    "(documented in the class), so the harness calls S.__rop__(array) directly for those",
    "the slicer's object graph (pending operand = reference to another slicer) is modelled by value; absence of mutation is checked by "
    "dumping and re-applying every slicer at the end of each program",
]
EXPLANATION = ("FULL: model = constructor, _slice_vector, _slice_matrix (raw CSR arrays, argsort/cumsum algorithm), AdArray and scalar handling, transpose, copy, "
               "reverse operations and slicer chaining with composed pending operations (code after repair a33b43101), the pp.ad.Projection / "
               "sum_projection_list wrappers and the unsupported-operation errors; theorems: every slicing step equals multiplication by the explicit "
               "projection matrix (vector, 2-d, CSR incl. storage layout, AdArray value+Jacobian, scalar), transposition (incl. involutivity, flag "
               "irrelevance), chaining, pending operations (incl. s / AdArray, s ** AdArray), and run_eq_specRun_dec / run_eq_specRun_wf for whole programs, "
               "whose hypotheses are decidable checks on the program text that the Lean driver evaluates for every generated case (a case covered by "
               "neither is reported as a disagreement). Two open findings in the operator-level wrappers (sum_projection_list mutates its operand; "
               "Projection.transpose drops the chained factor): the model follows the property there.")
ASSUMPTIONS = ["index lists are duplicate-free ('permutations, injections, restrictions'; Core.Good) for the program-level theorem; forward slicing needs only distinct range indices",
               "values are exact in binary64 (dyadic generator); / and ** are compared with tolerance"]

SYMS = ["+", "-", "*", "/", "**", "@"]


# ----------------------------------------------------------------------------- generator
def _dy(rng, lo=-12, hi=12, nz=False):
    while True:
        f = Fraction(rng.randint(lo, hi), rng.choice([1, 1, 2, 4]))
        if not nz or f != 0:
            return f


def _sizes(dom, ran, rsize, dsize):
    """(stored domain_size, range_size) as the constructor computes them; None if it raises."""
    if dom is None and ran is None:
        return None
    d = dom if dom is not None else list(range(len(ran)))
    r = ran if ran is not None else list(range(len(dom)))
    if (rsize is None and not r) or (dsize is None and not d):
        return None
    return (dsize if dsize is not None else max(d) + 1, rsize if rsize is not None else max(r) + 1, d, r)


def _gen_new(rng, i, n, allow_dup=True):
    """A constructor statement for a slicer whose operand has n rows. Returns (stmt, info|None)."""
    mode = rng.choice(["restrict"] * 6 + ["restrict_rs"] * 4 + ["prolong"] * 4 + ["both"] * 6 + ["perm"] * 4 + ["perm2"] * 4
                      + ["inplace"] * 4 + ["empty"] * 2 + ["dupdom"] * 2 + ["bad"])
    dom = ran = rsize = dsize = None
    if mode == "dupdom" and not allow_dup:
        mode = "restrict"
    if n == 0 and mode not in ("empty", "bad"):
        mode = "empty"
    if mode == "restrict" or mode == "restrict_rs":
        k = rng.randint(1, n)
        dom = rng.sample(range(n), k)
        if rng.random() < 0.4:
            dom.sort()
        if mode == "restrict_rs":
            rsize = k + rng.randint(0, 2)
    elif mode == "prolong":
        k = n  # domain indices are arange(k): all rows of the operand are used
        m = k + rng.randint(0, 3)
        ran = rng.sample(range(m), k)
        if rng.random() < 0.5:
            rsize = m
    elif mode == "both":
        k = rng.randint(1, n)
        m = k + rng.randint(0, 3)
        dom = rng.sample(range(n), k)
        ran = rng.sample(range(m), k)
        if rng.random() < 0.6:
            rsize = m
    elif mode == "inplace":
        # dom == ran, a proper subset of arange(n), sizes n: keeps the listed rows in place and zeroes the others
        k = rng.randint(1, max(1, n - 1))
        dom = sorted(rng.sample(range(n), k)) if rng.random() < 0.7 else rng.sample(range(n), k)
        ran = list(dom)
        rsize = n
        dsize = n if rng.random() < 0.7 else None
    elif mode == "perm":
        dom = rng.sample(range(n), n)
    elif mode == "perm2":
        dom = rng.sample(range(n), n)
        ran = rng.sample(range(n), n)
    elif mode == "empty":
        dom = [] if rng.random() < 0.7 else None
        ran = [] if (dom is None or rng.random() < 0.5) else None
        if rng.random() < 0.8:
            rsize = rng.randint(0, 3)
            dsize = n
    elif mode == "dupdom":
        k = rng.randint(2, n + 1)
        dom = [rng.randrange(n) for _ in range(k)]
        if rng.random() < 0.5:
            ran = rng.sample(range(k + 2), k)
    elif mode == "bad":
        pass
    if dom is not None and dsize is None and rng.random() < 0.5:
        dsize = n
    if ran is not None and dom is None and dsize is None and rng.random() < 0.3:
        dsize = n
    stmt = {"op": "new", "i": i, "dom": dom, "ran": ran, "rsize": rsize, "dsize": dsize}
    if dom is not None and ran is not None and dom and mode != "dupdom" and rng.random() < 0.5:
        # entry through the operator-level wrapper pp.ad.Projection (all four arguments are mandatory there)
        stmt["rsize"] = rsize = rsize if rsize is not None else max(ran) + 1 + rng.randint(0, 1)
        stmt["dsize"] = dsize = dsize if dsize is not None else n
        stmt["via"] = "projection"
    sz = _sizes(dom, ran, rsize, dsize)
    if sz is None:
        return stmt, None
    ds, rs, d, r = sz
    good = len(set(d)) == len(d) and len(set(r)) == len(r)
    full = set(r) == set(range(rs))
    info = {"i": i, "n_in": n, "n_out": rs, "T_out": ds, "good": good, "full": full, "kinds": {"s", "v", "a", "csr", "ad"},
            "pend": False, "left": False, "final": False, "len": 1, "syms": set(), "site": False}
    return stmt, info


def _gen_csr(rng, nrows, ncols=None):
    ncols = ncols or rng.randint(1, 4)
    indptr, indices, data = [0], [], []
    for _ in range(nrows):
        k = rng.choice([0, 0, 1, 1, 2, 3])
        for _ in range(k):
            indices.append(rng.randrange(ncols))  # unsorted, repeats possible
            data.append(frac(0 if rng.random() < 0.1 else _dy(rng)))
        indptr.append(len(indices))
    return {"k": "csr", "ncols": ncols, "indptr": indptr, "indices": indices, "data": data, "fmt": "csc" if rng.random() < 0.2 else "csr"}


def _gen_y(rng, kind, n, powdata):
    val = (lambda: Fraction(rng.randint(0, 3))) if powdata else (lambda: _dy(rng, nz=True))
    if kind == "s":
        isint = rng.random() < 0.3
        v = Fraction(rng.randint(0 if powdata else -5, 5)) if (isint or powdata) else _dy(rng, nz=True)
        if v == 0 and not powdata:
            v = Fraction(3)
        return {"k": "s", "v": frac(v), "int": bool(isint)}
    if kind == "v":
        return {"k": "v", "v": [frac(val()) for _ in range(n)]}
    if kind == "a":
        m = rng.randint(1, 3)
        return {"k": "a", "m": m, "rows": [[frac(val()) for _ in range(m)] for _ in range(n)]}
    if kind == "csr":
        return _gen_csr(rng, n)
    if kind == "ad":
        return {"k": "ad", "v": [frac(val()) for _ in range(n)], "jac": _gen_csr(rng, n)}
    raise ValueError(kind)


ALLOWED = {  # operand kinds y for which `a sym (S @ y)` is meaningful Python
    ("s", "+"): {"s", "v", "a", "ad"}, ("s", "-"): {"s", "v", "a", "ad"}, ("s", "*"): {"s", "v", "a", "csr", "ad"},
    ("s", "/"): {"s", "v", "a", "ad"}, ("s", "**"): {"s", "v", "a", "ad"},  # ad with **: positive base only (np.log)
    ("v", "+"): {"s", "v"}, ("v", "-"): {"s", "v"}, ("v", "*"): {"s", "v"}, ("v", "/"): {"s", "v"}, ("v", "**"): {"s", "v"},
    ("v", "@"): {"s", "v", "a"},
    ("m", "@"): {"s", "v", "a", "csr", "ad"},
}


def _good_new(rng, i, n):
    while True:
        st, info = _gen_new(rng, i, n, allow_dup=False)
        if info is not None and info["good"] and st["dom"] != [] and st["ran"] != [] and info["n_out"] > 0:
            return st, info


def _T_info(v, i):
    return {"i": i, "n_in": v["n_out"], "n_out": v["T_out"], "T_out": v["n_out"], "good": True, "full": False,
            "kinds": {"s", "v", "a", "csr", "ad"}, "pend": v["pend"], "left": False, "final": False, "len": v["len"],
            "syms": set(), "site": False}


def _chain_info(a, b, i):
    return {"i": i, "n_in": b["n_in"], "n_out": a["n_out"], "T_out": b["T_out"], "good": True, "full": False,
            "kinds": a["kinds"] & b["kinds"], "pend": True, "left": False, "final": False, "len": a["len"] + b["len"],
            "syms": set(), "site": False, "nleft": 0}


def _gen_transpose_then_chain(rng, stmts, vars_):
    """Stratum: a slicer is transposed FIRST (the transpose applied or not, or the slicer copied afterwards), THEN used as the
    right-most factor of a chain of length 2 or 3, THEN the chain is transposed and applied; finally a reverse operation on the
    same slicer followed by .T (must raise ValueError). Anything cached on the object by the first transpose must not leak."""
    i = 0

    def add(st, info):
        nonlocal i
        stmts.append(st)
        vars_.append(info)
        i += 1
        return info

    st, S1 = _good_new(rng, i, rng.randint(1, 5))
    add(st, S1)
    T1 = add({"op": rng.choice(["T", "T", "TP"]), "i": i, "j": S1["i"], "stratum": "transpose-then-chain"}, _T_info(S1, i))
    if rng.random() < 0.5:
        stmts.append({"op": "apply", "j": T1["i"], "y": _gen_y(rng, rng.choice(["v", "a", "csr", "ad", "s"]), T1["n_in"], False)})
    right = S1
    if rng.random() < 0.4:  # copy() after the transpose: the copy is the right-most factor
        right = add({"op": "copy", "i": i, "j": S1["i"]}, dict(S1, i=i, kinds=set(S1["kinds"]), syms=set()))
    st, S0 = _good_new(rng, i, right["n_out"])
    add(st, S0)
    outer = S0
    if rng.random() < 0.5:  # S2 @ S0 @ S1 = (S2 @ S0) @ S1
        st, S2 = _good_new(rng, i, S0["n_out"])
        add(st, S2)
        outer = add({"op": "chain", "i": i, "j": S2["i"], "k": S0["i"]}, _chain_info(S2, S0, i))
    ch = add({"op": "chain", "i": i, "j": outer["i"], "k": right["i"]}, _chain_info(outer, right, i))
    Tc = add({"op": "T", "i": i, "j": ch["i"]}, _T_info(ch, i))
    stmts.append({"op": "apply", "j": Tc["i"], "y": _gen_y(rng, rng.choice(["v", "v", "a", "csr", "ad"]), Tc["n_in"], False)})
    stmts.append({"op": "apply", "j": T1["i"], "y": _gen_y(rng, "v", T1["n_in"], False)})
    if rng.random() < 0.6:  # (c * S1).T after S1.T has been evaluated: ValueError on both sides
        r = {"op": "rop", "i": i, "j": S1["i"], "sym": "*", "a": {"k": "s", "v": "2", "int": False}, "via": "op"}
        add(r, dict(S1, i=i, kinds={"s", "v", "a", "csr", "ad"}, pend=True, left=True, syms={"*"}, nleft=1))
        add({"op": "T", "i": i, "j": i - 1}, None)
    return i


def gen_case(rng, tier):
    big = tier != "quick"
    nst = rng.randint(2, 12 if not big else 18)
    allow_sites = rng.random() < 0.06   # Projection.transpose() of a combined projection (known finding)
    multi = rng.random() < 0.35         # several pending operand operations on one slicer
    scale = rng.choice([Fraction(2) ** 40, Fraction(1, 2 ** 30)]) if rng.random() < 0.1 else None  # extreme scale of the operands
    stmts, vars_ = [], []
    has_T = has_dup = False  # a program either transposes or uses repeated domain indices (two theorems, two hypotheses)
    nxt = 0
    if rng.random() < 0.15:
        nxt = _gen_transpose_then_chain(rng, stmts, vars_)
        has_T = True
    for step in range(nst):
        usable = [v for v in vars_ if v is not None]
        choice = rng.choice(["new"] * 4 + ["apply"] * 6 + ["rop"] * 4 + ["chain"] * 4 + ["T", "T", "TP", "copy", "copy", "unsup"][: 6 if rng.random() < 0.5 else 5]) if usable else "new"
        if step == nst - 1 and usable:
            choice = "apply"
        if choice == "new":
            outs = [v["n_out"] for v in usable if v["n_out"] is not None and not v["final"]]
            n = rng.choice(outs) if outs and rng.random() < 0.6 else rng.randint(1, 6 if not big else 9)
            if rng.random() < 0.03:
                n = 0
            elif rng.random() < 0.08:
                n = 1  # size-1 operand space
            st, info = _gen_new(rng, nxt, n, allow_dup=not has_T)
            has_dup = has_dup or (info is not None and not info["good"])
            stmts.append(st)
            vars_.append(info)
            nxt += 1
        elif choice == "copy":
            v = rng.choice(usable)
            stmts.append({"op": "copy", "i": nxt, "j": v["i"]})
            vars_.append(dict(v, i=nxt, kinds=set(v["kinds"]), syms=set(v["syms"])))
            nxt += 1
        elif choice == "unsup":
            v = rng.choice(usable)
            stmts.append({"op": "unsup", "j": v["i"], "what": rng.choice(["*", "/", "+", "-", "**", "neg", "matmul-str", "matmul-3d"])})
        elif choice in ("T", "TP"):
            cands = [v for v in usable if v["good"] and (not v["left"] or rng.random() < 0.05)
                     and (choice == "T" or allow_sites or not v["pend"])]
            if not cands or has_dup:
                continue
            v = rng.choice(cands)
            has_T = True
            stmts.append({"op": choice, "i": nxt, "j": v["i"]})
            if v["left"]:  # a pending operand operation cannot be transposed: ValueError, nothing is built
                vars_.append(None)
                nxt += 1
                continue
            vars_.append({"i": nxt, "n_in": v["n_out"], "n_out": v["T_out"], "T_out": v["n_out"], "good": True, "full": False,
                          "kinds": {"s", "v", "a", "csr", "ad"}, "pend": v["pend"], "left": False, "final": False, "len": v["len"],
                          "syms": set(), "site": v["site"] or (choice == "TP" and v["pend"])})
            nxt += 1
        elif choice == "rop":
            cands = [v for v in usable if not v["final"] and v["n_out"] is not None and (multi or not v["left"])]
            if not cands:
                continue
            v = rng.choice(cands)
            ak = rng.choice(["s", "s", "s", "v", "v", "m"]) if not v["left"] else rng.choice(["s", "s", "v"])
            syms = [s for (k, s) in ALLOWED if k == ak and (ALLOWED[(k, s)] & v["kinds"])]
            if v["left"]:  # a second operand operation: keep to + - * so that every intermediate value stays exact
                syms = [s for s in syms if s in ("+", "-", "*")]
            if not syms:
                continue
            sym = rng.choice(syms)
            if sym == "/" and not v["full"] and rng.random() < 0.8:
                sym = "*" if ("*" in syms) else sym
            n_out = v["n_out"]
            st = {"op": "rop", "i": nxt, "j": v["i"], "sym": sym}
            final = False
            if ak == "s":
                isint = rng.random() < 0.3
                val = Fraction(rng.randint(-4, 4)) if isint else _dy(rng, -8, 8)
                if val == 0 and sym in ("**", "/") or (sym == "**" and val < 0 and not isint):
                    val = Fraction(3, 2) if not isint else Fraction(2)
                st["a"] = {"k": "s", "v": frac(val), "int": bool(isint)}
                if sym == "**" and val > 0:  # binary64 value of np.log(base): the only non-rational ingredient of base ** AdArray
                    st["a"]["ln"] = frac(float(np.log(float(val))))
                st["via"] = "op" if rng.random() < 0.85 else "dunder"
            elif ak == "v":
                wl = n_out if (rng.random() < 0.97 or n_out < 2) else n_out + 2  # (length 1 would broadcast)
                st["a"] = {"k": "v", "v": [frac(_dy(rng, -6, 6, nz=(sym in ("**", "/")))) for _ in range(wl)]}
                st["via"] = "dunder"
                if sym == "@":
                    final = True
            else:
                p = rng.randint(1, 4)
                k = n_out if rng.random() < 0.97 else n_out + 1
                st["a"] = {"k": "m", "rows": [[frac(0 if rng.random() < 0.4 else _dy(rng, -4, 4)) for _ in range(k)] for _ in range(p)], "ncols": k}
                st["via"] = "op"
                n_out = p
            stmts.append(st)
            vars_.append({"i": nxt, "n_in": v["n_in"], "n_out": None if final else n_out, "T_out": v["T_out"], "good": v["good"], "full": v["full"],
                          "kinds": (v["kinds"] & ALLOWED[(ak, sym)]) - ({"ad"} if (sym == "**" and "ln" not in st["a"]) else set()),
                          "pend": True, "left": True, "final": final, "len": v["len"],
                          "syms": v["syms"] | {sym}, "site": v["site"], "nleft": v.get("nleft", 0) + 1})
            nxt += 1
        elif choice == "chain":
            pairs = [(a, b) for a in usable for b in usable
                     if not b["final"] and b["n_out"] is not None and b["n_out"] == a["n_in"] and a["len"] + b["len"] <= 3
                     and not (a["left"] and b["left"] and not (a["syms"] <= {"+", "-", "*"}))
                     and "/" not in b["syms"]]  # an outer projection could drop the rows where numpy produced inf (the model stops there)
            if not pairs:
                continue
            a, b = rng.choice(pairs)  # S_new = a @ b : b is applied first
            stmts.append({"op": "chain", "i": nxt, "j": a["i"], "k": b["i"]})
            if rng.random() < 0.08:
                stmts[-1]["via"] = "sumproj"  # pp.ad.sum_projection_list([P_a @ P_b])
            vars_.append({"i": nxt, "n_in": b["n_in"], "n_out": a["n_out"], "T_out": b["T_out"], "good": a["good"] and b["good"],
                          "full": False, "kinds": a["kinds"] & b["kinds"], "pend": True, "left": a["left"] or b["left"], "final": a["final"],
                          "len": a["len"] + b["len"], "syms": a["syms"] | b["syms"], "site": a["site"] or b["site"],
                          "nleft": a.get("nleft", 0) + b.get("nleft", 0)})
            nxt += 1
        else:  # apply
            v = rng.choice(usable)
            kinds = sorted(v["kinds"])
            if not kinds:
                continue
            kind = rng.choice(kinds)
            if "ad" in kinds and (v["syms"] & {"/", "**"}) and rng.random() < 0.4:
                kind = "ad"  # forward-mode rules of s / x and s ** x on the sliced array
            n = v["n_in"]
            r = rng.random()
            if r < 0.04 and n > 0:
                n -= 1  # too few rows: IndexError unless the indices happen to fit
            elif r < 0.12:
                n += rng.randint(1, 2)  # more rows than the slicer's domain size (allowed: P gets more columns)
            y = _gen_y(rng, kind, n, "**" in v["syms"])
            if scale is not None and kind != "s" and "**" not in v["syms"]:
                y = _scale_y(y, scale)
            stmts.append({"op": "apply", "j": v["i"], "y": y})
            if rng.random() < 0.1:  # the same application once more: slicing must not leave state behind
                stmts.append(dict(copy.deepcopy(stmts[-1]), repeat=True))
    return {"stmts": stmts}


def _scale_y(y, c):
    sc = lambda xs: [frac(Fraction(x) * c) for x in xs]
    y = copy.deepcopy(y)
    if y["k"] == "v":
        y["v"] = sc(y["v"])
    elif y["k"] == "a":
        y["rows"] = [sc(r) for r in y["rows"]]
    elif y["k"] == "csr":
        y["data"] = sc(y["data"])
    elif y["k"] == "ad":
        y["v"] = sc(y["v"])
        y["jac"]["data"] = sc(y["jac"]["data"])
    y["scaled"] = True
    return y


# ----------------------------------------------------------------------------- real objects
def _f(s):
    return float(Fraction(s))


def _csr_obj(d):
    A = sps.csr_matrix((np.array([_f(x) for x in d["data"]], dtype=float), np.array(d["indices"], dtype=int), np.array(d["indptr"], dtype=int)),
                       shape=(len(d["indptr"]) - 1, d["ncols"]))
    return A.tocsc() if d.get("fmt") == "csc" else A


def _const_obj(a):
    if a["k"] == "s":
        f = Fraction(a["v"])
        return int(f) if a.get("int") and f.denominator == 1 else float(f)
    if a["k"] == "v":
        return np.array([_f(x) for x in a["v"]], dtype=float)
    return sps.csr_matrix(np.array([[_f(x) for x in row] for row in a["rows"]], dtype=float).reshape(len(a["rows"]), a["ncols"]))


def _y_obj(y):
    import porepy as pp
    if y["k"] == "s":
        f = Fraction(y["v"])
        return int(f) if y.get("int") and f.denominator == 1 else float(f)
    if y["k"] == "v":
        return np.array([_f(x) for x in y["v"]], dtype=float)
    if y["k"] == "a":
        return np.array([[_f(x) for x in row] for row in y["rows"]], dtype=float).reshape(len(y["rows"]), y["m"])
    if y["k"] == "csr":
        return _csr_obj(y)
    return pp.ad.AdArray(np.array([_f(x) for x in y["v"]], dtype=float), _csr_obj(y["jac"]))


def _arr(x):
    return None if x is None else np.array(x, dtype=int)


def _exec_stmt(st, env, check_operands=False):
    """Run one statement on the real code. Returns the new slicer / the result of `S @ y`."""
    import porepy as pp
    AS = pp.matrix_operations.ArraySlicer
    op = st["op"]
    if op == "new":
        if st.get("via") == "projection":
            return pp.ad.Projection(_arr(st["dom"]), _arr(st["ran"]), st["dsize"], st["rsize"]).parse(None)
        return AS(domain_indices=_arr(st.get("dom")), range_indices=_arr(st.get("ran")), range_size=st.get("rsize"), domain_size=st.get("dsize"))
    if op == "copy":
        return env[st["j"]].copy()
    if op == "T":
        return env[st["j"]].T
    if op == "TP":
        return _as_projection(env[st["j"]]).transpose().parse(None)
    if op == "unsup":
        S, w = env[st["j"]], st["what"]
        if w == "neg":
            return -S
        if w == "matmul-str":
            return S @ "abc"
        if w == "matmul-3d":
            return {"core": AS(domain_indices=np.array([0]), range_indices=np.array([1]), range_size=3) @ np.zeros((2, 2, 2))}
        return eval(f"S {w} 2.0")
    if op == "rop":
        a, S, sym = _const_obj(st["a"]), env[st["j"]], st["sym"]
        if st.get("via") == "dunder":
            name = {"+": "__radd__", "-": "__rsub__", "*": "__rmul__", "/": "__rtruediv__", "**": "__rpow__", "@": "__rmatmul__"}[sym]
            return getattr(S, name)(a)
        return eval(f"a {sym} S")
    if op == "chain":
        if st.get("via") == "sumproj":
            Pj, Pk = _as_projection(env[st["j"]]), _as_projection(env[st["k"]])
            res = pp.ad.sum_projection_list([Pj @ Pk]).parse(None)
            if check_operands and (Pk._slicer is not env[st["k"]] or Pj._slicer is not env[st["j"]]):
                raise _OperandMutated()
            return res
        return env[st["j"]] @ env[st["k"]]
    if op == "apply":
        return env[st["j"]] @ _y_obj(st["y"])
    raise ValueError(op)


class _OperandMutated(Exception):
    """pp.ad.sum_projection_list replaced the slicer of one of the Projection operands it was given."""


def _as_projection(S):
    """A pp.ad.Projection operator whose underlying slicer is S (as sum_projection_list itself installs combined slicers)."""
    import porepy as pp
    P = pp.ad.Projection(S.domain_indices, S.range_indices, int(S.domain_size), int(S.range_size))
    P._slicer = S
    return P


def _is_slicer(x):
    import porepy as pp
    return isinstance(x, pp.matrix_operations.ArraySlicer)


def _core_dump(S):
    # index lists and sizes through the public accessors
    return {"dom": [int(x) for x in S.domain_indices], "ran": [int(x) for x in S.range_indices], "dsize": int(S.domain_size),
            "rsize": int(S.range_size), "onto": bool(S._is_onto), "transposed": bool(S._is_transposed)}


def _kind_of(o):
    if isinstance(o, (int, float)):
        return "s"
    if isinstance(o, np.ndarray):
        return "v"
    return "m"


def _pending_list(S):
    if hasattr(S, "_pending"):  # layout of the proposed repair (list of pending pairs)
        return list(S._pending)
    if hasattr(S, "_pending_inner"):  # layout of the minimal repair: earlier pairs, then the current one
        return list(S._pending_inner) + ([(S._pending_operand, S._pending_operation)] if S._pending_operand is not None else [])
    if S._pending_operand is None:
        return []
    return [(S._pending_operand, S._pending_operation)]


def _steps_dump(S):
    out = []
    for operand, sym in _pending_list(S):
        if _is_slicer(operand):
            out.append({"proj": _core_dump(operand)} if sym == "@" else {"bad-slicer-op": sym})
            out += _steps_dump(operand)
        else:
            out.append({"left": sym, "kind": _kind_of(operand)})
    return out


def _slicer_dump(S):
    return {"core": _core_dump(S), "pending": _steps_dump(S)}


def _finite(a):
    return bool(np.all(np.isfinite(np.asarray(a, dtype=float))))


def _sp_dump(M):
    M = M.tocsr()
    return {"raw": {"indptr": [int(x) for x in M.indptr], "indices": [int(x) for x in M.indices], "data": [frac(x) for x in M.data]},
            "shape": [int(M.shape[0]), int(M.shape[1])], "dense": [[frac(x) for x in row] for row in M.toarray()]}


def _val_dump(r):
    import porepy as pp
    if isinstance(r, pp.ad.AdArray):
        if not (_finite(r.val) and _finite(r.jac.data)):
            return {"err": "ZeroDivision"}
        return {"kind": "ad", "v": [frac(x) for x in r.val], "jac": _sp_dump(r.jac)}
    if sps.issparse(r):
        if not _finite(r.data):
            return {"err": "ZeroDivision"}
        return dict({"kind": "sp"}, **_sp_dump(r))
    if isinstance(r, np.ndarray) and r.ndim == 2:
        if not _finite(r):
            return {"err": "ZeroDivision"}
        return {"kind": "arr", "shape": [int(r.shape[0]), int(r.shape[1])], "rows": [[frac(x) for x in row] for row in r]}
    if isinstance(r, np.ndarray) and r.ndim == 1:
        if not _finite(r):
            return {"err": "ZeroDivision"}
        return {"kind": "vec", "v": [frac(x) for x in r]}
    if isinstance(r, (int, float, np.number)) or (isinstance(r, np.ndarray) and r.ndim == 0):
        if not _finite(r):
            return {"err": "ZeroDivision"}
        return {"kind": "scal", "v": frac(float(r))}
    return {"kind": "other", "type": type(r).__name__}


def impl_run(case):
    env, out = {}, []
    with warnings.catch_warnings(), np.errstate(all="ignore"):
        warnings.simplefilter("ignore")
        for st in case["stmts"]:
            try:
                r = _exec_stmt(st, env)
                if st["op"] == "apply":
                    out.append(_val_dump(r))
                elif st["op"] == "unsup":
                    out.append({"no-error": type(r).__name__})
                else:
                    env[st["i"]] = r
                    out.append({"slicer": _slicer_dump(r)})
            except Exception as e:
                out.append(err_kind(e))
        out.append({"covered": True, "slicers": [{"i": i, "slicer": _slicer_dump(env[i])} for i in sorted(env)]})
    return out


# ----------------------------------------------------------------------------- model side
def model_ops(case):
    ops = []
    for st in case["stmts"]:
        st = copy.deepcopy(st)
        if st["op"] == "apply":
            y = st["y"]
            tgt = y if y["k"] == "csr" else (y["jac"] if y["k"] == "ad" else None)
            if tgt is not None and tgt.get("fmt") == "csc":  # the slicer calls A.tocsr() first: scipy glue, not modelled
                M = _csr_obj(tgt).tocsr()
                tgt.update({"indptr": [int(x) for x in M.indptr], "indices": [int(x) for x in M.indices], "data": [frac(x) for x in M.data], "fmt": "csr"})
        ops.append(st)
    return ops + [{"op": "dump"}]


def model_decode(outs, case):
    res = []
    for o in outs[:-1]:
        if isinstance(o, dict) and "slicer" in o:
            o = {"slicer": o["slicer"]}
        res.append(o)
    last = outs[-1]
    if isinstance(last, dict) and "slicers" in last:
        cov = "good" if last["progGood"] else ("wf-no-transpose" if last["progWf"] else "NOT-COVERED")
        _COVER[cov] += 1
        res.append({"covered": cov != "NOT-COVERED", "slicers": sorted(last["slicers"], key=lambda d: d["i"])})
    else:
        res.append(last)
    return res


from collections import Counter
_COVER = Counter()  # which program theorem's decidable hypothesis (evaluated by the Lean driver) covers each case


def _drop_raw(o):
    if isinstance(o, dict):
        return {k: _drop_raw(v) for k, v in o.items() if k != "raw"}
    if isinstance(o, list):
        return [_drop_raw(x) for x in o]
    return o


def _raw_unknown(o):
    if isinstance(o, dict):
        return ("raw" in o and o["raw"] is None) or any(_raw_unknown(v) for v in o.values())
    return False


def _tainted(case):
    """Variables built through the defect site of the known finding (pp.ad.Projection.transpose() of a combined
    projection): there the model follows the property, not the present code."""
    pend, taint = {}, {}
    for st in case["stmts"]:
        op = st["op"]
        try:
            if op == "new":
                pend[st["i"]], taint[st["i"]] = False, False
            elif op == "copy":
                pend[st["i"]], taint[st["i"]] = pend[st["j"]], taint[st["j"]]
            elif op == "T":
                pend[st["i"]], taint[st["i"]] = pend[st["j"]], taint[st["j"]]
            elif op == "TP":
                pend[st["i"]], taint[st["i"]] = pend[st["j"]], taint[st["j"]] or pend[st["j"]]
            elif op == "rop":
                pend[st["i"]], taint[st["i"]] = True, taint[st["j"]]
            elif op == "chain":
                pend[st["i"]], taint[st["i"]] = True, taint[st["j"]] or taint[st["k"]]
        except KeyError:
            pass
    return {i for i, t in taint.items() if t}


def compare(impl, model, case):
    if isinstance(impl, dict) and "harness_exc" in impl:
        return "harness exception in impl_run: " + impl["harness_exc"]
    tol = 1e-9 if any(st.get("sym") in ("/", "**") for st in case["stmts"]) else None
    if len(impl) != len(model):
        return f"length {len(impl)} vs {len(model)}"
    bad = _tainted(case)
    if bad and _compare_lists(impl, model, tol) is None:
        bad = set()  # the present code agrees with the property here (finding repaired, or not exercised)
    if bad:
        impl, model = list(impl), list(model)
        for k, st in enumerate(case["stmts"]):
            if st.get("i" if st["op"] not in ("apply", "unsup") else "j") in bad:
                impl[k] = model[k] = "skipped: built through a known-finding site"
        impl[-1] = dict(impl[-1], slicers=[d for d in impl[-1]["slicers"] if d["i"] not in bad])
        if isinstance(model[-1], dict) and "slicers" in model[-1]:
            model[-1] = dict(model[-1], slicers=[d for d in model[-1]["slicers"] if d["i"] not in bad])
    return _compare_lists(impl, model, tol)


def _compare_lists(impl, model, tol):
    for k, (a, b) in enumerate(zip(impl, model)):
        if _raw_unknown(b):  # storage layout after scipy arithmetic is not modelled: compare the dense content only
            a, b = _drop_raw(a), _drop_raw(b)
        d = deep_compare(a, b, f"stmt[{k}]", tol)
        if d:
            return d
    return None


# ----------------------------------------------------------------------------- oracle: explicit projection matrices
class _Expected(Exception):
    def __init__(self, kind):
        self.kind = kind


def _P(core, n):
    dom, ran, ds, rs = core
    return sps.coo_matrix((np.ones(len(ran)), (np.array(ran, dtype=int), np.array(dom, dtype=int))), shape=(rs, n)).tocsr()


def _ref_proj(core, y):
    import porepy as pp
    dom, ran, ds, rs = core
    if isinstance(y, (int, float, np.number)):
        y = np.full(ds, y)
    n = y.val.size if isinstance(y, pp.ad.AdArray) else y.shape[0]
    if any(j >= n for j in dom):
        raise _Expected("IndexError")
    P = _P(core, n)
    if isinstance(y, pp.ad.AdArray):
        return pp.ad.AdArray(P @ y.val, P @ y.jac)
    return P @ y


def _ref_apply(steps, y):
    z = y
    for s in steps:
        if s[0] == "proj":
            z = _ref_proj(s[1], z)
        else:
            a, sym = s[1], s[2]
            z = eval(f"a {sym} z")
    return z


def _tcore(core):
    dom, ran, ds, rs = core
    return (ran, dom, rs, ds)


def _same(a, b, tol):
    import porepy as pp
    if isinstance(a, pp.ad.AdArray) or isinstance(b, pp.ad.AdArray):
        return isinstance(a, pp.ad.AdArray) and isinstance(b, pp.ad.AdArray) and _same(a.val, b.val, tol) and _same(a.jac, b.jac, tol)
    if sps.issparse(a) or sps.issparse(b):
        if not (sps.issparse(a) and sps.issparse(b)) or a.shape != b.shape:
            return False
        a, b = a.toarray(), b.toarray()
    a, b = np.asarray(a, dtype=float), np.asarray(b, dtype=float)
    if a.shape != b.shape:
        return False
    if tol:
        return bool(np.allclose(a, b, rtol=tol, atol=tol, equal_nan=True))
    return bool(np.array_equal(a, b, equal_nan=True))


def _describe(steps):
    s = []
    for st in steps:
        s.append("P" if st[0] == "proj" else f"{_kind_of(st[1])}{st[2]}")
    return ">".join(s)


def oracle(case):
    """The property on the real code: every S @ y equals the product with explicit scipy projection matrices
    (composed for chains, transposed for .T, followed by the pending operand operations), also when the
    slicer objects are used again at the end of the program."""
    tol = 1e-9 if any(st.get("sym") in ("/", "**") for st in case["stmts"]) else None
    env, ref, now, sites, deferred = {}, {}, {}, {}, []
    # ref[i]: steps under the property; now[i]: steps the present code is known to produce (findings); sites[i]: defect sites in provenance

    def check(i, yobj, where):
        exp_err = got_err = None
        try:
            want = _ref_apply(ref[i], yobj)
        except _Expected as e:
            exp_err = e.kind
        except Exception as e:
            exp_err = type(e).__name__
        try:
            got = env[i] @ yobj
        except Exception as e:
            got_err = type(e).__name__
        ok = (exp_err == got_err) if (exp_err or got_err) else _same(got, want, tol)
        if ok:
            return None
        cls = f"{type(yobj).__name__}:{_describe(ref[i])}"
        if sites.get(i):
            asis = asis_err = None
            try:
                asis = _ref_apply(now[i], yobj)
            except _Expected as e:
                asis_err = e.kind
            except Exception as e:
                asis_err = type(e).__name__
            if (asis_err == got_err) if (asis_err or got_err) else _same(got, asis, tol):
                key = min(sites[i])[1]
                return {"what": f"{where}: slicer v{i} ({_describe(ref[i])}) applied to {type(yobj).__name__} acts as {_describe(now[i])}: {key}", "key": key}
        g = got_err if got_err else _short(got)
        w = exp_err if exp_err else _short(want)
        return {"what": f"{where}: slicer v{i} applied to {type(yobj).__name__}: got {g}, explicit projection matrices give {w}", "key": "wrong-result:" + cls}

    with warnings.catch_warnings(), np.errstate(all="ignore"):
        warnings.simplefilter("ignore")
        for k, st in enumerate(case["stmts"]):
            op = st["op"]
            if op == "apply":
                if st["j"] not in env:
                    continue
                r = check(st["j"], _y_obj(st["y"]), f"stmt {k}")
                if r:
                    return r
                continue
            if op == "unsup":
                if st["j"] not in env:
                    continue
                try:
                    _exec_stmt(st, env)
                    return {"what": f"stmt {k}: unsupported operation {st['what']} on a slicer did not raise", "key": "unsupported-no-error:" + st["what"]}
                except ValueError:
                    continue
                except Exception as e:
                    return {"what": f"stmt {k}: unsupported operation {st['what']} raised {type(e).__name__}, not ValueError", "key": "unsupported-wrong-error:" + st["what"]}
            i = st["i"]
            # expected denotation
            try:
                if op == "new":
                    sz = _sizes(st.get("dom"), st.get("ran"), st.get("rsize"), st.get("dsize"))
                    if sz is None:
                        raise _Expected("ValueError")
                    ds, rs, d, r_ = sz
                    e_ref, e_now, e_sites = [("proj", (d, r_, ds, rs))], [("proj", (d, r_, ds, rs))], []
                elif op == "copy":
                    j = st["j"]
                    e_ref, e_now, e_sites = list(ref[j]), list(now[j]), list(sites[j])
                elif op in ("T", "TP"):
                    j = st["j"]
                    if any(s[0] != "proj" for s in ref[j]):
                        raise _Expected("ValueError")
                    e_ref = [("proj", _tcore(s[1])) for s in reversed(ref[j])]
                    if op == "T":
                        e_now = [("proj", _tcore(s[1])) for s in reversed(now[j])] if all(s[0] == "proj" for s in now[j]) else list(e_ref)
                        e_sites = list(sites[j])
                    else:  # Projection.transpose() rebuilds the slicer from the index lists only: a chained factor is lost
                        e_now = [("proj", _tcore(now[j][0][1]))]
                        e_sites = list(sites[j]) + ([(k, "projection-transpose-drops-chain")] if len(now[j]) > 1 else [])
                elif op == "rop":
                    j = st["j"]
                    a = _const_obj(st["a"])
                    e_ref = ref[j] + [("left", a, st["sym"])]
                    e_now = now[j] + [("left", a, st["sym"])]
                    e_sites = list(sites[j])
                elif op == "chain":
                    j, kk = st["j"], st["k"]
                    e_ref = ref[kk] + ref[j]
                    e_now = now[kk] + now[j]
                    e_sites = list(sites[j]) + list(sites[kk])
                exp_err = None
            except _Expected as e:
                exp_err = e.kind
            except KeyError:
                continue  # refers to a variable that was never built
            try:
                S = _exec_stmt(st, env, check_operands=True)
                got_err = None
            except KeyError:
                continue
            except _OperandMutated:
                deferred.append({"what": f"stmt {k}: pp.ad.sum_projection_list([P_j @ P_k]) replaced the slicer of its operand P_k by the combined "
                                         "slicer (a later P_k @ x is silently P_j @ P_k @ x)", "key": "projection-sum-mutates-operand"})
                S = _exec_stmt(st, env)
                got_err = None
            except Exception as e:
                got_err = type(e).__name__
            if exp_err or got_err:
                if exp_err != got_err:
                    if op in ("T", "TP") and got_err is None:
                        # transposing a slicer that carries a pending number / array operation silently drops it
                        return {"what": f"stmt {k}: transposing a slicer with a pending operand operation did not raise",
                                "key": "transpose-drops-pending" if op == "T" else "projection-transpose-drops-chain"}
                    return {"what": f"stmt {k}: {op} raised {got_err}, expected {exp_err}", "key": f"constructor:{op}:{got_err}:{exp_err}"}
                continue
            if not _is_slicer(S):
                return {"what": f"stmt {k}: {op} returned {type(S).__name__}, not an ArraySlicer", "key": f"not-a-slicer:{op}"}
            env[i], ref[i], now[i], sites[i] = S, e_ref, e_now, e_sites
        # re-use: every slicer object is applied once more, after all chaining has happened
        for i in sorted(env):
            core = ref[i][0][1]
            n = max([core[2]] + [j + 1 for j in core[0]])
            probe = np.array([float(2 ** (t % 5) + t) for t in range(n)])
            r = check(i, probe, "re-use at end")
            if r:
                return r
    return deferred[0] if deferred else None


def _short(x):
    import porepy as pp
    if isinstance(x, pp.ad.AdArray):
        return f"AdArray(val={x.val.tolist()}, jac={x.jac.toarray().tolist()})"
    if sps.issparse(x):
        return f"sparse{x.shape}{x.toarray().tolist()}"
    return str(np.asarray(x).tolist())[:300]


# ----------------------------------------------------------------------------- bookkeeping
def nontrivial(case):
    built = {st["i"] for st in case["stmts"] if st["op"] in ("chain", "rop", "T")}
    return any(st["op"] == "apply" and st["j"] in built and st["y"]["k"] != "s" for st in case["stmts"])


def shrink_candidates(case):
    sts = case["stmts"]
    for i in range(len(sts) - 1, -1, -1):
        yield {"stmts": sts[:i] + sts[i + 1:]}
    for i, st in enumerate(sts):
        if st["op"] == "apply" and st["y"]["k"] != "v":
            rows = {"s": 0, "a": len(st["y"].get("rows", [])), "csr": len(st["y"].get("indptr", [0])) - 1, "ad": len(st["y"].get("v", []))}[st["y"]["k"]]
            if rows:
                yield {"stmts": sts[:i] + [dict(st, y={"k": "v", "v": [str(t + 1) for t in range(rows)]})] + sts[i + 1:]}


def stats(cases, impl_outs):
    from collections import Counter
    c = Counter()
    for case, out in zip(cases, impl_outs):
        for st, o in zip(case["stmts"], out if isinstance(out, list) else []):
            c["stmt:" + st["op"]] += 1
            if st["op"] == "apply":
                c["apply:" + st["y"]["k"] + (":csc" if st["y"].get("fmt") == "csc" or st["y"].get("jac", {}).get("fmt") == "csc" else "")] += 1
                if isinstance(o, dict) and "err" in o:
                    c["apply-error:" + o["err"]] += 1
            elif st["op"] == "rop":
                c["rop:" + st["a"]["k"] + st["sym"]] += 1
                if isinstance(o, dict) and "slicer" in o and len(o["slicer"]["pending"]) > 1:
                    c["rop-after-chain"] += 1
            elif isinstance(o, dict) and "err" in o:
                c[st["op"] + "-error:" + o["err"]] += 1
            if isinstance(o, dict) and "slicer" in o:
                core = o["slicer"]["core"]
                if st["op"] == "new":
                    c["new:onto" if core["onto"] else "new:scatter"] += 1
                    if not core["dom"]:
                        c["new:empty"] += 1
                    if core["dom"] == core["ran"] and core["dom"] != list(range(core["rsize"])):
                        c["new:inplace-restriction(dom==ran!=arange)"] += 1
                    if len(set(core["dom"])) < len(core["dom"]):
                        c["new:repeated-domain-index"] += 1
                if st["op"] == "chain":
                    c["chain-length:%d" % (1 + sum(1 for s in o["slicer"]["pending"] if "proj" in s))] += 1
    for case in cases:
        sts = case["stmts"]
        Ts = {st["i"] for st in sts if st["op"] in ("T", "TP")}
        c["stratum:transpose-then-chain-then-transpose"] += sum(1 for st in sts if st.get("stratum") == "transpose-then-chain")
        c["stratum:T-of-pending-operand-operation(ValueError)"] += sum(
            1 for st, o in zip(sts, impl_outs[cases.index(case)] if isinstance(impl_outs[cases.index(case)], list) else [])
            if st["op"] in ("T", "TP") and isinstance(o, dict) and o.get("err") == "ValueError")
        c["stratum:T-of-T"] += sum(1 for st in sts if st["op"] in ("T", "TP") and st["j"] in Ts)
        c["stratum:new-via-pp.ad.Projection"] += sum(1 for st in sts if st["op"] == "new" and st.get("via") == "projection")
        c["stratum:chain-via-sum_projection_list"] += sum(1 for st in sts if st["op"] == "chain" and st.get("via") == "sumproj")
        c["stratum:repeated-apply"] += sum(1 for st in sts if st.get("repeat"))
        c["stratum:extreme-scale-operand"] += sum(1 for st in sts if st["op"] == "apply" and st["y"].get("scaled"))
        c["stratum:size-1-operand"] += sum(1 for st in sts if st["op"] == "apply" and _nrows(st["y"]) == 1)
        c["stratum:size-0-operand"] += sum(1 for st in sts if st["op"] == "apply" and _nrows(st["y"]) == 0)
        c["stratum:unsorted-domain"] += sum(1 for st in sts if st["op"] == "new" and st.get("dom") and st["dom"] != sorted(st["dom"]))
        c["stratum:unsorted-range"] += sum(1 for st in sts if st["op"] == "new" and st.get("ran") and st["ran"] != sorted(st["ran"]))
        nl, two = {}, 0
        for st in sts:
            if st["op"] == "rop":
                nl[st["i"]] = nl.get(st["j"], 0) + 1
                two += nl[st["i"]] >= 2
            elif st["op"] == "copy":
                nl[st["i"]] = nl.get(st["j"], 0)
            elif st["op"] == "chain":
                nl[st["i"]] = nl.get(st["j"], 0) + nl.get(st["k"], 0)
        c["stratum:second-pending-operand-operation"] += two
    for k, v in _COVER.items():
        c["covered-by-theorem-hypothesis(driver-evaluated):" + k] = v
    return dict(sorted(c.items()))


def _nrows(y):
    return {"s": None, "v": len(y.get("v", [])), "a": len(y.get("rows", [])), "csr": len(y.get("indptr", [0])) - 1, "ad": len(y.get("v", []))}[y["k"]]
