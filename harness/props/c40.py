"""C40 Material tensors are symmetric and transform as tensors (SecondOrderTensor, FourthOrderTensor, restrict_to_cells, copy)."""
import itertools
from fractions import Fraction

import numpy as np

from harness.common import frac, deep_compare

PID = "C40"
THEOREMS = [
    "PorepyVerif.C40.sot_symmetric",
    "PorepyVerif.C40.sot_constructor_entries",
    "PorepyVerif.C40.sot_rejects_negative_kxx",
    "PorepyVerif.C40.sot_rotate",
    "PorepyVerif.C40.sot_rotate_cells",
    "PorepyVerif.C40.sot_rotate_symmetric",
    "PorepyVerif.C40.sot_rotate_trace",
    "PorepyVerif.C40.sot_rotate_inv2",
    "PorepyVerif.C40.sot_rotate_det",
    "PorepyVerif.C40.sot_rotate_charpoly",
    "PorepyVerif.C40.sot_copy_of_constructed",
    "PorepyVerif.C40.restrict_selects",
    "PorepyVerif.C40.sot_restrict_selects",
    "PorepyVerif.C40.sot_restrict_coded_agrees",
    "PorepyVerif.C40.fot_restrict_selects",
    "PorepyVerif.C40.fot_minor_symmetric",
    "PorepyVerif.C40.fot_symmetric",
    "PorepyVerif.C40.fot_constructor",
]
LEAN_MODULES = ["PorepyVerif.C40.Props"]
AUDIT = "PorepyVerif/C40/Audit.lean"
DRIVER = "PorepyVerif/C40/Driver.lean"
N = {"quick": 300, "thorough": 6000}
RULE = ("60% second-order, 40% fourth-order tensors on 0-5 cells (0 and 1 frequent). Second order: dyadic parameters; classes spd "
        "(strictly diagonally dominant, any subset of the optional arguments omitted), psd-edge (zero tensor, rank-1 v v^T, zero kxx row, "
        "exactly singular), broadcast (length-1 optional arrays), malformed (negative kxx; kxy^2 > kxx*kyy; negative 3x3 determinant with "
        "admissible 2x2 block; lengths that numpy cannot broadcast); then 0-4 operations rotate / copy / restrict_to_cells (index array with "
        "repeats, any order, empty; boolean mask; out-of-range index), results optionally becoming the current tensor. Rotations: signed "
        "permutation matrices incl. reflections (exact in binary64), rational rotations from the Euler-Rodrigues / Cayley parametrisation with "
        "integer quaternions (exactly orthogonal over Q, optionally composed with a reflection), and general dyadic matrices (similarity "
        "formula only, no eigenvalue claim). Fourth order: dyadic mu, lmbda of any sign, 0-2 other fields with sparse integer basis matrices "
        "(symmetric, sometimes not), malformed = different lengths / field length mismatch; type-level validation (list, 2-d input) is "
        "oracle-only. non-trivial = at least 2 cells or an operation or a malformed input; distinct = distinct cases")
TRUSTED = [
    "modelled, not verified: np.tensordot axis bookkeeping in rotate (modelled as the two index contractions it denotes), numpy broadcasting "
    "of the constructor arguments (modelled as: length Nc or 1; Nc=1 against longer arrays is not generated), fancy indexing values[:, :, cells]",
    "binary64 rounding: outputs after a rotation with non-dyadic entries are compared with tolerance 1e-11 (absolute and relative), everything else exactly",
    "copies-are-independent is an aliasing statement outside an immutable model: checked by the oracle only (mutating copy and original of the real classes)",
]
EXPLANATION = ("CORE: model over Q of the constructors (checks in code order, defaults, layout), rotate as the two tensordot contractions, copy via "
               "the constructor from the lower triangle, restrict_to_cells = copy + index. Proved for all inputs: constructed tensors are symmetric; "
               "rotate equals R K^T R^T entrywise (= R K R^T for symmetric K), is symmetric again for any R, and for R^T R = I preserves trace, second "
               "invariant, determinant and Mathlib's characteristic polynomial (hence eigenvalues with multiplicity); restriction selects exactly the "
               "requested cells; the 9x9 matrix has the major and both minor symmetries for the hard-coded basis and other-field matrices that have them. "
               "copy/restrict_to_cells are modelled as the property requires (no re-validation); the coded copy re-runs the constructor checks and raises on "
               "rotated singular admissible tensors (rounding) - open finding; on constructed tensors coded and property-level copy agree (theorem). "
               "FourthOrderTensor offers no rotate method, so there is nothing to verify for rotation of fourth-order tensors. "
               "Partial: floating-point rounding and array aliasing are outside the theorems (oracle: numpy eigenvalues before/after, mutation of copies).")
ASSUMPTIONS = ["parameters are exact in binary64 (dyadic generator); rational rotation matrices are rounded to binary64 for the real code"]


# ----------------------------------------------------------------------------- rotations
def _perm_matrix(rng):
    p = list(range(3))
    rng.shuffle(p)
    return [[Fraction(rng.choice([-1, 1])) if p[i] == j else Fraction(0) for j in range(3)] for i in range(3)]


def _quat_rotation(rng):
    """Euler-Rodrigues: integer quaternion (w, a, b, c) -> exactly orthogonal rational matrix."""
    while True:
        w, a, b, c = (rng.randint(-3, 3) for _ in range(4))
        n = w * w + a * a + b * b + c * c
        if n:
            break
    m = [[w * w + a * a - b * b - c * c, 2 * (a * b - w * c), 2 * (a * c + w * b)],
         [2 * (a * b + w * c), w * w - a * a + b * b - c * c, 2 * (b * c - w * a)],
         [2 * (a * c - w * b), 2 * (b * c + w * a), w * w - a * a - b * b + c * c]]
    return [[Fraction(x, n) for x in row] for row in m]


def _matmul(A, B):
    return [[sum(A[i][k] * B[k][j] for k in range(3)) for j in range(3)] for i in range(3)]


def _gen_rotation(rng, allow_inexact, allow_general):
    r = rng.random()
    if r < 0.35 or not allow_inexact:
        if allow_general and rng.random() < 0.2:
            R = [[Fraction(rng.randint(-8, 8), 4) for _ in range(3)] for _ in range(3)]
            return R, "general"
        return _perm_matrix(rng), "perm"
    R = _quat_rotation(rng)
    if rng.random() < 0.3:
        R = _matmul(_perm_matrix(rng), R)
    exact = all(x.denominator & (x.denominator - 1) == 0 for row in R for x in row)
    return R, ("perm" if exact else "rational")


# ----------------------------------------------------------------------------- generator
def _dy(rng, lo, hi, den=8):
    return Fraction(rng.randint(lo * den, hi * den), den)


def _gen_sot_args(rng, nc):
    cls = rng.choices(["spd", "psd-edge", "broadcast", "neg-kxx", "minor-neg", "det-neg", "shape"], [50, 14, 8, 7, 7, 7, 7])[0]
    names = ["kyy", "kzz", "kxy", "kxz", "kyz"]
    if cls in ("neg-kxx", "minor-neg", "det-neg") and nc == 0:
        cls = "spd"
    if cls in ("shape", "broadcast") and nc < 2:
        cls = "spd"
    given = {n: rng.random() < 0.6 for n in names}
    if cls in ("minor-neg",):
        given["kxy"] = True
    if cls == "det-neg":
        given["kzz"] = True
    cells = []
    for _ in range(nc):
        if cls == "psd-edge":
            kind = rng.choice(["zero", "rank1", "zero-row", "singular2"])
            if kind == "zero":
                K = [[Fraction(0)] * 3 for _ in range(3)]
            elif kind == "rank1":
                v = [Fraction(rng.randint(-4, 4), 2) for _ in range(3)]
                K = [[v[i] * v[j] for j in range(3)] for i in range(3)]
            elif kind == "zero-row":
                d1, d2 = _dy(rng, 0, 4), _dy(rng, 0, 4)
                K = [[Fraction(0)] * 3, [Fraction(0), d1, Fraction(0)], [Fraction(0), Fraction(0), d2]]
            else:
                u = [Fraction(rng.randint(-3, 3)) for _ in range(3)]
                w = [Fraction(rng.randint(-3, 3), 2) for _ in range(3)]
                K = [[u[i] * u[j] + w[i] * w[j] for j in range(3)] for i in range(3)]
            for n in names:
                given[n] = True  # an edge tensor needs all its entries
            cells.append(K)
            continue
        # strictly diagonally dominant: SPD with eigenvalues >= min diagonal / 2
        dxx = _dy(rng, 1, 8)
        dyy = _dy(rng, 1, 8) if given["kyy"] else dxx
        dzz = _dy(rng, 1, 8) if given["kzz"] else dxx
        bound = min(dxx, dyy, dzz) / 4
        off = lambda g: (Fraction(rng.randint(-8, 8), 8) * bound) if g else Fraction(0)  # noqa: E731
        # keep the entries dyadic with a small denominator
        q = lambda x: Fraction(int(x * 64), 64)  # noqa: E731
        oxy, oxz, oyz = q(off(given["kxy"])), q(off(given["kxz"])), q(off(given["kyz"]))
        cells.append([[dxx, oxy, oxz], [oxy, dyy, oyz], [oxz, oyz, dzz]])
    c = rng.randrange(nc) if nc else 0
    if cls == "neg-kxx":
        cells[c][0][0] = -_dy(rng, 0, 4) - Fraction(1, 8)
    elif cls == "minor-neg":
        K = cells[c]
        K[0][1] = K[1][0] = rng.choice([-1, 1]) * (max(K[0][0], K[1][1]) + Fraction(rng.randint(1, 8), 8))
    elif cls == "det-neg":
        K = cells[c]
        K[2][2] = -_dy(rng, 0, 4) - Fraction(1, 8)
        K[0][2] = K[2][0] = K[1][2] = K[2][1] = Fraction(0)
    col = {"kxx": [K[0][0] for K in cells], "kyy": [K[1][1] for K in cells], "kzz": [K[2][2] for K in cells],
           "kxy": [K[0][1] for K in cells], "kxz": [K[0][2] for K in cells], "kyz": [K[1][2] for K in cells]}
    if cls == "det-neg":
        # kxz, kyz must really be zero where given
        pass
    args = {"kxx": [frac(x) for x in col["kxx"]]}
    for n in names:
        args[n] = [frac(x) for x in col[n]] if given[n] else None
    if cls == "broadcast":
        cand = [n for n in names if given[n]]
        if cand:
            n = rng.choice(cand)
            # a length-1 array only keeps validity if it is an off-diagonal set to zero or a dominant diagonal
            if n in ("kxy", "kxz", "kyz"):
                args[n] = ["0"]
            else:
                args[n] = [frac(Fraction(8))]
        else:
            cls = "spd"
    if cls == "shape":
        n = rng.choice(names)
        m = rng.choice([k for k in (0, 2, 3, 4, 6) if k != nc])
        args[n] = [frac(Fraction(1) if n in ("kyy", "kzz") else Fraction(0))] * m
    return args, cls


def _gen_cells(rng, nc):
    r = rng.random()
    if r < 0.1:
        return {"idx": []}, False
    if r < 0.22 and nc >= 0:
        bad = [rng.randrange(nc) for _ in range(rng.randint(0, 2))] if nc else []
        bad.insert(rng.randint(0, len(bad)), nc + rng.randint(0, 2))
        return {"idx": bad}, True
    if r < 0.4:
        m = rng.random()
        if m < 0.2:
            return {"mask": [True] * nc}, False
        if m < 0.3:
            return {"mask": [False] * nc}, False
        return {"mask": [rng.random() < 0.5 for _ in range(nc)]}, False
    if nc == 0:
        return {"idx": []}, False
    if r < 0.6:  # length num_cells, not arange: a permutation or repetitions
        if rng.random() < 0.5:
            p = list(range(nc))
            rng.shuffle(p)
            return {"idx": p}, False
        return {"idx": [rng.randrange(nc) for _ in range(nc)]}, False
    if r < 0.65:
        return {"idx": list(range(nc))}, False
    return {"idx": [rng.randrange(nc) for _ in range(rng.randint(1, 6))]}, False


def _gen_sot(rng, tier):
    nc = rng.choice([0, 1, 1, 2, 3, 4, 5])
    args, cls = _gen_sot_args(rng, nc)
    ops = []
    valid = cls in ("spd", "psd-edge", "broadcast")
    if valid:
        cur = nc
        inexact_ok = True  # singular tensors + inexact rotation + copy/restrict is the known re-validation finding
        general_used = False
        for _ in range(rng.randint(0, 4 if tier == "quick" else 7)):
            k = rng.choice(["rotate", "rotate", "copy", "restrict"])
            if general_used and k != "rotate":
                continue
            if k == "rotate":
                R, kind = _gen_rotation(rng, inexact_ok, not general_used and cls == "spd")
                general_used = general_used or kind == "general"
                ops.append({"op": "rotate", "R": [[frac(x) for x in row] for row in R], "kind": kind})
            elif k == "copy":
                ops.append({"op": "copy", "assign": rng.random() < 0.5})
            else:
                cells, bad = _gen_cells(rng, cur)
                assign = rng.random() < 0.5 and not bad
                ops.append({"op": "restrict", "cells": cells, "assign": assign, "bad": bad})
                if assign:
                    cur = sum(cells["mask"]) if "mask" in cells else len(cells["idx"])
    return {"kind": "sot", "class": cls, "args": args, "ops": ops}


def _gen_fot(rng, tier):
    nc = rng.choice([0, 1, 1, 2, 3, 4, 5])
    r = rng.random()
    if r < 0.06:
        return {"kind": "fot-type", "class": rng.choice(["mu-list", "lmbda-list", "mu-2d", "lmbda-2d"]), "nc": max(nc, 1), "ops": []}
    mu = [frac(_dy(rng, -4, 8)) for _ in range(nc)]
    lm = [frac(_dy(rng, -4, 8)) for _ in range(nc)]
    cls = "valid"
    extra = []
    sym = True
    for _ in range(rng.choice([0, 0, 1, 2])):
        mat = [[0] * 9 for _ in range(9)]
        s = rng.random() < 0.8
        for _ in range(rng.randint(1, 6)):
            i, j, v = rng.randrange(9), rng.randrange(9), rng.randint(-3, 3)
            mat[i][j] = v
            if s:
                mat[j][i] = v
        sym = sym and all(mat[i][j] == mat[j][i] for i in range(9) for j in range(9))
        extra.append({"mat": mat, "field": [frac(_dy(rng, -4, 4)) for _ in range(nc)]})
    if r < 0.14:
        cls = "length"
        lm = lm + [frac(_dy(rng, 0, 4))] * rng.randint(1, 2) if rng.random() < 0.5 or nc == 0 else lm[:-1]
    elif r < 0.2 and extra and nc >= 2:
        cls = "field-length"
        extra[-1]["field"] = extra[-1]["field"] + [frac(Fraction(1))]
    ops = []
    if cls == "valid":
        cur = nc
        for _ in range(rng.randint(0, 3 if tier == "quick" else 6)):
            if rng.random() < 0.4:
                ops.append({"op": "copy", "assign": False})
            else:
                cells, bad = _gen_cells(rng, cur)
                assign = rng.random() < 0.5 and not bad
                ops.append({"op": "restrict", "cells": cells, "assign": assign, "bad": bad})
                if assign:
                    cur = sum(cells["mask"]) if "mask" in cells else len(cells["idx"])
    return {"kind": "fot", "class": cls, "mu": mu, "lmbda": lm, "extra": extra, "extra_symmetric": sym, "ops": ops}


def gen_case(rng, tier):
    return _gen_sot(rng, tier) if rng.random() < 0.6 else _gen_fot(rng, tier)


# ----------------------------------------------------------------------------- real code
def _arr(l):
    return None if l is None else np.array([float(Fraction(x)) for x in l], dtype=float)


def _cells_arg(c):
    return np.array(c["mask"], dtype=bool) if "mask" in c else np.array(c["idx"], dtype=int)


def _cells_idx(c):
    return [i for i, b in enumerate(c["mask"]) if b] if "mask" in c else list(c["idx"])


def _vals(a):
    return [[[frac(x) for x in a[i, j]] for j in range(a.shape[1])] for i in range(a.shape[0])]


def _err(e):
    if isinstance(e, ValueError):
        m = str(e)
        stage = "x" if "x-direction" in m else "y" if "y-direction" in m else "z" if "z-direction" in m else "shape"
        return {"err": "ValueError", "stage": stage}
    return {"err": type(e).__name__}


def _mk_sot(args):
    import porepy as pp
    return pp.SecondOrderTensor(_arr(args["kxx"]), kyy=_arr(args["kyy"]), kzz=_arr(args["kzz"]), kxy=_arr(args["kxy"]),
                                kxz=_arr(args["kxz"]), kyz=_arr(args["kyz"]))


def _mk_fot(case):
    import porepy as pp
    other = {f"f{k}": (np.array(e["mat"], dtype=float), _arr(e["field"])) for k, e in enumerate(case["extra"])}
    return pp.FourthOrderTensor(_arr(case["mu"]), _arr(case["lmbda"]), other if other else None)


def _fot_json(t, nextra):
    return {"values": _vals(t.values), "mu": [frac(x) for x in t.mu], "lmbda": [frac(x) for x in t.lmbda],
            "extra": [[frac(x) for x in getattr(t, f"f{k}")] for k in range(nextra)]}


def impl_run(case):
    out = []
    if case["kind"] == "fot-type":
        return out
    try:
        t = _mk_sot(case["args"]) if case["kind"] == "sot" else _mk_fot(case)
    except Exception as e:  # noqa: BLE001
        return [_err(e)]
    sot = case["kind"] == "sot"
    nex = 0 if sot else len(case["extra"])
    out.append({"values": _vals(t.values)} if sot else _fot_json(t, nex))
    for op in case["ops"]:
        try:
            if op["op"] == "rotate":
                t.rotate(np.array([[float(Fraction(x)) for x in row] for row in op["R"]]))
                out.append({"values": _vals(t.values)})
            elif op["op"] == "copy":
                c = t.copy()
                out.append({"values": _vals(c.values)} if sot else _fot_json(c, nex))
                if op.get("assign"):
                    t = c
            else:
                r = t.restrict_to_cells(_cells_arg(op["cells"]))
                out.append({"values": _vals(r.values)} if sot else _fot_json(r, nex))
                if op.get("assign"):
                    t = r
        except Exception as e:  # noqa: BLE001
            out.append(_err(e))
    return out


# ----------------------------------------------------------------------------- model
def model_ops(case):
    if case["kind"] == "fot-type":
        return []
    if case["kind"] == "sot":
        ops = [dict(case["args"], op="sot")]
    else:
        ops = [{"op": "fot", "mu": case["mu"], "lmbda": case["lmbda"],
                "extra": [{"mat": e["mat"], "field": e["field"]} for e in case["extra"]]}]
    for op in case["ops"]:
        if op["op"] == "rotate":
            ops.append({"op": "rotate", "R": op["R"]})
        elif op["op"] == "copy":
            ops.append({"op": "copy", "assign": bool(op.get("assign"))})
        else:
            ops.append({"op": "restrict", "cells": _cells_idx(op["cells"]), "assign": bool(op.get("assign"))})
    return ops


def model_decode(outs, case):
    # after a failed constructor the driver answers "no-object" for the remaining ops; the real code has no object either
    if outs and isinstance(outs[0], dict) and "err" in outs[0]:
        return outs[:1]
    return outs


def compare(impl, model, case):
    if len(impl) != len(model):
        return f"length {len(impl)} vs {len(model)}"
    inexact = False
    ops = [None] + case["ops"]
    for k, (a, b) in enumerate(zip(impl, model)):
        op = ops[k] if k < len(ops) else None
        if op and op["op"] == "rotate" and op["kind"] == "rational":
            inexact = True
        d = deep_compare(a, b, f"[{k}]", tol=1e-11 if inexact else None)
        if d:
            return d
    return None


# ----------------------------------------------------------------------------- oracle
def _sym_dev(v):
    return float(np.max(np.abs(v - np.transpose(v, (1, 0, 2))))) if v.size else 0.0


def _eigs(v):
    return np.array([np.linalg.eigvalsh(0.5 * (v[:, :, c] + v[:, :, c].T)) for c in range(v.shape[2])])


def _check_independent(orig, other, arrays, what):
    """`arrays`: attribute names. Mutating `other` must not change `orig` and vice versa."""
    for name in arrays:
        a, b = getattr(orig, name), getattr(other, name)
        if a is b or np.shares_memory(a, b):
            return {"what": f"{what}: attribute {name} shares memory with the original", "key": f"{what}-aliases-{name}"}
        if b.size:
            snap = a.copy()
            b += 1.0
            if not np.array_equal(a, snap):
                return {"what": f"{what}: modifying {name} of the result changed the original", "key": f"{what}-aliases-{name}"}
            b -= 1.0
            snap_b = b.copy()
            a += 1.0
            changed = not np.array_equal(b, snap_b)
            a -= 1.0
            if changed:
                return {"what": f"{what}: modifying {name} of the original changed the result", "key": f"{what}-aliases-{name}"}
    return None


def _oracle_sot(case):
    args, cls = case["args"], case["class"]
    try:
        t = _mk_sot(args)
    except ValueError:
        if cls in ("spd", "psd-edge", "broadcast"):
            return {"what": f"SecondOrderTensor raised ValueError on admissible parameters (class {cls})", "key": f"sot-valid-input-raised-{cls}"}
        return None
    if cls not in ("spd", "psd-edge", "broadcast"):
        return {"what": f"SecondOrderTensor accepted malformed parameters (class {cls})", "key": f"sot-no-error-{cls}"}
    nc = len(args["kxx"])
    v = t.values
    if v.shape != (3, 3, nc):
        return {"what": f"values has shape {v.shape}, expected (3, 3, {nc})", "key": "sot-shape"}
    if _sym_dev(v) != 0.0:
        return {"what": "constructed second-order tensor is not symmetric", "key": "sot-not-symmetric"}
    # the entries are the parameters (defaults: kyy, kzz := kxx, off-diagonals := 0)
    kxx = _arr(args["kxx"])
    exp = {(0, 0): kxx, (1, 1): _arr(args["kyy"]) if args["kyy"] is not None else kxx, (2, 2): _arr(args["kzz"]) if args["kzz"] is not None else kxx,
           (0, 1): _arr(args["kxy"]) if args["kxy"] is not None else 0 * kxx, (0, 2): _arr(args["kxz"]) if args["kxz"] is not None else 0 * kxx,
           (1, 2): _arr(args["kyz"]) if args["kyz"] is not None else 0 * kxx}
    for (i, j), e in exp.items():
        if not np.array_equal(v[i, j], np.broadcast_to(e, (nc,))):
            return {"what": f"values[{i},{j}] is not the parameter given for it", "key": f"sot-entry-{i}{j}"}
    rounded = False  # a rotation with non-dyadic entries happened: values carry rounding errors
    reval_key = lambda: ("sot-copy-revalidates-after-rotation" if (cls == "psd-edge" and rounded) else None)  # noqa: E731
    for k, op in enumerate(case["ops"]):
        scale = 1.0 + (float(np.max(np.abs(t.values))) if t.values.size else 0.0)
        if op["op"] == "rotate":
            rounded = rounded or op["kind"] == "rational"
            R = np.array([[float(Fraction(x)) for x in row] for row in op["R"]])
            before = t.values.copy()
            ev0 = _eigs(before)
            t.rotate(R)
            after = t.values
            if after.shape != before.shape:
                return {"what": f"rotate changed the shape to {after.shape}", "key": "rotate-shape"}
            want = np.stack([R @ before[:, :, c] @ R.T for c in range(before.shape[2])], axis=2) if before.shape[2] else before
            sc = scale * (1.0 + float(np.max(np.abs(R))) ** 2)
            if before.size and np.max(np.abs(after - want)) > 1e-11 * sc:
                return {"what": f"rotate (op {k}) is not R K R^T cell by cell (max dev {np.max(np.abs(after - want)):.3g})", "key": "rotate-not-similarity"}
            if _sym_dev(after) > 1e-11 * sc:
                return {"what": f"rotated tensor (op {k}) is not symmetric", "key": "rotate-not-symmetric"}
            if op["kind"] in ("perm", "rational") and before.size:
                ev1 = _eigs(after)
                if np.max(np.abs(ev0 - ev1)) > 1e-9 * scale:
                    return {"what": f"rotation by an orthogonal matrix (op {k}) changed the eigenvalues: {ev0.tolist()} -> {ev1.tolist()}", "key": "rotate-eigenvalues-changed"}
        elif op["op"] == "copy":
            try:
                c = t.copy()
            except ValueError as e:
                return {"what": f"copy (op {k}) of an admissible {'singular ' if cls == 'psd-edge' else ''}tensor raised ValueError after rotation: {e}",
                        "key": reval_key() or "sot-copy-raised"}
            if c.values.shape != t.values.shape or (t.values.size and np.max(np.abs(c.values - t.values)) > 1e-11 * scale):
                return {"what": f"copy (op {k}) differs from the original", "key": "sot-copy-differs"}
            r = _check_independent(t, c, ["values"], "sot-copy")
            if r:
                return r
            if op.get("assign"):
                t = c
        else:
            idx = _cells_idx(op["cells"])
            snap = t.values.copy()
            try:
                r_ = t.restrict_to_cells(_cells_arg(op["cells"]))
            except IndexError:
                if op.get("bad"):
                    continue
                return {"what": f"restrict_to_cells (op {k}) raised IndexError on valid cells", "key": "sot-restrict-raised"}
            except ValueError as e:
                return {"what": f"restrict_to_cells (op {k}) of an admissible {'singular ' if cls == 'psd-edge' else ''}tensor raised ValueError after rotation: {e}",
                        "key": reval_key() or "sot-restrict-raised"}
            if op.get("bad"):
                return {"what": f"restrict_to_cells (op {k}) accepted an out-of-range cell", "key": "sot-restrict-no-error"}
            if not np.array_equal(t.values, snap):
                return {"what": f"restrict_to_cells (op {k}) modified the original tensor", "key": "sot-restrict-mutates"}
            if r_.values.shape != (3, 3, len(idx)):
                return {"what": f"restricted values have shape {r_.values.shape}, expected (3, 3, {len(idx)})", "key": "sot-restrict-shape"}
            for pos, cidx in enumerate(idx):
                if np.max(np.abs(r_.values[:, :, pos] - snap[:, :, cidx])) > 1e-11 * scale:
                    return {"what": f"restrict_to_cells (op {k}): entry {pos} is not cell {cidx} of the original", "key": "sot-restrict-wrong-cell"}
            r = _check_independent(t, r_, ["values"], "sot-restrict")
            if r:
                return r
            if op.get("assign"):
                t = r_
    return None


def _iso_stiffness(mu, lm):
    """c_ijkl = lmbda d_ij d_kl + mu (d_ik d_jl + d_il d_jk), rows/cols indexed by 3*i+j — the physical definition, not the table."""
    d = np.eye(3)
    c = np.zeros((9, 9, mu.size))
    for i, j, k, l in itertools.product(range(3), repeat=4):
        c[3 * i + j, 3 * k + l] = lm * d[i, j] * d[k, l] + mu * (d[i, k] * d[j, l] + d[i, l] * d[j, k])
    return c


def _oracle_fot(case):
    import porepy as pp
    if case["kind"] == "fot-type":
        n = case["nc"]
        mu, lm = np.ones(n), np.ones(n)
        a = {"mu-list": (list(mu), lm), "lmbda-list": (mu, list(lm)), "mu-2d": (mu.reshape(1, n), lm), "lmbda-2d": (mu, lm.reshape(n, 1))}[case["class"]]
        try:
            pp.FourthOrderTensor(*a)
        except ValueError:
            return None
        return {"what": f"FourthOrderTensor accepted malformed input ({case['class']})", "key": f"fot-no-error-{case['class']}"}
    cls = case["class"]
    try:
        t = _mk_fot(case)
    except ValueError:
        if cls == "valid":
            return {"what": "FourthOrderTensor raised ValueError on valid parameters", "key": "fot-valid-input-raised"}
        return None
    if cls != "valid":
        return {"what": f"FourthOrderTensor accepted malformed input ({cls})", "key": f"fot-no-error-{cls}"}
    nex = len(case["extra"])
    names = ["values", "mu", "lmbda"] + [f"f{k}" for k in range(nex)]
    mu, lm = _arr(case["mu"]), _arr(case["lmbda"])
    want = _iso_stiffness(mu, lm)
    for e in case["extra"]:
        want = want + np.array(e["mat"], dtype=float)[:, :, None] * _arr(e["field"])
    if t.values.shape != want.shape or not np.array_equal(t.values, want):
        return {"what": "values is not lmbda d_ij d_kl + mu (d_ik d_jl + d_il d_jk) (+ other fields)", "key": "fot-wrong-stiffness"}
    if case["extra_symmetric"] and _sym_dev(t.values) != 0.0:
        return {"what": "fourth-order tensor is not symmetric (major symmetry of the 9x9 matrix)", "key": "fot-not-symmetric"}
    swap = [3 * (i % 3) + i // 3 for i in range(9)]
    mats = [np.array(e["mat"]) for e in case["extra"]]
    if all(np.array_equal(m[swap, :], m) and np.array_equal(m[:, swap], m) for m in mats):
        if not (np.array_equal(t.values[swap, :, :], t.values) and np.array_equal(t.values[:, swap, :], t.values)):
            return {"what": "fourth-order tensor lacks a minor symmetry (c_ijkl = c_jikl = c_ijlk)", "key": "fot-not-minor-symmetric"}
    if not np.array_equal(t.mu, mu) or not np.array_equal(t.lmbda, lm):
        return {"what": "mu / lmbda are not stored as given", "key": "fot-parameters"}
    for k, op in enumerate(case["ops"]):
        if op["op"] == "copy":
            c = t.copy()
            for nme in names:
                if not np.array_equal(getattr(c, nme), getattr(t, nme)):
                    return {"what": f"copy (op {k}): attribute {nme} differs from the original", "key": "fot-copy-differs"}
            r = _check_independent(t, c, names, "fot-copy")
            if r:
                return r
        else:
            idx = _cells_idx(op["cells"])
            snaps = {nme: getattr(t, nme).copy() for nme in names}
            try:
                r_ = t.restrict_to_cells(_cells_arg(op["cells"]))
            except IndexError:
                if op.get("bad"):
                    continue
                return {"what": f"restrict_to_cells (op {k}) raised IndexError on valid cells", "key": "fot-restrict-raised"}
            if op.get("bad"):
                return {"what": f"restrict_to_cells (op {k}) accepted an out-of-range cell", "key": "fot-restrict-no-error"}
            for nme in names:
                if not np.array_equal(getattr(t, nme), snaps[nme]):
                    return {"what": f"restrict_to_cells (op {k}) modified {nme} of the original", "key": "fot-restrict-mutates"}
                got = getattr(r_, nme)
                exp = snaps[nme][..., idx] if idx else snaps[nme][..., :0]
                if got.shape != exp.shape or not np.array_equal(got, exp):
                    return {"what": f"restrict_to_cells (op {k}): {nme} is not the selection of the requested cells", "key": f"fot-restrict-wrong-{nme}"}
            r = _check_independent(t, r_, names, "fot-restrict")
            if r:
                return r
            if op.get("assign"):
                t = r_
    return None


def oracle(case):
    return _oracle_sot(case) if case["kind"] == "sot" else _oracle_fot(case)


# ----------------------------------------------------------------------------- evidence helpers
def nontrivial(case):
    if case["kind"] == "fot-type":
        return True
    n = len(case["args"]["kxx"]) if case["kind"] == "sot" else len(case["mu"])
    return n >= 2 or bool(case["ops"]) or case["class"] not in ("spd", "valid")


def shrink_candidates(case):
    ops = case["ops"]
    for i in range(len(ops)):
        yield dict(case, ops=ops[:i] + ops[i + 1:])


def stats(cases, impl_outs):
    from collections import Counter
    return {
        "kinds": dict(Counter(c["kind"] for c in cases)),
        "classes": dict(Counter(f"{c['kind']}:{c['class']}" for c in cases)),
        "cells": dict(Counter(str(len(c["args"]["kxx"]) if c["kind"] == "sot" else len(c.get("mu", []))) for c in cases)),
        "ops": dict(Counter(o["op"] for c in cases for o in c["ops"])),
        "rotation_kinds": dict(Counter(o["kind"] for c in cases for o in c["ops"] if o["op"] == "rotate")),
        "restrict_mask": sum(1 for c in cases for o in c["ops"] if o["op"] == "restrict" and "mask" in o["cells"]),
        "restrict_out_of_range": sum(1 for c in cases for o in c["ops"] if o["op"] == "restrict" and o.get("bad")),
        "restrict_empty": sum(1 for c in cases for o in c["ops"] if o["op"] == "restrict" and not _cells_idx(o["cells"])),
        "errors": dict(Counter((x.get("stage") or x["err"]) for out in impl_outs if isinstance(out, list) for x in out if isinstance(x, dict) and "err" in x)),
        "omitted_optional_args": sum(1 for c in cases if c["kind"] == "sot" for n in ("kyy", "kzz", "kxy", "kxz", "kyz") if c["args"][n] is None),
    }
