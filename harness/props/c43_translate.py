"""C43 translator: python `ast` of the CURRENT sources -> lean/PorepyVerif/C43/Generated.lean

Reads (never imports)
  <repo>/src/porepy/models/units.py            class Units: keys accepted by __init__, base-unit
                                               assignments and defaults, every @property body
                                               (derived-unit formula), the other method names
  <repo>/src/porepy/compositional/materials.py every data class derived from Constants: SI_units
                                               table and dataclass fields with defaults
and writes Lean definitions that state the formulas exactly as the property bodies do, e.g.
  def Pa (u : Units) : Rat := u.kg / (u.m * u.s ^ 2)
together with the expression tree the generic theorems talk about and generated obligations
(`Pa_eq : Pa u = PaExpr.eval u := rfl`, positivity of literals, base names, every SI_units string is
accepted by the modelled grammar and is the identity in the SI system).  Anything outside the small
expression language (`self.<base>`, numeric literal, `np.pi`, `*`, `/`, `** <int literal>`, earlier
derived units) raises TranslateError: the harness then treats the tie as broken and searches for a
failing input with the oracle.
"""
from __future__ import annotations

import ast
import os
from fractions import Fraction

BASE = ["m", "s", "kg", "K", "mol", "rad"]  # order of Base.all in Model.lean
PI64 = Fraction(3.141592653589793)  # numpy.pi as the rational it is
CONSTANTS_BASE_FIELDS = {"name", "units", "constants_in_SI", "_initialized"}


class TranslateError(Exception):
    pass


# ------------------------------------------------------------------ small Lean printers
def lchars(s: str) -> str:
    def one(c):
        if c == "'":
            return "'\\''"
        if c == "\\":
            return "'\\\\'"
        if not (32 <= ord(c) < 127):
            raise TranslateError(f"non printable-ASCII character {c!r} in {s!r}")
        return f"'{c}'"
    return "[" + ", ".join(one(c) for c in s) + "]"


def lrat(q: Fraction) -> str:
    q = Fraction(q)
    if q.denominator == 1:
        return f"({q.numerator} : Rat)" if q.numerator >= 0 else f"(-{-q.numerator} : Rat)"
    n = f"({q.numerator} : Rat)" if q.numerator >= 0 else f"(-{-q.numerator} : Rat)"
    return f"({n} / {q.denominator})"


# ------------------------------------------------------------------ expressions
class Tr:
    """translated expression: lean term over `u : Units`, UExpr term, python evaluator on a dict"""

    def __init__(self, lean, uexpr, prec):
        self.lean, self.uexpr, self.prec = lean, uexpr, prec


def _paren(t: Tr, need: int) -> str:
    return t.lean if t.prec >= need else f"({t.lean})"


def _int_literal(node):
    if isinstance(node, ast.Constant) and isinstance(node.value, (int, float)) and not isinstance(node.value, bool):
        if float(node.value) == int(node.value):
            return int(node.value)
        raise TranslateError(f"non-integer exponent literal {node.value!r}")
    if isinstance(node, ast.UnaryOp) and isinstance(node.op, (ast.USub, ast.UAdd)):
        v = _int_literal(node.operand)
        return -v if isinstance(node.op, ast.USub) else v
    raise TranslateError(f"exponent is not an integer literal: {ast.dump(node)}")


def tr_expr(node, derived: dict) -> Tr:
    if isinstance(node, ast.Attribute) and isinstance(node.value, ast.Name):
        if node.value.id == "self":
            if node.attr in BASE:
                return Tr(f"u.{node.attr}", f"(.base .{node.attr})", 100)
            if node.attr in derived:
                return Tr(f"{node.attr} u", derived[node.attr].uexpr, 90)
            raise TranslateError(f"self.{node.attr} is neither a base unit nor an earlier derived unit")
        if node.value.id in ("np", "numpy", "math") and node.attr == "pi":
            return Tr("pi64", "(.const pi64)", 100)
        raise TranslateError(f"unsupported attribute {ast.dump(node)}")
    if isinstance(node, ast.Constant) and isinstance(node.value, (int, float)) and not isinstance(node.value, bool):
        q = Fraction(node.value)
        if q.denominator == 1 and q >= 0:
            return Tr(str(q.numerator), f"(.const {q.numerator})", 100)
        return Tr(lrat(q), f"(.const {lrat(q)})", 100)
    if isinstance(node, ast.UnaryOp) and isinstance(node.op, ast.USub):
        a = tr_expr(node.operand, derived)
        # -x  ==  (-1) * x   (keeps the expression language small)
        return Tr(f"(-1 : Rat) * {_paren(a, 71)}", f"(.mul (.const (-1 : Rat)) {a.uexpr})", 70)
    if isinstance(node, ast.BinOp):
        if isinstance(node.op, ast.Pow):
            a = tr_expr(node.left, derived)
            n = _int_literal(node.right)
            lean = f"{_paren(a, 76)} ^ {n}" if n >= 0 else f"{_paren(a, 76)} ^ ({n} : Int)"
            return Tr(lean, f"(.pow {a.uexpr} ({n}))", 75)
        if isinstance(node.op, (ast.Mult, ast.Div)):
            a = tr_expr(node.left, derived)
            b = tr_expr(node.right, derived)
            op, ctor = ("*", ".mul") if isinstance(node.op, ast.Mult) else ("/", ".div")
            # python and Lean: * and / same precedence, left associative
            return Tr(f"{_paren(a, 70)} {op} {_paren(b, 71)}", f"({ctor} {a.uexpr} {b.uexpr})", 70)
        raise TranslateError(f"unsupported operator {type(node.op).__name__}")
    raise TranslateError(f"unsupported expression {ast.dump(node)}")


# ------------------------------------------------------------------ units.py
def _is_docstring(stmt):
    return isinstance(stmt, ast.Expr) and isinstance(stmt.value, ast.Constant) and isinstance(stmt.value.value, str)


def read_units(path):
    tree = ast.parse(open(path, encoding="utf-8").read())
    cls = [n for n in tree.body if isinstance(n, ast.ClassDef) and n.name == "Units"]
    if len(cls) != 1:
        raise TranslateError("class Units not found")
    cls = cls[0]
    derived_src, others, init = [], [], None
    for st in cls.body:
        if isinstance(st, ast.FunctionDef):
            decos = [d.id for d in st.decorator_list if isinstance(d, ast.Name)]
            if "property" in decos:
                body = [b for b in st.body if not _is_docstring(b)]
                if len(body) != 1 or not isinstance(body[0], ast.Return) or body[0].value is None:
                    raise TranslateError(f"property {st.name}: body is not a single return")
                derived_src.append((st.name, body[0].value, st.lineno))
            elif st.decorator_list:
                raise TranslateError(f"method {st.name}: unsupported decorator")
            else:
                others.append(st.name)
                if st.name == "__init__":
                    init = st
    if init is None:
        raise TranslateError("Units.__init__ not found")
    # keys accepted: `if key not in [...]`
    allowed = None
    assigned = {}
    for node in ast.walk(init):
        if isinstance(node, ast.Compare) and len(node.ops) == 1 and isinstance(node.ops[0], ast.NotIn) \
                and isinstance(node.left, ast.Name) and node.left.id == "key" and isinstance(node.comparators[0], (ast.List, ast.Tuple)):
            allowed = [e.value for e in node.comparators[0].elts if isinstance(e, ast.Constant)]
        tgt = val = None
        if isinstance(node, ast.AnnAssign):
            tgt, val = node.target, node.value
        elif isinstance(node, ast.Assign) and len(node.targets) == 1:
            tgt, val = node.targets[0], node.value
        if isinstance(tgt, ast.Attribute) and isinstance(tgt.value, ast.Name) and tgt.value.id == "self" and val is not None:
            ok = (isinstance(val, ast.Call) and isinstance(val.func, ast.Attribute) and val.func.attr == "get"
                  and isinstance(val.func.value, ast.Name) and val.func.value.id == "kwargs" and len(val.args) == 2
                  and isinstance(val.args[0], ast.Constant) and val.args[0].value == tgt.attr
                  and isinstance(val.args[1], ast.Constant) and isinstance(val.args[1].value, (int, float)))
            if not ok:
                raise TranslateError(f"self.{tgt.attr} is not assigned as kwargs.get({tgt.attr!r}, <number>)")
            assigned[tgt.attr] = Fraction(val.args[1].value)
    if allowed is None:
        raise TranslateError("list of permitted keys not found in Units.__init__")
    if sorted(assigned) != sorted(BASE):
        raise TranslateError(f"base units assigned in __init__ are {sorted(assigned)}, the model has {sorted(BASE)}")
    derived = {}
    order = []
    for name, expr, line in derived_src:
        if name in BASE:
            raise TranslateError(f"property {name} shadows a base unit")
        derived[name] = tr_expr(expr, derived)
        derived[name].line = line
        derived[name].src = ast.unparse(expr)
        order.append(name)
    return {"allowed": allowed, "defaults": assigned, "derived": derived, "order": order, "others": others}


# ------------------------------------------------------------------ materials.py
def _num(node):
    if isinstance(node, ast.Constant) and isinstance(node.value, (int, float)) and not isinstance(node.value, bool):
        return Fraction(node.value)
    if isinstance(node, ast.UnaryOp) and isinstance(node.op, (ast.USub, ast.UAdd)):
        v = _num(node.operand)
        return None if v is None else (-v if isinstance(node.op, ast.USub) else v)
    return None


def _str_dict(node):
    if not isinstance(node, ast.Dict):
        raise TranslateError(f"SI_units: expected a dict display, got {ast.dump(node)[:80]}")
    out = {}
    for k, v in zip(node.keys, node.values):
        if not (isinstance(k, ast.Constant) and isinstance(k.value, str) and isinstance(v, ast.Constant) and isinstance(v.value, str)):
            raise TranslateError("SI_units: keys and values must be string literals")
        out[k.value] = v.value
    return out


def _si_units_value(node, classes):
    """dict({...}) | {...} | dict(**Other.SI_units)"""
    if isinstance(node, ast.Dict):
        return _str_dict(node)
    if isinstance(node, ast.Call) and isinstance(node.func, ast.Name) and node.func.id == "dict":
        out = {}
        for a in node.args:
            out.update(_si_units_value(a, classes))
        for kw in node.keywords:
            if kw.arg is None:
                v = kw.value
                if isinstance(v, ast.Attribute) and v.attr == "SI_units" and isinstance(v.value, ast.Name) and v.value.id in classes:
                    out.update(classes[v.value.id]["table"])
                else:
                    raise TranslateError("SI_units: unsupported ** argument")
            else:
                if not (isinstance(kw.value, ast.Constant) and isinstance(kw.value.value, str)):
                    raise TranslateError("SI_units: keyword value is not a string literal")
                out[kw.arg] = kw.value.value
        return out
    raise TranslateError(f"SI_units: unsupported initialiser {ast.dump(node)[:80]}")


def read_materials(path):
    tree = ast.parse(open(path, encoding="utf-8").read())
    classes = {"Constants": {"table": {}, "fields": {}}}
    order = []
    for node in tree.body:
        if not isinstance(node, ast.ClassDef) or node.name == "Constants":
            continue
        bases = [b.id for b in node.bases if isinstance(b, ast.Name)]
        parents = [b for b in bases if b in classes]
        if not parents:
            continue
        if len(parents) != 1:
            raise TranslateError(f"class {node.name}: several Constants bases")
        par = classes[parents[0]]
        table = None
        fields = dict(par["fields"])
        for st in node.body:
            if isinstance(st, ast.AnnAssign) and isinstance(st.target, ast.Name):
                ann = ast.unparse(st.annotation)
                if st.target.id == "SI_units":
                    if "ClassVar" not in ann:
                        raise TranslateError(f"class {node.name}: SI_units not annotated ClassVar")
                    table = _si_units_value(st.value, classes)
                elif "ClassVar" in ann:
                    continue
                else:
                    v = _num(st.value) if st.value is not None else None
                    if v is None:
                        raise TranslateError(f"class {node.name}: field {st.target.id} has no numeric default")
                    fields[st.target.id] = v
            elif isinstance(st, ast.Expr) and isinstance(st.value, ast.Call) and isinstance(st.value.func, ast.Attribute) \
                    and st.value.func.attr == "update" and isinstance(st.value.func.value, ast.Name) and st.value.func.value.id == "SI_units":
                if table is None or len(st.value.args) != 1:
                    raise TranslateError(f"class {node.name}: SI_units.update before definition / bad arguments")
                table.update(_str_dict(st.value.args[0]))
            elif _is_docstring(st):
                continue
            elif isinstance(st, (ast.FunctionDef, ast.Pass)):
                continue
            else:
                raise TranslateError(f"class {node.name}: unsupported statement {ast.dump(st)[:80]}")
        if table is None:
            table = dict(par["table"])
        classes[node.name] = {"table": table, "fields": fields}
        order.append(node.name)
    if not order:
        raise TranslateError("no material data classes found")
    return {"classes": {k: classes[k] for k in order}, "order": order}


# ------------------------------------------------------------------ emission
HEADER = """/-
GENERATED on every run by harness/props/c43_translate.py from
  {units_path}
  {materials_path}
DO NOT EDIT.  Core Lean only.  Derived-unit formulas exactly as the python property bodies state
them, the expression trees the generic theorems of Props.lean are about, the tables of the material
data classes, and the generated obligations (theorems below) tying them together.
-/
import PorepyVerif.C43.Model

namespace PorepyVerif.C43.Gen
open PorepyVerif.C43

/-- `numpy.pi` (a binary64, hence this rational) -/
def pi64 : Rat := {pi}
"""


def emit(units, mats, units_path, materials_path):
    L = [HEADER.format(units_path=units_path, materials_path=materials_path, pi=lrat(PI64))]
    obligations = []
    for name in units["order"]:
        t = units["derived"][name]
        L.append(f"/-- units.py:{t.line}  `{name} = {t.src}` -/")
        L.append(f"def {name} (u : Units) : Rat := {t.lean}")
        L.append(f"def {name}Expr : UExpr := {t.uexpr}")
        L.append(f"theorem {name}_eq (u : Units) : {name} u = {name}Expr.eval u := rfl\n")
        obligations.append(f"{name}_eq")
    L.append("/-- `getattr` table of a Units object: derived units (properties) and non-numeric attributes -/")
    L.append("def env : Env :=\n  { derived := [" + ",\n               ".join(f"({lchars(n)}, {n}Expr)" for n in units["order"]) + "],\n"
             "    other := [" + ", ".join(lchars(n) for n in units["others"]) + "] }\n")
    L.append("theorem env_constsPos : env.constsPos = true := by decide +kernel\n")
    obligations.append("env_constsPos")
    L.append("/-- keys accepted by `Units.__init__` -/")
    L.append("def allowedKeys : List Str := [" + ", ".join(lchars(k) for k in units["allowed"]) + "]")
    L.append("/-- defaults of the base units (`kwargs.get(name, default)`) -/")
    L.append("def defaults : Units := ⟨" + ", ".join(lrat(units["defaults"][b]) for b in BASE) + "⟩")
    L.append("theorem allowedKeys_ok : (Base.all.all fun b => allowedKeys.contains b.name) = true := by decide")
    L.append("theorem defaults_eq : defaults = Units.one := by decide +kernel\n")
    obligations += ["allowedKeys_ok", "defaults_eq"]
    for cname in mats["order"]:
        c = mats["classes"][cname]
        L.append(f"/-- materials.py class {cname}: SI_units and dataclass fields with defaults -/")
        L.append(f"def {cname} : ConstClass :=\n  {{ table := [" + ",\n               ".join(f"({lchars(k)}, {lchars(v)})" for k, v in c["table"].items()) + "],\n"
                 "    defaults := [" + ",\n                  ".join(f"({lchars(k)}, {lrat(v)})" for k, v in c["fields"].items()) + "] }")
        L.append(f"/-- every field has a unit, every unit string is accepted by the grammar (integer powers of known units)\n    and is the identity in the SI system -/")
        L.append(f"theorem {cname}_table_ok :\n    ({cname}.defaults.all fun p => (lookup p.1 {cname}.table).isSome) = true ∧\n"
                 f"    ({cname}.table.all fun p => isOkEq (convertStr env Units.one false p.2 1) 1) = true := by decide +kernel\n")
        obligations.append(f"{cname}_table_ok")
    L.append("def classes : List (Str × ConstClass) := [" + ", ".join(f"({lchars(n)}, {n})" for n in mats["order"]) + "]\n")
    L.append("end PorepyVerif.C43.Gen")
    return "\n".join(L) + "\n", obligations


def translate(repo, out_path):
    units_path = os.path.join(repo, "src/porepy/models/units.py")
    materials_path = os.path.join(repo, "src/porepy/compositional/materials.py")
    units = read_units(units_path)
    mats = read_materials(materials_path)
    text, obligations = emit(units, mats, units_path.replace(repo, "<repo>"), materials_path.replace(repo, "<repo>"))
    old = open(out_path, encoding="utf-8").read() if os.path.exists(out_path) else None
    if old != text:  # keep the mtime (and lake's cache) when nothing changed
        with open(out_path, "w", encoding="utf-8") as f:
            f.write(text)
    return {"obligations": len(obligations), "generated_theorems": obligations, "derived_units": {n: units["derived"][n].src for n in units["order"]},
            "material_classes": {n: len(mats["classes"][n]["table"]) for n in mats["order"]}, "rewritten": old != text, "units": units, "mats": mats}
