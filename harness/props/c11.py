"""C11 MPFA reproduces linear pressure fields exactly (flux, boundary flux, boundary pressure reconstruction).

Three parts (see DESIGN.md section 6, C11):
  * oracle      - the property on the real matrices of pp.Mpfa("flow").discretize for the whole grid;
  * model       - per interaction region (grid node) the Lean driver builds the local system in exact rationals,
                  checks that g = a satisfies every row (executable `local_consistency`), solves it, certifies
                  uniqueness and returns sub-face fluxes / pressures;
  * correspondence - sub-face results summed per face are compared with the real matrices applied to the same
                  (affine AND an arbitrary non-affine) cell-pressure / boundary data.
The interaction regions are extracted from the grid (cell_faces, face_nodes, geometry arrays) by this module,
NOT from the code's SubcellTopology, and eta follows the documented rule (1/3 on simplex grids, 0 otherwise,
0 on boundary faces), so that the model side is independent of the anchored code.
"""
import json
from fractions import Fraction

import numpy as np

from harness.common import frac

PID = "C11"
THEOREMS = [
    "PorepyVerif.C11.local_consistency",
    "PorepyVerif.C11.exact_flux",
    "PorepyVerif.C11.exact_boundary_pressure",
    "PorepyVerif.C11.const_zero_flux",
    "PorepyVerif.C11.certificate_nonsingular",
    "PorepyVerif.C11.solve_sound",
    "PorepyVerif.C11.region_solver_exact",
    "PorepyVerif.C11.face_flux_exact",
    "PorepyVerif.C11.face_pressure_exact",
    "PorepyVerif.C11.mpfa2d_linear_exact",
    "PorepyVerif.C11.mpfa2d_const_zero_flux",
    "PorepyVerif.C11.mpfa2d_regions_wellformed",
    "PorepyVerif.C11.mpfa2d_regions_nonsingular",
    "PorepyVerif.C11.mpfa2d_gradients_sound",
    "PorepyVerif.C11.mpfa2d_apply_exact",
]
LEAN_MODULES = ["PorepyVerif.C11.Props"]
AUDIT = "PorepyVerif/C11/Audit.lean"
DRIVER = "PorepyVerif/C11/Driver.lean"
N = {"quick": 22, "thorough": 700}

RULE = ("one case = one grid (2-D: CartGrid 1-4 x 1-4, StructuredTriangleGrid, Delaunay TriangleGrid; 3-D: CartGrid 1-3^3, "
        "StructuredTetrahedralGrid, Delaunay TetrahedralGrid; 12% of the 2-D grids embedded in 3-D by an exact rational rotation, "
        "then K is a full 3x3 SPD tensor), nodes dyadic (axis scaling 1/2..4, node perturbation k/16, "
        "|k|<=3, prob 3/4; perturbed hexahedra have non-planar faces), constant SPD K = s(LL^T + I/2) with dyadic L (or isotropic / "
        "diagonal with contrast up to 64 / principal values 1:2^6..2^12 in a rationally rotated frame; K scaled by 2^e, e in -20..20), "
        "global geometric scale 2^-20 / 1 / 2^20, boundary pattern random (q in {.15,.5,.85}) / two opposite sides / alternating / "
        "single face / all Dirichlet (at least one Dirichlet face), "
        "affine field a.x+b with integer a in [-3,3]^d, plus an arbitrary dyadic cell/boundary field for the correspondence; "
        "2-D grids with at most 9 (quick) / 18 (thorough) cells are also sent whole to the mpfa2d model (entry-wise matrix comparison); "
        "discretised with the python or (1/10) numba inverter and (1/6) with 2-3 sub-problems; grids with an ill-conditioned "
        "local system (row-normalised cond > 1e5) are rejected; non-trivial = a != 0 and K not a multiple of I; "
        "distinct = distinct canonical cases")
TRUSTED = [
    "modelled, not verified: the vectorised construction in Mpfa._flux_discretization (SubcellTopology index arrays, "
    "pair_over_subfaces, ExcludeBoundaries, _block_diagonal_structure, _create_bound_rhs), the row scaling, the numba / "
    "numpy block inverter (C37), the sub-problem partition and gluing in Mpfa.discretize, vector source terms; "
    "3-D sub-cell topology is not modelled separately (the region model is dimension independent and is fed 3-D regions "
    "with at most 8 (quick) / 12 (thorough) cells)",
    "the extraction of interaction regions from the grid arrays by this harness (faces of a node, their cells, "
    "n_f/num_nodes, continuity point x_f + eta (x_v - x_f))",
    "grid geometry (cell/face centres, normals) is taken from the grid object as computed by compute_geometry (C19)",
]
EXPLANATION = (
    "CORE. (a) Abstract theorem over exact rationals, any dimension: for an interaction region whose data come from an "
    "affine field with constant K, the constant gradient satisfies every row of the local system (local_consistency); "
    "if the local system has at most one solution, every solution gives the exact Darcy sub-face flux and the exact "
    "reconstructed pressure (exact_flux, exact_boundary_pressure, const_zero_flux). The uniqueness hypothesis is discharged "
    "per region by a checked certificate: certOK (L*A = I by explicit multiplication) implies Nonsingular "
    "(certificate_nonsingular), so region_solver_exact holds for every region the driver solves. "
    "(d) Executable 2-D discretisation mpfa2d: from face_nodes / cell_faces, the geometry arrays, K per cell, boundary types and "
    "eta the Lean model builds every interaction region itself, solves it with the certified left inverse and assembles the "
    "four matrices; mpfa2d_linear_exact proves for EVERY well-formed 2-D grid whose regions are all certified that the assembled "
    "scheme applied to affine data is the exact Darcy flux on every face and the exact pressure on every boundary face. The four "
    "matrices of the model are compared entry by entry (1e-9 relative) with the real flux / bound_flux / bound_pressure_cell / "
    "bound_pressure_face on Cartesian, perturbed, structured and Delaunay triangle grids (also tilted in 3-D). "
    "(b) Per-region executable check for 2-D and 3-D: the Lean driver evaluates the definitions on the regions of the real grids "
    "(consistent, certificate, residual) and returns sub-face fluxes / pressures; summed per face they are compared with "
    "the real matrices applied to the same affine and non-affine data (1e-9). "
    "(c) Oracle: the property on the real matrices for every face of every generated grid. "
    "NOT modelled: the vectorised global construction, the numba inverter, 3-D topology bookkeeping, sub-problem gluing; "
    "binary64 rounding (tolerance 1e-9 relative). "
    "OPEN FINDING (known_findings.d/C11.json, key singular-local-system:triangle-corner-two-dirichlet:eta-1/3): the property "
    "quantifies over any grid and any Dirichlet/Neumann mix, and neither the docstrings of Mpfa / determine_eta nor the code "
    "mention that the default eta = 1/3 can make a local system singular; on the recorded triangle grid the real code raises "
    "nothing and returns flux 2.0 instead of 2.984375. That is wrong output on an input inside the stated domain, so it is "
    "recorded as a defect (proposed repair fixes/C11-singular-local-system.diff: detect the singular local inverse and raise) "
    "rather than excluded as a precondition. Other ill-conditioned local systems (cond > 1e5) are never generated and are "
    "skipped when reached by shrinking, because there binary64 accuracy, not the scheme, decides the outcome.")
ASSUMPTIONS = [
    "every local (interaction-region) system is nonsingular and well conditioned: cases whose largest row-normalised local "
    "condition number exceeds 1e5 are rejected by the generator and skipped by the correspondence; the oracle still evaluates the "
    "one exactly singular configuration that is recorded as an open finding (triangle-grid corner with two Dirichlet faces, eta = 1/3, "
    "inner vertex of the shared edge on the line through the two boundary-face midpoints)",
    "tolerance 1e-9 relative to the size of the exact fluxes / pressures (binary64 local solves)",
]

TOL = 1e-9
MATS = ("flux", "bound_flux", "bound_pressure_cell", "bound_pressure_face")
SIMPLEX = ("tri_struct", "tri_delaunay", "tet_struct", "tet_delaunay")
MAXCELLS = {"quick": 8, "thorough": 12}
MAX2D = {"quick": 9, "thorough": 18}   # largest 2-D grid (cells) sent as a whole to the `mpfa2d` model


# ----------------------------------------------------------------------------- generator
def _F(x):
    return Fraction(x)


def _dy(rng, lo, hi, den):
    return Fraction(rng.randint(lo, hi), den)


def _gen_K(rng, d):
    """constant SPD tensor and its stratum: identity / diagonal contrast / full SPD / strongly anisotropic rotated"""
    r = rng.random()
    if r < 0.1:
        kind = "identity"
        K = [[Fraction(int(i == j)) for j in range(d)] for i in range(d)]
    elif r < 0.25:
        kind = "diagonal"
        K = [[Fraction(0)] * d for _ in range(d)]
        for i in range(d):
            K[i][i] = Fraction(rng.choice([1, 2, 4, 16, 64]), rng.choice([1, 1, 4]))
    elif r < 0.37:
        # principal values 1 : 2^k (k up to 12) in a frame rotated by an exact rational rotation
        kind = "anisotropic-rotated"
        Q = [row[:2] for row in _rot(rng, 2)[:2]] if d == 2 else _matmul(_rot(rng, 2), _rot(rng, 0))
        lam = [Fraction(1)] * d
        lam[rng.randrange(d)] = Fraction(2) ** rng.choice([6, 8, 10, 12])
        K = [[sum(Q[i][k] * lam[k] * Q[j][k] for k in range(d)) for j in range(d)] for i in range(d)]
    else:
        kind = "full"
        L = [[_dy(rng, -2, 2, 2) if j <= i else Fraction(0) for j in range(d)] for i in range(d)]
        K = [[sum(L[i][k] * L[j][k] for k in range(d)) + (Fraction(1, 2) if i == j else 0) for j in range(d)] for i in range(d)]
    e = rng.choice([-20, -3, -1, 0, 0, 0, 0, 1, 3, 20])
    s = Fraction(2) ** e
    return [[s * v for v in row] for row in K], kind, e


def _base_grid(gtype, n, nodes=None, simplices=None):
    import porepy as pp
    if gtype == "cart2" or gtype == "cart3":
        g = pp.CartGrid(np.array(n))
    elif gtype == "tri_struct":
        g = pp.StructuredTriangleGrid(np.array(n))
    elif gtype == "tet_struct":
        g = pp.StructuredTetrahedralGrid(np.array(n))
    elif gtype == "tri_delaunay":
        g = pp.TriangleGrid(np.array(nodes, dtype=float)[:2], np.array(simplices, dtype=int).T)
    elif gtype == "tet_delaunay":
        g = pp.TetrahedralGrid(np.array(nodes, dtype=float), np.array(simplices, dtype=int).T)
    else:
        raise ValueError(gtype)
    return g


def _delaunay(rng, d):
    """dyadic point cloud + scipy Delaunay; returns (nodes 3xN Fractions, simplices) or None if degenerate."""
    import scipy.spatial
    m = 16
    if d == 2:
        pts = {(0, 0), (m, 0), (0, m), (m, m)}
        for _ in range(rng.randint(0, 3)):  # boundary points
            t = rng.randrange(1, m)
            pts.add(rng.choice([(t, 0), (t, m), (0, t), (m, t)]))
        for _ in range(rng.randint(1, 5)):
            pts.add((rng.randrange(1, m), rng.randrange(1, m)))
    else:
        pts = {(x, y, z) for x in (0, m) for y in (0, m) for z in (0, m)}
        for _ in range(rng.randint(1, 3)):
            pts.add((rng.randrange(2, m - 1), rng.randrange(2, m - 1), rng.randrange(2, m - 1)))
    pts = sorted(pts)
    P = np.array(pts, dtype=float) / m
    try:
        tri = scipy.spatial.Delaunay(P)
    except Exception:
        return None
    S = tri.simplices
    if set(S.ravel().tolist()) != set(range(len(pts))):
        return None
    for s in S:  # reject slivers
        M = (P[s[1:]] - P[s[0]])
        if abs(np.linalg.det(M)) < 1e-3:
            return None
    nodes = [[Fraction(p[k], m) if k < d else Fraction(0) for p in pts] for k in range(3)]
    return nodes, [sorted(int(i) for i in s) for s in S]


def _matmul(A, B):
    return [[sum(A[i][k] * B[k][j] for k in range(len(B))) for j in range(len(B[0]))] for i in range(len(A))]


def _rot(rng, axis):
    """exact rational rotation about a coordinate axis (Pythagorean triples; (0,1) = quarter turn)"""
    c, s_ = rng.choice([(Fraction(3, 5), Fraction(4, 5)), (Fraction(4, 5), Fraction(3, 5)), (Fraction(0), Fraction(1)),
                        (Fraction(5, 13), Fraction(12, 13)), (Fraction(-3, 5), Fraction(4, 5)), (Fraction(1), Fraction(0))])
    i, j = [(1, 2), (2, 0), (0, 1)][axis]
    Q = [[Fraction(int(r == c2)) for c2 in range(3)] for r in range(3)]
    Q[i][i], Q[i][j], Q[j][i], Q[j][j] = c, -s_, s_, c
    return Q


def _flat(case):
    """The in-plane equivalent of a tilted 2-D case: nodes Q^T x (z = 0 exactly), K2 = T K T^T, a2 = T a with
    T = the first two rows of Q^T. The scheme is invariant under this rigid motion; the region model and the
    conditioning guard work on the flat case, the real code is run on the tilted one."""
    if not case.get("tilt"):
        return case
    Q = [[Fraction(v) for v in row] for row in case["tilt"]]
    QT = [[Q[j][i] for j in range(3)] for i in range(3)]
    nodes = _matmul(QT, [[Fraction(v) for v in row] for row in case["nodes"]])
    assert all(v == 0 for v in nodes[2])
    T = QT[:2]
    K = [[Fraction(v) for v in row] for row in case["K"]]
    K2 = _matmul(_matmul(T, K), [[T[j][i] for j in range(2)] for i in range(3)])
    a2 = [sum(T[i][k] * case["a"][k] for k in range(3)) for i in range(2)] if "a" in case else None
    out = dict(case, nodes=[[frac(v) for v in row] for row in nodes], K=[[frac(v) for v in row] for row in K2], tilt=None)
    if a2 is not None:
        out["a"] = [frac(v) for v in a2]
    return out


def gen_case(rng, tier):
    for _ in range(40):
        try:
            case = _gen_case(rng, tier)
        except (ValueError, AssertionError):
            continue  # node perturbation produced an invalid cell (compute_geometry refuses it)
        if not _degenerate(case):
            return case
    raise RuntimeError("C11 generator: no admissible grid in 40 attempts")


def _gen_case(rng, tier):
    quick = tier == "quick"
    gtype = rng.choices(["cart2", "tri_struct", "tri_delaunay", "cart3", "tet_struct", "tet_delaunay"],
                        weights=[30, 20, 14, 16, 14, 6])[0]
    simplices = None
    n = None
    if gtype in ("tri_delaunay", "tet_delaunay"):
        res = None
        for _ in range(6):
            res = _delaunay(rng, 2 if gtype == "tri_delaunay" else 3)
            if res is not None:
                break
        if res is None:
            gtype = "tri_struct" if gtype == "tri_delaunay" else "tet_struct"
        else:
            nodes, simplices = res
    if gtype == "cart2":
        n = [rng.randint(1, 4), rng.randint(1, 4)]
    elif gtype == "tri_struct":
        n = [rng.randint(1, 3), rng.randint(1, 3)]
    elif gtype == "cart3":
        hi = 2 if quick else 3
        n = [rng.randint(1, hi), rng.randint(1, hi), rng.randint(1, 2)]
    elif gtype == "tet_struct":
        n = [rng.randint(1, 2), rng.randint(1, 2), 1 if quick else rng.randint(1, 2)]
    d = 3 if gtype in ("cart3", "tet_struct", "tet_delaunay") else 2
    if simplices is None:
        g0 = _base_grid(gtype, n)
        scale = [Fraction(rng.choice([1, 1, 1, 2, 4]), rng.choice([1, 1, 2])) for _ in range(d)]
        pert = rng.random() < 0.75
        nodes = []
        for k in range(3):
            row = []
            for j in range(g0.num_nodes):
                v = Fraction(int(round(g0.nodes[k, j])))
                if k < d:
                    if pert:
                        v += Fraction(rng.randint(-3, 3), 16)
                    v *= scale[k]
                row.append(v)
            nodes.append(row)
    gexp = rng.choice([-20, 0, 0, 0, 0, 0, 0, 0, 20])   # extreme geometric scale (dyadic: coordinates stay exact)
    if gexp:
        nodes = [[v * Fraction(2) ** gexp for v in row] for row in nodes]
    tilt = None
    if d == 2 and rng.random() < 0.12:
        # the 2-D grid is embedded in 3-D by an exact rational rotation Q (covers the map_grid / K-rotation branch)
        tilt = _matmul(_rot(rng, 2), _rot(rng, rng.choice([0, 1])))
        nodes = _matmul(tilt, nodes)
    K, kkind, kexp = _gen_K(rng, 3 if tilt else d)
    case = {"gtype": gtype, "n": n, "nodes": [[frac(v) for v in row] for row in nodes], "simplices": simplices,
            "K": [[frac(v) for v in row] for row in K], "tilt": [[frac(v) for v in row] for row in tilt] if tilt else None}
    g = _grid(case)
    bf = [int(f) for f in g.get_all_boundary_faces()]
    pat = rng.choice(["random", "random", "random", "sides", "alternate", "single", "all"])
    if pat == "random":
        q = rng.choice([0.15, 0.5, 0.85])
        dirf = [f for f in bf if rng.random() < q]
    elif pat == "sides":      # Dirichlet on the two ends of one coordinate direction, Neumann elsewhere
        k = rng.randrange(3)
        xs = g.face_centers[k, bf]
        lo, hi = float(xs.min()), float(xs.max())
        thr = 0.2 * (hi - lo)
        dirf = [f for f in bf if g.face_centers[k, f] <= lo + thr or g.face_centers[k, f] >= hi - thr]
    elif pat == "alternate":
        dirf = bf[rng.randrange(2)::2]
    elif pat == "single":
        dirf = [rng.choice(bf)]
    else:
        dirf = list(bf)
    if not dirf:
        dirf = [rng.choice(bf)]
    case["strata"] = {"K": kkind, "K_exp": kexp, "geom_exp": gexp, "bc": pat, "perturbed": bool(simplices is None and pert)}
    da = 3 if tilt else d
    a = [rng.randint(-3, 3) for _ in range(da)]
    if rng.random() < 0.06:
        a = [0] * da
    case["dir"] = dirf
    case["nbf"] = len(bf)
    case["a"] = a
    case["b"] = frac(_dy(rng, -16, 16, 4))
    case["p_rnd"] = [frac(_dy(rng, -40, 40, 8)) for _ in range(g.num_cells)]
    bc_rnd = [Fraction(0)] * g.num_faces
    for f in bf:
        bc_rnd[f] = _dy(rng, -40, 40, 8)
    case["bc_rnd"] = [frac(v) for v in bc_rnd]
    case["inverter"] = "numba" if rng.random() < 0.1 else "python"
    case["nsub"] = rng.choice([2, 3]) if (rng.random() < 1 / 6 and g.num_cells >= 2) else 1
    # faces whose interaction regions are sent to the Lean model
    maxc = MAXCELLS[tier]
    ncell_node = _cells_per_node(g)
    fn = g.face_nodes.tocsc()
    ok = [f for f in range(g.num_faces) if all(ncell_node[v] <= maxc for v in fn.indices[fn.indptr[f]:fn.indptr[f + 1]])]
    nf = (4 if d == 2 else 1) if quick else (6 if d == 2 else 2)
    dirset = set(dirf)
    groups = [[f for f in ok if f not in bf], [f for f in ok if f in dirset], [f for f in ok if f in bf and f not in dirset]]
    sel = []
    for grp in groups:
        if grp:
            sel.append(rng.choice(grp))
    rest = [f for f in ok if f not in sel]
    rng.shuffle(rest)
    sel = sorted((sel + rest)[:nf])
    case["faces"] = sel
    case["full2d"] = bool(d == 2 and g.num_cells <= MAX2D[tier])
    _max_cond(case, g)  # fills the cache used by the rejection test in gen_case
    return case


# ----------------------------------------------------------------------------- real code
_cache = {}
_regcache = {}


def _key(case):
    return json.dumps(case, sort_keys=True)


def _grid(case):
    g = _base_grid(case["gtype"], case["n"], [[float(Fraction(v)) for v in row] for row in case["nodes"]], case["simplices"])
    g.nodes = np.array([[float(Fraction(v)) for v in row] for row in case["nodes"]])
    g.compute_geometry()
    return g


def _cells_per_node(g):
    fn = g.face_nodes.tocsc()
    cf = g.cell_faces.tocsr()
    sets = [set() for _ in range(g.num_nodes)]
    for f in range(g.num_faces):
        cs = cf.indices[cf.indptr[f]:cf.indptr[f + 1]]
        for v in fn.indices[fn.indptr[f]:fn.indptr[f + 1]]:
            sets[v].update(int(c) for c in cs)
    return [len(s) for s in sets]


def _discretize(case):
    """grid + the four real matrices (cached for the last case: impl_run, oracle and model_ops share it)"""
    k = _key(case)
    if k in _cache:
        return _cache[k]
    import porepy as pp
    g = _grid(case)
    d = g.dim
    K = np.array([[float(Fraction(v)) for v in row] for row in case["K"]])
    one = np.ones(g.num_cells)
    if K.shape[0] == 2:
        perm = pp.SecondOrderTensor(kxx=K[0, 0] * one, kyy=K[1, 1] * one, kxy=K[0, 1] * one, kzz=one)
    else:
        perm = pp.SecondOrderTensor(kxx=K[0, 0] * one, kyy=K[1, 1] * one, kzz=K[2, 2] * one,
                                    kxy=K[0, 1] * one, kxz=K[0, 2] * one, kyz=K[1, 2] * one)
    dirf = np.array(case["dir"], dtype=int)
    bc = pp.BoundaryCondition(g, dirf, ["dir"] * dirf.size)
    params = {"second_order_tensor": perm, "bc": bc, "mpfa_inverter": case.get("inverter", "python")}
    if case.get("nsub", 1) > 1:
        params["partition_arguments"] = {"num_subproblems": int(case["nsub"])}
    data = pp.initialize_data({}, "flow", params)
    pp.Mpfa("flow").discretize(g, data)
    M = data[pp.DISCRETIZATION_MATRICES]["flow"]
    out = (g, K, {k2: M[k2].tocsr() for k2 in ("flux", "bound_flux", "bound_pressure_cell", "bound_pressure_face")})
    _cache.clear()
    _cache[k] = out
    return out


def _nu(case):
    """unit normal of the plane of a tilted 2-D grid (third column of Q), else None"""
    if not case.get("tilt"):
        return None
    return np.array([float(Fraction(row[2])) for row in case["tilt"]])


def _affine_data(g, K, a, b, dirf, nu=None):
    """cell pressures, boundary data, exact flux and exact face pressure of p = a.x + b (floats).
    On a 2-D grid embedded in 3-D (unit normal nu) the gradient that drives the flux is the tangential part of a."""
    A = np.zeros(3)
    A[:len(a)] = a
    K3 = np.zeros((3, 3))
    K3[:K.shape[0], :K.shape[0]] = K
    p = A @ g.cell_centers + b
    pf = A @ g.face_centers + b
    grad = A if nu is None else A - (A @ nu) * nu
    exact = -(g.face_normals * (K3 @ grad)[:, None]).sum(axis=0)
    bf = g.get_all_boundary_faces()
    sgn = np.asarray(g.cell_faces.sum(axis=1)).ravel()  # +-1 on boundary faces
    isdir = np.zeros(g.num_faces, dtype=bool)
    isdir[np.array(dirf, dtype=int)] = True
    bc = np.zeros(g.num_faces)
    for f in bf:
        bc[f] = pf[f] if isdir[f] else sgn[f] * exact[f]
    return p, bc, exact, pf, bf, isdir


def _apply(M, p, bc):
    return M["flux"] @ p + M["bound_flux"] @ bc, M["bound_pressure_cell"] @ p + M["bound_pressure_face"] @ bc


def impl_run(case):
    g, K, M = _discretize(case)
    b = float(Fraction(case["b"]))
    p, bc, _, _, _, _ = _affine_data(g, K, case["a"], b, case["dir"], _nu(case))
    fl, pr = _apply(M, p, bc)
    p2 = np.array([float(Fraction(v)) for v in case["p_rnd"]])
    bc2 = np.array([float(Fraction(v)) for v in case["bc_rnd"]])
    fl2, pr2 = _apply(M, p2, bc2)
    F = case["faces"]
    out = {"aff": {"flux": [float(fl[f]) for f in F], "pres": [float(pr[f]) for f in F]},
           "rnd": {"flux": [float(fl2[f]) for f in F], "pres": [float(pr2[f]) for f in F]}}
    if case.get("full2d"):
        out["mats"] = {k: [[float(x) for x in row] for row in M[k].toarray()] for k in MATS}
    return out


# ----------------------------------------------------------------------------- oracle (the property on the real matrices)
def _face_class(f, bfset, isdir):
    return "int" if f not in bfset else ("dir" if isdir[f] else "neu")


def oracle(case):
    if _degenerate(case):
        if not _singular_corner(case):
            return None  # some other ill-conditioned local system (never generated; reachable only by shrinking / replays)
        # the recorded open finding: the property says "any grid", the real code answers silently with wrong numbers
        try:
            r = _oracle(case, backward_scale=False, catch=False)
        except ValueError:
            return None  # repaired code refuses the singular local system loudly
        if r is not None:
            return {"what": "singular local system at a triangle-grid corner with two Dirichlet faces (eta = 1/3), no exception: " + r["what"],
                    "key": KEY_CORNER}
        return None
    return _oracle(case)


def _oracle(case, backward_scale=True, catch=True):
    try:
        g, K, M = _discretize(case)
    except Exception as e:
        if not catch:
            raise
        return {"what": f"{case['gtype']} grid {case['n']}: Mpfa.discretize raised {type(e).__name__}: {str(e)[:120]} on an admissible grid "
                        f"(all local systems well conditioned; K = {case['K']}, Dirichlet faces {case['dir']})",
                "key": f"discretize-raised:{case['gtype']}:{type(e).__name__}"}
    gt = case["gtype"]
    b = float(Fraction(case["b"]))
    a = case["a"]
    p, bc, exact, pf, bf, isdir = _affine_data(g, K, a, b, case["dir"], _nu(case))
    bfset = set(int(f) for f in bf)
    fl, pr = _apply(M, p, bc)
    if not (np.all(np.isfinite(fl)) and np.all(np.isfinite(pr))):
        return {"what": f"non-finite discretisation on {gt} grid {case['n']}", "key": f"non-finite:{gt}"}
    amax = float(np.abs(g.face_normals).sum(axis=0).max()) * float(np.abs(K).max()) * max(1.0, float(np.abs(a).max()))
    # backward-error scale of the matrix-vector products (cancellation when |b| >> |a.x|)
    be_f = float((abs(M["flux"]) @ np.abs(p) + abs(M["bound_flux"]) @ np.abs(bc)).max())
    be_p = float((abs(M["bound_pressure_cell"]) @ np.abs(p) + abs(M["bound_pressure_face"]) @ np.abs(bc)).max())
    if not backward_scale:   # singular local system: the matrix entries are garbage of size 1e16, not a scale
        be_f = be_p = 0.0
    sc_f = max(float(np.abs(exact).max()), amax, be_f) or 1.0
    err = np.abs(fl - exact)
    if err.max() > TOL * sc_f:
        f = int(np.argmax(err))
        cl = _face_class(f, bfset, isdir)
        return {"what": f"{gt} grid {case['n']}: flux*p + bound_flux*bc = {fl[f]!r} on {cl} face {f}, exact Darcy flux of "
                        f"p = {a}.x + {b} with K = {case['K']} is {exact[f]!r} (Dirichlet faces {case['dir']})",
                "key": f"flux-not-exact:{gt}:{cl}"}
    sc_p = max(float(np.abs(pf).max()), float(np.abs(p).max()), be_p) or 1.0
    errp = np.abs(pr - pf)[bf]
    if errp.max() > TOL * sc_p:
        f = int(bf[int(np.argmax(errp))])
        cl = _face_class(f, bfset, isdir)
        return {"what": f"{gt} grid {case['n']}: reconstructed boundary pressure {pr[f]!r} on {cl} face {f}, exact p(x_f) = {pf[f]!r} "
                        f"for p = {a}.x + {b}, K = {case['K']} (Dirichlet faces {case['dir']})",
                "key": f"bound-pressure-not-exact:{gt}:{cl}"}
    # constant pressure => zero flux (Dirichlet data = the constant, Neumann data = 0)
    c = b if b != 0 else 1.0
    p0, bc0, _, _, _, _ = _affine_data(g, K, [0] * 3, c, case["dir"], _nu(case))
    fl0, pr0 = _apply(M, p0, bc0)
    sc0 = max(abs(c) * amax, float((abs(M["flux"]) @ np.abs(p0) + abs(M["bound_flux"]) @ np.abs(bc0)).max()) if backward_scale else 0.0)
    if np.abs(fl0).max() > TOL * sc0:
        f = int(np.argmax(np.abs(fl0)))
        cl = _face_class(f, bfset, isdir)
        return {"what": f"{gt} grid {case['n']}: constant pressure {c} gives flux {fl0[f]!r} on {cl} face {f} (K = {case['K']}, "
                        f"Dirichlet faces {case['dir']})", "key": f"const-nonzero-flux:{gt}:{cl}"}
    if np.abs(pr0 - c)[bf].max() > TOL * abs(c):
        f = int(bf[int(np.argmax(np.abs(pr0 - c)[bf]))])
        cl = _face_class(f, bfset, isdir)
        return {"what": f"{gt} grid {case['n']}: constant pressure {c} reconstructed as {pr0[f]!r} on {cl} face {f}",
                "key": f"const-bound-pressure:{gt}:{cl}"}
    return None


# ----------------------------------------------------------------------------- interaction regions for the Lean model
def _eta(case):
    return Fraction(1, 3) if case["gtype"] in SIMPLEX else Fraction(0)


def _node_topology(g, v, fn, nf, cf, bfset):
    """faces of node v (ascending), the cells around v (ascending) and, per face, its cells with orientation sign;
    the first cell of an interior face (lower index) is the side whose gradient defines the flux (unique_subfno)."""
    faces_v = sorted(int(f) for f in nf.indices[nf.indptr[v]:nf.indptr[v + 1]])
    cells_v = sorted({int(c) for f in faces_v for c in cf.indices[cf.indptr[f]:cf.indptr[f + 1]]})
    loc = {c: i for i, c in enumerate(cells_v)}
    out = []
    for f in faces_v:
        cs = sorted((int(c), int(s)) for c, s in zip(cf.indices[cf.indptr[f]:cf.indptr[f + 1]], cf.data[cf.indptr[f]:cf.indptr[f + 1]]))
        nn = int(fn.indptr[f + 1] - fn.indptr[f])
        out.append((f, nn, [(loc[c], s) for c, s in cs], f in bfset))
    return cells_v, out


def _regions(case):
    """For every node of the sampled faces: the interaction region as the theorem quantifies over it.
    Returns (nodes, geo) with geo[v] = {"cells": [global cell ids], "faces": [...]}; exact Fractions of the grid's floats."""
    k = _key(case)
    if k in _regcache:
        return _regcache[k]
    g = _cache[k][0] if (k in _cache and not case.get("tilt")) else _grid(_flat(case))
    d = g.dim
    eta = _eta(case)
    fn = g.face_nodes.tocsc()
    nf = g.face_nodes.tocsr()
    cf = g.cell_faces.tocsr()
    bfset = set(int(f) for f in g.get_all_boundary_faces())
    dirset = set(case["dir"])
    nodes = sorted({int(v) for f in case["faces"] for v in fn.indices[fn.indptr[f]:fn.indptr[f + 1]]})
    FX = lambda arr, j: [Fraction(float(arr[k, j])) for k in range(d)]
    geo = {}
    for v in nodes:
        cells_v, topo = _node_topology(g, v, fn, nf, cf, bfset)
        xv = FX(g.nodes, v)
        fl = []
        for f, nn, cs, isb in topo:
            fc = FX(g.face_centers, f)
            nrm = [x / nn for x in FX(g.face_normals, f)]
            if isb:
                kind = "dir" if f in dirset else "neu"
                fl.append({"f": f, "kind": kind, "i": cs[0][0], "sgn": cs[0][1], "n": nrm, "xc": fc, "nn": nn})
            else:
                xc = [fc[k] + eta * (xv[k] - fc[k]) for k in range(d)]
                fl.append({"f": f, "kind": "int", "i": cs[0][0], "j": cs[1][0], "n": nrm, "xc": xc, "nn": nn})
        geo[v] = {"cells": cells_v, "x": [FX(g.cell_centers, c) for c in cells_v], "faces": fl}
    _regcache[k] = (nodes, geo)
    return nodes, geo


CONDMAX = 1e5
_condcache = {}
_condsig = {}
KEY_CORNER = "singular-local-system:triangle-corner-two-dirichlet:eta-1/3"


def _singular_corner(case):
    """True iff the worst-conditioned interaction region is the known singular configuration: a corner node of a
    2-D simplex grid (eta = 1/3) with two cells and two Dirichlet boundary faces (open finding KEY_CORNER)."""
    if not _degenerate(case) or case["gtype"] not in ("tri_struct", "tri_delaunay"):
        return False
    k = json.dumps([case["gtype"], case["n"], case["nodes"], case["simplices"], case["K"], sorted(case["dir"])])
    return _condsig.get(k) == (2, 2, 0)


def _max_cond(case, g=None):
    """Largest condition number (row-normalised, binary64) of the local systems of ALL interaction regions.
    The MPFA-O method is only defined where the local systems are nonsingular (hypothesis `Nonsingular` of the
    theorems); e.g. at a corner with two Dirichlet faces of a triangle grid (eta = 1/3) the system is singular when the
    third vertex of the shared edge lies on the line through the two boundary-face midpoints. Such grids are outside
    the property's domain: the generator rejects them and the oracle / correspondence skip them."""
    k = json.dumps([case["gtype"], case["n"], case["nodes"], case["simplices"], case["K"], sorted(case["dir"])])
    if k in _condcache:
        return _condcache[k]
    if case.get("tilt"):
        case = _flat(case)
        g = None
    if g is None:
        g = _grid(case)
    d = g.dim
    eta = float(_eta(case))
    K = np.array([[float(Fraction(v)) for v in row] for row in case["K"]])
    fn = g.face_nodes.tocsc()
    nf = g.face_nodes.tocsr()
    cf = g.cell_faces.tocsr()
    bfset = set(int(f) for f in g.get_all_boundary_faces())
    dirset = set(case["dir"])
    worst = 0.0
    worst_sig = None
    for v in range(g.num_nodes):
        cells_v, topo = _node_topology(g, v, fn, nf, cf, bfset)
        if not cells_v:
            continue
        n = len(cells_v) * d
        rows = []
        xv = g.nodes[:d, v]
        for f, nn, cs, isb in topo:
            fc = g.face_centers[:d, f]
            nK = (g.face_normals[:d, f] / nn) @ K
            if isb:
                i = cs[0][0]
                r = np.zeros(n)
                if f in dirset:
                    r[i * d:(i + 1) * d] = fc - g.cell_centers[:d, cells_v[i]]
                else:
                    r[i * d:(i + 1) * d] = cs[0][1] * nK
                rows.append(r)
            else:
                (i, _), (j, _) = cs
                xc = fc + eta * (xv - fc)
                r = np.zeros(n)
                r[i * d:(i + 1) * d] = nK
                r[j * d:(j + 1) * d] = -nK
                rows.append(r)
                r = np.zeros(n)
                r[i * d:(i + 1) * d] = xc - g.cell_centers[:d, cells_v[i]]
                r[j * d:(j + 1) * d] = -(xc - g.cell_centers[:d, cells_v[j]])
                rows.append(r)
        A = np.array(rows)
        if A.shape[0] != A.shape[1]:
            worst = float("inf")
            break
        nrm = np.abs(A).sum(axis=1)
        if np.any(nrm == 0):
            worst = float("inf")
            break
        c = float(np.linalg.cond(A / nrm[:, None]))
        if c > worst:
            worst = c
            nb = [f for f, _, _, isb in topo if isb]
            worst_sig = (len(cells_v), sum(1 for f in nb if f in dirset), sum(1 for f in nb if f not in dirset))
    if len(_condcache) > 4000:
        _condcache.clear()
        _condsig.clear()
    _condcache[k] = worst
    _condsig[k] = worst_sig
    return worst


def _degenerate(case, g=None):
    return not (_max_cond(case, g) <= CONDMAX)


def _region_op(case, reg, p_cells, bc, affine):
    case = _flat(case)
    d = len(case["a"])
    Ks = case["K"]
    cells = [{"x": [frac(t) for t in x], "K": Ks, "p": frac(p_cells[c])} for c, x in zip(reg["cells"], reg["x"])]
    faces = []
    for sf in reg["faces"]:
        o = {"kind": sf["kind"], "i": sf["i"], "n": [frac(t) for t in sf["n"]], "xc": [frac(t) for t in sf["xc"]]}
        if sf["kind"] == "int":
            o["j"] = sf["j"]
        elif sf["kind"] == "dir":
            o["val"] = frac(bc[sf["f"]])
        else:
            o["sgn"] = sf["sgn"]
            o["val"] = frac(bc[sf["f"]] / sf["nn"])
        faces.append(o)
    op = {"op": "region", "d": d, "cells": cells, "faces": faces}
    if affine:
        op.update({"a": case["a"], "b": case["b"], "K": Ks})
    return op


def model_ops(case):
    nodes, geo = _regions(case)
    p2 = [Fraction(v) for v in case["p_rnd"]]
    bc2 = [Fraction(v) for v in case["bc_rnd"]]
    zero_p = [Fraction(0)] * len(p2)
    zero_bc = [Fraction(0)] * len(bc2)
    ops = []
    for v in nodes:
        ops.append(_region_op(case, geo[v], zero_p, zero_bc, True))   # data filled in by the model from (a, b, K)
        ops.append(_region_op(case, geo[v], p2, bc2, False))
    if case.get("full2d"):
        ops.append(_mpfa2d_op(case))
    return ops


def _mpfa2d_op(case):
    """the whole (flat) 2-D grid for the Lean `mpfa2d` model: topology, geometry arrays, K per cell, boundary types, eta"""
    fcase = _flat(case)
    g = _grid(fcase)
    fn = g.face_nodes.tocsc()
    cf = g.cell_faces.tocsr()
    FX = lambda arr, j: [frac(float(arr[k, j])) for k in range(2)]
    dirset = set(case["dir"])
    face_cells = []
    for f in range(g.num_faces):
        cs = sorted((int(c), int(s_)) for c, s_ in zip(cf.indices[cf.indptr[f]:cf.indptr[f + 1]], cf.data[cf.indptr[f]:cf.indptr[f + 1]]))
        face_cells.append([[c, s_] for c, s_ in cs])
    return {"op": "mpfa2d",
            "nodes": [FX(g.nodes, v) for v in range(g.num_nodes)],
            "face_nodes": [[int(v) for v in fn.indices[fn.indptr[f]:fn.indptr[f + 1]]] for f in range(g.num_faces)],
            "face_cells": face_cells,
            "cc": [FX(g.cell_centers, c) for c in range(g.num_cells)],
            "fc": [FX(g.face_centers, f) for f in range(g.num_faces)],
            "fn": [FX(g.face_normals, f) for f in range(g.num_faces)],
            "perm": [fcase["K"]] * g.num_cells,
            "is_dir": [f in dirset for f in range(g.num_faces)],
            "eta": frac(_eta(case)),
            "K": fcase["K"], "a": fcase["a"], "b": fcase["b"]}


def model_decode(outs, case):
    nodes, geo = _regions(case)
    F = case["faces"]
    res = {"aff": {"flux": {f: Fraction(0) for f in F}, "pres": {f: Fraction(0) for f in F}},
           "rnd": {"flux": {f: Fraction(0) for f in F}, "pres": {f: Fraction(0) for f in F}}}
    problems = []
    for k, v in enumerate(nodes):
        for which, o in (("aff", outs[2 * k]), ("rnd", outs[2 * k + 1])):
            if "err" in o:
                problems.append(f"node {v} {which}: driver answered {o}")
                continue
            if not o.get("wf"):
                problems.append(f"node {v} {which}: region not well-formed")
                continue
            if which == "aff":
                if not o.get("affine_data") or not o.get("consistent"):
                    problems.append(f"node {v}: g = a does NOT satisfy the local rows (executable local_consistency failed)")
            if not o.get("solved"):
                problems.append(f"node {v} {which}: local system singular / certificate failed ({o.get('unknowns')} unknowns, {o.get('rows')} rows)")
                continue
            if not o.get("resid"):
                problems.append(f"node {v} {which}: computed gradients do not satisfy the rows")
            if which == "aff" and (not o.get("is_a") or o["flux"] != o["exact_flux"]):
                problems.append(f"node {v}: solved gradients differ from a although the certificate passed")
            for sf, fl, pr in zip(geo[v]["faces"], o["flux"], o["pres"]):
                if sf["f"] in res[which]["flux"]:
                    res[which]["flux"][sf["f"]] += Fraction(fl)
                    res[which]["pres"][sf["f"]] += Fraction(pr) / sf["nn"]
    out = {w: {q: [frac(res[w][q][f]) for f in F] for q in ("flux", "pres")} for w in ("aff", "rnd")}
    if case.get("full2d"):
        o = outs[2 * len(nodes)]
        if "err" in o:
            problems.append(f"mpfa2d: driver answered {o}")
        elif not o.get("wf"):
            problems.append("mpfa2d: grid not well-formed")
        elif not o.get("solved"):
            problems.append("mpfa2d: some interaction region is singular / not certified")
        else:
            if o["aff"]["flux"] != o["exact_flux"]:
                problems.append("mpfa2d: assembled scheme applied to the affine data is NOT the exact Darcy flux (mpfa2d_linear_exact violated?)")
            nf_, nc_ = len(o["face_cols"]), len(o["cell_cols"])
            bnd = [f for f in range(nf_) if o["face_cols"][f] is not None]
            if any(o["aff"]["pres"][f] != o["exact_pres"][f] for f in bnd):
                problems.append("mpfa2d: reconstructed boundary pressure of the affine data is not exact")
            Z = ["0"] * nf_
            out["mats"] = {
                "flux": [[o["cell_cols"][c]["flux"][f] for c in range(nc_)] for f in range(nf_)],
                "bound_pressure_cell": [[o["cell_cols"][c]["pres"][f] for c in range(nc_)] for f in range(nf_)],
                "bound_flux": [[(o["face_cols"][g_]["flux"][f] if o["face_cols"][g_] else "0") for g_ in range(nf_)] for f in range(nf_)],
                "bound_pressure_face": [[(o["face_cols"][g_]["pres"][f] if o["face_cols"][g_] else "0") for g_ in range(nf_)] for f in range(nf_)]}
    out["problems"] = problems
    out["regions"] = len(nodes)
    return out


def compare(impl, model, case):
    if _degenerate(case):
        return None
    if "harness_exc" in impl:
        return f"implementation raised: {impl['harness_exc']}"
    if model["problems"]:
        return "; ".join(model["problems"][:3])
    scq = {q: (max([abs(float(Fraction(x))) for w in ("aff", "rnd") for x in model[w][q]] + [0.0]) or 1.0) for q in ("flux", "pres")}
    for w in ("aff", "rnd"):
        for q in ("flux", "pres"):
            mv = [float(Fraction(x)) for x in model[w][q]]
            sc = scq[q]
            for f, x, y in zip(case["faces"], impl[w][q], mv):
                if not abs(x - y) <= TOL * sc:
                    return (f"{w}.{q} on face {f}: real matrices give {x!r}, exact region model gives {y!r} "
                            f"({case['gtype']} {case['n']}, inverter {case.get('inverter')})")
    if case.get("full2d"):
        if "mats" not in model or "mats" not in impl:
            return "mpfa2d matrices missing"
        for k in MATS:
            A = np.array(impl["mats"][k])
            B = np.array([[float(Fraction(x)) for x in row] for row in model["mats"][k]])
            if A.shape != B.shape:
                return f"matrix {k}: shape {A.shape} vs model {B.shape}"
            sc = float(np.abs(B).max()) or 1.0
            D = np.abs(A - B)
            if not D.max() <= TOL * sc:
                i, j = np.unravel_index(int(np.argmax(D)), D.shape)
                return (f"matrix {k}[{i},{j}]: real {A[i, j]!r}, mpfa2d model {B[i, j]!r} "
                        f"({case['gtype']} {case['n']}, inverter {case.get('inverter')}, nsub {case.get('nsub')})")
    return None


# ----------------------------------------------------------------------------- bookkeeping
def nontrivial(case):
    K = [[Fraction(v) for v in row] for row in case["K"]]
    d = len(K)
    iso = all(K[i][j] == (K[0][0] if i == j else 0) for i in range(d) for j in range(d))
    return any(x != 0 for x in case["a"]) and not iso


def shrink_candidates(case):
    # fewer Dirichlet faces, simpler field, simpler K (the grid itself is kept: indices refer to it)
    dirf = case["dir"]
    if len(dirf) > 1:
        for i in range(len(dirf)):
            yield dict(case, dir=dirf[:i] + dirf[i + 1:])
    a = case["a"]
    for i in range(len(a)):
        if a[i] != 0 and sum(1 for x in a if x != 0) > 1:
            yield dict(case, a=a[:i] + [0] + a[i + 1:])
        if abs(a[i]) > 1:
            yield dict(case, a=a[:i] + [1 if a[i] > 0 else -1] + a[i + 1:])
    if case["b"] != "0":
        yield dict(case, b="0")
    d = len(case["K"])
    ident = [[("1" if i == j else "0") for j in range(d)] for i in range(d)]
    if case["K"] != ident:
        yield dict(case, K=ident)
    if case.get("nsub", 1) != 1:
        yield dict(case, nsub=1)
    if case.get("inverter") != "python":
        yield dict(case, inverter="python")


def stats(cases, impl_outs):
    from collections import Counter
    gt = Counter(c["gtype"] for c in cases)
    ndir = Counter()
    for c in cases:
        nb = c.get("nbf", -1)
        ndir["all-dirichlet" if len(c["dir"]) == nb else ("one-dirichlet" if len(c["dir"]) == 1 else "mixed")] += 1
    strata = {k: dict(Counter(str(c.get("strata", {}).get(k, "corpus")) for c in cases)) for k in ("K", "K_exp", "geom_exp", "bc", "perturbed")}
    return {"grid_types": dict(gt), "boundary_mix": dict(ndir), "strata": strata,
            "numba_inverter": sum(1 for c in cases if c.get("inverter") == "numba"),
            "sub_problems": sum(1 for c in cases if c.get("nsub", 1) > 1),
            "degenerate_skipped": sum(1 for c in cases if _degenerate(c)),
            "constant_field": sum(1 for c in cases if not any(c["a"])),
            "faces_with_regions": sum(len(c["faces"]) for c in cases),
            "cases_without_regions": sum(1 for c in cases if not c["faces"]),
            "full_2d_matrix_comparisons": sum(1 for c in cases if c.get("full2d")),
            "tilted_2d_grids": sum(1 for c in cases if c.get("tilt")),
            "single_cell_grids": sum(1 for c in cases if c["n"] and all(x == 1 for x in c["n"]))}
