"""C23 Refinement and extrusion preserve measure and nesting.

One case = one call of one anchored function on a generated base grid:
  refine1d   refinement.refine_grid_1d(g, ratio)            1-d grids embedded in 1/2/3-d, permuted nodes/cells, split nodes
  remesh1d   refinement.remesh_1d(g, num_nodes)
  tri        refinement.refine_triangle_grid(g)              single / structured / perturbed / fan triangle grids
  sref1d     refinement.structured_refinement(g, refine_grid_1d(g))        (1-d sweep)
  sref2d     refinement.structured_refinement(g, independently refined g)  (2-d sweep; the fine grid is built by the harness)
  sref3d     refinement.structured_refinement on nested structured tetrahedral grids (oracle only)
  extrude    grid_extrusion.extrude_grid(g, z)               point / line / triangle / (perturbed) Cartesian bases, 1-4 layers up or down
  extrude_mdg  grid_extrusion.extrude_mdg(mdg, z)            2-d Cartesian md-grids with 1-2 fractures (interface face-cell pairs, second-side faces, mortar cells vs model)
  srefcart1d   structured_refinement on nested uniform 1-d Cartesian grids (sweep = index formula i / r)
  sref_entry   entry guards of structured_refinement: point grid (1x1 identity), equal cell counts / swapped grids / unequal dimensions (AssertionError)
  refine1d_twice  refine_grid_1d applied to its own output (ratios r1, r2; ancestors i // (r1 r2))
  extrude_err  extrude_grid with a mixed-sign z              (must raise ValueError)
Index outputs (connectivity, cell/face maps, parent maps) are compared exactly with the Lean model
(PorepyVerif/C23/Model.lean), coordinates with tolerance 1e-9; the oracle checks the property itself on the real code.
"""
import warnings
from fractions import Fraction as Fr

import numpy as np

from harness.common import frac, err_kind, deep_compare

PID = "C23"
THEOREMS = [
    "PorepyVerif.C23.refine1d_refines_spec",
    "PorepyVerif.C23.refine1d_child_vector",
    "PorepyVerif.C23.refine1d_measure",
    "PorepyVerif.C23.refine1d_total_measure",
    "PorepyVerif.C23.refine1d_parent_unique",
    "PorepyVerif.C23.refine1d_parent_fibre",
    "PorepyVerif.C23.refine1d_num_cells",
    "PorepyVerif.C23.remesh1d_measure",
    "PorepyVerif.C23.tri_children_coords",
    "PorepyVerif.C23.tri_children_area",
    "PorepyVerif.C23.tri_child_centroid_inside",
    "PorepyVerif.C23.tri_parent_map_total",
    "PorepyVerif.C23.structured_refinement_contains",
    "PorepyVerif.C23.inside1d_iff",
    "PorepyVerif.C23.extrude_measure",
    "PorepyVerif.C23.extrude_prism_measure",
    "PorepyVerif.C23.extrude_cell_map_bijective_per_layer",
    "PorepyVerif.C23.extrude_cell_over_parent",
    "PorepyVerif.C23.cart_inside1d_iff",
    "PorepyVerif.C23.cart_insideBox_iff",
    "PorepyVerif.C23.structured_refinement_cartesian",
    "PorepyVerif.C23.extrude_mdg_coupling",
    "PorepyVerif.C23.extrude_mdg_maps",
    "PorepyVerif.C23.vertical_face_signed_normal",
    "PorepyVerif.C23.extrude_prism_closed_tri",
    "PorepyVerif.C23.horizontal_face_orientation_tri",
    "PorepyVerif.C23.faces_ordered_numbering",
    "PorepyVerif.C23.tri_children_coords_of_ok",
    "PorepyVerif.C23.sweep_total_of_unique",
    "PorepyVerif.C23.extrude_heights_sign",
    "PorepyVerif.C23.sref_entry_spec",
    "PorepyVerif.C23.refine1d_twice_nested",
    "PorepyVerif.C23.refine1d_twice_refines_spec",
]
LEAN_MODULES = ["PorepyVerif.C23.Props"]
AUDIT = "PorepyVerif/C23/Audit.lean"
DRIVER = "PorepyVerif/C23/Driver.lean"
N = {"quick": 400, "thorough": 8000}
TOL = 1e-9
RULE = ("one call per case. Base grids: 1-d line grids with 1-6 (thorough 1-12) cells of unequal rational lengths along a rational direction in "
        "1/2/3-d, node numbering and cell order permuted in half of the cases, an interior node split in ~15% (as at a fracture intersection), "
        "face numbering different from node numbering (face_nodes a permutation, not the identity) in 40%; for extrusion also the 1-d fracture grids of "
        "pp.meshing.cart_grid networks (X crossing, T, doubly crossed, immersed) whose split nodes make face_nodes a permutation; "
        "triangle grids: one triangle, structured nx x ny (1-3, thorough 1-5) with the diagonal direction chosen per square and interior nodes "
        "jittered by up to 1/4 cell, fans of 3-8 triangles around a node, all mapped by a dyadic affine map, node numbering permuted, cell order "
        "shuffled, vertex order rotated; Cartesian 2-d grids nx x ny (1-3) with jittered nodes (convex quadrilaterals) and affine map; point grids. "
        "Refinement ratios 1-5 (1 = identity refinement), remesh node counts 2-9, extrusion layers 1-4 with unequal dyadic heights, upwards from "
        "z0 >= 0 or downwards from z0 <= 0; ~3% malformed (mixed-sign z). non-trivial = more than one base cell and (ratio > 1 | layers > 1 | "
        "triangle refinement); extruded 2-d bases are also compared face by face in their cyclic node order; distinct = distinct (kind, base grid, parameters)")
TRUSTED = [
    "modelled, not verified: Grid.compute_geometry (C19) - the oracle evaluates measures, centres and normals of the real refined/extruded grids; "
    "the Lean theorems give the measure identities on the exact rational coordinates (Euclidean length as Real.sqrt of the squared norm)",
    "modelled, not verified: scipy csc/coo construction and Grid.cell_nodes() (columns compared as sorted node lists / sorted (face, sign) lists); "
    "np.unique first-occurrence = association-list lookup; np.sort + np.diff + np.argwhere in refine_triangle_grid = `sharedNode`",
    "modelled, not verified: in _extrude_2d the left/right decision uses the float cell centre (model: average of the cell's nodes, any interior point of a convex "
    "cell decides alike) and sort_point_plane picks the start node of a horizontal face (faces are compared as cyclic sequences: rotation to the smallest node, "
    "direction kept); how compute_geometry turns the node order into a normal is C19 - the oracle checks positive volumes, outward normals and closed cells on the real grid",
    "modelled, not verified: MortarGrid construction inside extrude_mdg (the model gives the face-cell pairs, the faces on the second side and the mortar cell count; "
    "they are compared with the face_cells matrix and primary_to_mortar_int of the real mortar grid); np.median = twiceMedian on an insertion-sorted list",
    "structured_refinement itself asserts simplices in 2-d/3-d, so the Cartesian index-formula theorem is tied to the real code in 1-d (srefcart1d) and, for the sweep "
    "mechanics, through the triangle cases; the 2-d/3-d box sweep is exercised only inside Lean (cartSweep)",
    "modelled, not verified: map_geometry.project_line_matrix / project_plane_matrix rotations and point_in_polygon / point_in_polyhedron inside structured_refinement; "
    "the model tests containment on exact coordinates (1-d: lo < p <= hi, 2-d: strict interior of the triangle); 3-d is checked by the oracle only",
    "modelled, not verified: np.linspace / float theta in refine_grid_1d and remesh_1d (coordinates compared to 1e-9), TensorGrid topology in remesh_1d, tag transfer in remesh_1d and _define_tags (oracle checks the domain-boundary face tags)",
]
EXPLANATION = ("CORE (partial): the models cover the index bookkeeping and the coordinate formulas of refine_grid_1d, remesh_1d, refine_triangle_grid, the sweep of "
               "structured_refinement and the node/face/cell numbering and cell/face maps of extrude_grid. Theorems: the refine_grid_1d loop refines the "
               "geometric spec for every input (refine1d_refines_spec), children of a 1-d cell add up to the parent and lie inside it with parent i/r "
               "(refine1d_measure, refine1d_parent_unique), remesh covers the same segment with equal cells (remesh1d_measure), the four children of a triangle "
               "have 1/4 of the signed area each, barycentric coordinates >= 0 and their centres strictly inside the parent (tri_children_coords, tri_children_area, tri_child_centroid_inside), parent map total with 4 children "
               "per parent (tri_parent_map_total), the structured sweep assigns each fine cell to the unique coarse cell containing its centre for any "
               "containment test (structured_refinement_contains), extruded measure = base measure x height for any layer sequence and the prism formulas "
               "(extrude_measure, extrude_prism_measure), the cell map is a bijection per layer and each new cell is the prism over its parent "
               "(extrude_cell_map_bijective_per_layer, extrude_cell_over_parent); extrude_mdg: per-grid cell/face/node maps and the new interface pairs are exactly the "
               "layer-wise copies of the old coupling, same layer on both sides, functional if the old one was, second-side faces inherited (extrude_mdg_maps, "
               "extrude_mdg_coupling); nested Cartesian grids: the containment sweep equals the index formula (i/rx, j/ry, k/rz) (cart_inside1d_iff, cart_insideBox_iff, "
               "structured_refinement_cartesian); cyclic node order of the extruded 3-d faces: numbering with order, sign x normal of every vertical face is the "
               "cycle-directed outward normal for both extrusion directions, horizontal faces are oriented towards the next layer, triangular prisms are closed "
               "(faces_ordered_numbering, vertical_face_signed_normal, horizontal_face_orientation_tri, extrude_prism_closed_tri). Floating point geometry (compute_geometry, rotations, point-in-polygon) is "
               "outside the theorems and bridged by the correspondence check and the oracle.")
ASSUMPTIONS = [
    "1-d base grids are straight (all nodes collinear) and, for remesh_1d, connected; base grids for extrusion lie in a plane z = const",
    "extrusion coordinates z are strictly monotone: increasing and non-negative, or decreasing and non-positive (the documented precondition)",
    "triangle and quadrilateral base cells are non-degenerate and convex; fine grids given to structured_refinement are nested in the coarse grid",
]

warnings.filterwarnings("ignore")


# ----------------------------------------------------------------------------- small exact geometry
def _F(x):
    return Fr(x) if isinstance(x, (str, int, Fr)) else Fr(float(x))


def _area2(a, b, c):
    return (b[0] - a[0]) * (c[1] - a[1]) - (b[1] - a[1]) * (c[0] - a[0])


def _bary(p, a, b, c):
    d = _area2(a, b, c)
    return (_area2(p, b, c) / d, _area2(a, p, c) / d, _area2(a, b, p) / d)


def _in_tri(p, a, b, c, strict):
    w = _bary(p, a, b, c)
    return all(x > 0 for x in w) if strict else all(x >= 0 for x in w)


def _det3(u, v, w):
    return (u[0] * (v[1] * w[2] - v[2] * w[1]) - u[1] * (v[0] * w[2] - v[2] * w[0]) + u[2] * (v[0] * w[1] - v[1] * w[0]))


def _sub(a, b):
    return tuple(x - y for x, y in zip(a, b))


def _in_tet(p, t, strict):
    d = _det3(_sub(t[1], t[0]), _sub(t[2], t[0]), _sub(t[3], t[0]))
    ws = []
    for i in range(4):
        q = list(t)
        q[i] = p
        ws.append(_det3(_sub(q[1], q[0]), _sub(q[2], q[0]), _sub(q[3], q[0])) / d)
    return all(x > 0 for x in ws) if strict else all(x >= 0 for x in ws)


# ----------------------------------------------------------------------------- generators
def _dy(rng, lo, hi, den=4):
    return Fr(rng.randint(lo * den, hi * den), den)


LINE_DIRS_PLANAR = [(1, 0, 0), (0, 1, 0), (1, 1, 0), (2, -1, 0), (-1, 0, 0), (1, 2, 0), (-3, 4, 0)]
LINE_DIRS_3D = [(0, 0, 1), (1, -1, 2), (1, 2, 2), (0, 3, 4), (2, 0, -1)]


SCALES = {"up": Fr(2) ** 20, "down": Fr(1, 2 ** 8)}


def _scale(rng):
    """extreme-scale stratum: 10% coordinates x 2^20, 10% x 2^-8 (exact in binary64)"""
    u = rng.random()
    return "up" if u < 0.1 else "down" if u < 0.2 else None


def _gen_line(rng, tier, planar=False, connected=False):
    nc = rng.choice([1, 1, 2, 3, 4, 5, 6] + ([8, 12] if tier == "thorough" else []))
    t = [_dy(rng, -4, 4, 2)]
    for _ in range(nc):
        t.append(t[-1] + Fr(rng.randint(1, 12), rng.choice([1, 2, 4])))
    d = rng.choice(LINE_DIRS_PLANAR if planar or rng.random() < 0.5 else LINE_DIRS_3D)
    p0 = (_dy(rng, -4, 4), _dy(rng, -4, 4), _dy(rng, -2, 2) if rng.random() < 0.5 else Fr(0))
    # topology: nodes 0..nc along the line, cell i = (i, i+1)
    node_t = list(t)
    cells = [[i, i + 1] for i in range(nc)]
    if not connected and nc >= 2 and rng.random() < 0.15:
        k = rng.randint(1, nc - 1)  # split interior node k: cells to the right use the copy
        node_t.append(t[k])
        new = len(node_t) - 1
        cells = [[new if (a == k and i >= k) else a, b] for i, (a, b) in enumerate(cells)]
    n = len(node_t)
    perm = list(range(n))
    if rng.random() < 0.5:
        rng.shuffle(perm)
    inv = [0] * n
    for old, new in enumerate(perm):
        inv[new] = old
    tt = [node_t[inv[j]] for j in range(n)]
    cells = [[perm[a], perm[b]] for a, b in cells]
    if rng.random() < 0.5:
        rng.shuffle(cells)
    sc = _scale(rng)
    k = SCALES.get(sc, Fr(1))
    nodes = [[frac(k * (p0[i] + tj * d[i])) for i in range(3)] for tj in tt]
    base = {"type": "line", "nodes": nodes, "cells": cells, "t": [frac(x) for x in tt]}
    if sc:
        base["scale"] = sc
    if rng.random() < 0.4:  # face numbering differs from node numbering: face f sits at node faces[f] (as after node splitting)
        faces = list(range(n))
        rng.shuffle(faces)
        base["faces"] = faces
    return base


FRAC_NETS = [
    {"n": [4, 4], "fracs": [[[1, 3], [2, 2]], [[2, 2], [1, 3]]]},  # X crossing: the split node gives face_nodes != identity
    {"n": [3, 3], "fracs": [[[0, 2], [1, 1]], [[2, 2], [1, 3]]]},  # T
    {"n": [4, 2], "fracs": [[[0, 4], [1, 1]], [[1, 1], [0, 2]], [[3, 3], [0, 2]]]},  # one fracture crossed twice
    {"n": [3, 3], "fracs": [[[1, 2], [1, 1]]]},  # immersed, no split
]


def _gen_frac(rng):
    net = rng.choice(FRAC_NETS)
    return {"type": "frac", "n": net["n"], "fracs": net["fracs"], "which": rng.randrange(len(net["fracs"]))}


def _affine(rng):
    while True:
        a = [[_dy(rng, -2, 2, 2), _dy(rng, -2, 2, 2)], [_dy(rng, -2, 2, 2), _dy(rng, -2, 2, 2)]]
        if rng.random() < 0.4:
            a = [[Fr(1), Fr(0)], [Fr(0), Fr(1)]]
        det = a[0][0] * a[1][1] - a[0][1] * a[1][0]
        if det >= Fr(1, 4):
            return a, (_dy(rng, -4, 4), _dy(rng, -4, 4))


def _apply(a, b, p):
    return (a[0][0] * p[0] + a[0][1] * p[1] + b[0], a[1][0] * p[0] + a[1][1] * p[1] + b[1])


FAN_RING = [(4, 0), (3, 3), (0, 4), (-3, 3), (-4, 0), (-3, -3), (0, -4), (3, -3)]


def _gen_tri(rng, tier):
    while True:  # jitter can (rarely) flatten a triangle: draw again
        base = _gen_tri_once(rng, tier)
        if base is not None:
            return base


def _gen_tri_once(rng, tier):
    style = rng.choice(["single", "struct", "struct", "struct", "fan"])
    if style == "single":
        while True:
            pts = [(_dy(rng, -4, 4), _dy(rng, -4, 4)) for _ in range(3)]
            if _area2(*pts) > 0:
                break
        tris = [[0, 1, 2]]
    elif style == "fan":
        k = rng.randint(3, 8)
        start = rng.randrange(8)
        ring = [FAN_RING[(start + i) % 8] for i in range(k)]
        closed = k == 8
        pts = [(Fr(0), Fr(0))] + [(Fr(x), Fr(y)) for x, y in ring]
        tris = [[0, 1 + i, 2 + i] for i in range(k - 1)] + ([[0, k, 1]] if closed else [])
    else:
        hi = 5 if tier == "thorough" else 3
        nx, ny = rng.randint(1, hi), rng.randint(1, hi)
        idx = lambda i, j: i + j * (nx + 1)
        pts = [(Fr(i), Fr(j)) for j in range(ny + 1) for i in range(nx + 1)]
        if rng.random() < 0.6:
            for j in range(1, ny):
                for i in range(1, nx):
                    pts[idx(i, j)] = (Fr(i) + Fr(rng.randint(-2, 2), 8), Fr(j) + Fr(rng.randint(-2, 2), 8))
        tris = []
        for j in range(ny):
            for i in range(nx):
                a, b, c, d = idx(i, j), idx(i + 1, j), idx(i + 1, j + 1), idx(i, j + 1)
                if rng.random() < 0.5:
                    tris += [[a, b, c], [a, c, d]]
                else:
                    tris += [[a, b, d], [b, c, d]]
    A, b = _affine(rng)
    pts = [_apply(A, b, p) for p in pts]
    n = len(pts)
    perm = list(range(n))
    if rng.random() < 0.5:
        rng.shuffle(perm)
    new_pts = [None] * n
    for old, new in enumerate(perm):
        new_pts[new] = pts[old]
    tris = [[perm[v] for v in t] for t in tris]
    tris = [t[s:] + t[:s] for t in tris for s in [rng.randrange(3)]]
    if rng.random() < 0.5:
        rng.shuffle(tris)
    if not all(_area2(*[new_pts[v] for v in t]) > 0 for t in tris):
        return None
    sc = _scale(rng)
    k = SCALES.get(sc, Fr(1))
    base = {"type": "tri", "nodes": [[frac(k * x), frac(k * y)] for x, y in new_pts], "tris": tris}
    if sc:
        base["scale"] = sc
    return base


def _gen_cart(rng, tier):
    nx, ny = rng.randint(1, 3), rng.randint(1, 3)
    pts = [(Fr(i), Fr(j)) for j in range(ny + 1) for i in range(nx + 1)]
    if rng.random() < 0.6:
        pts = [(x + Fr(rng.randint(-1, 1), 8), y + Fr(rng.randint(-1, 1), 8)) for x, y in pts]
    A, b = _affine(rng)
    pts = [_apply(A, b, p) for p in pts]
    sc = _scale(rng)
    k = SCALES.get(sc, Fr(1))
    base = {"type": "cart", "nx": nx, "ny": ny, "nodes": [[frac(k * x), frac(k * y)] for x, y in pts]}
    if sc:
        base["scale"] = sc
    return base


def _gen_z(rng):
    layers = rng.choice([1, 2, 2, 3, 4])
    z = [_dy(rng, 0, 3) if rng.random() < 0.5 else Fr(0)]
    for _ in range(layers):
        z.append(z[-1] + Fr(rng.randint(1, 12), rng.choice([1, 2, 4, 8])))
    if rng.random() < 0.4:
        z = [-v for v in z]
    return [frac(v) for v in z]


def gen_case(rng, tier):
    u = rng.random()
    if u < 0.17:
        return {"kind": "refine1d", "base": _gen_line(rng, tier), "ratio": rng.choice([1, 2, 2, 3, 3, 4, 5])}
    if u < 0.25:
        return {"kind": "remesh1d", "base": _gen_line(rng, tier, connected=True), "n": rng.choice([2, 3, 4, 5, 6, 9])}
    if u < 0.42:
        return {"kind": "tri", "base": _gen_tri(rng, tier)}
    if u < 0.48:
        return {"kind": "sref1d", "base": _gen_line(rng, tier), "ratio": rng.choice([2, 3, 4, 5])}
    if u < 0.55:
        return {"kind": "sref2d", "base": _gen_tri(rng, tier), "shuffle": rng.randrange(1 << 30)}
    if u < 0.57:
        return {"kind": "sref3d", "n": rng.choice([[1, 1, 1], [2, 1, 1], [1, 2, 1]]), "factor": 2}
    if u < 0.60:
        return dict(rng.choice(MDG_SHAPES), kind="extrude_mdg", z=_gen_z(rng))
    if u < 0.66:
        v = rng.choice(["point", "order", "order", "dim", "ok"])
        return {"kind": "sref_entry", "variant": v, "base": _gen_line(rng, tier), "fine": _gen_tri(rng, tier), "ratio": rng.choice([2, 3]),
                "swap": rng.random() < 0.5}
    if u < 0.70:
        return {"kind": "refine1d_twice", "base": _gen_line(rng, tier), "r1": rng.choice([1, 2, 3]), "r2": rng.choice([1, 2, 3])}
    if u < 0.73:
        return {"kind": "srefcart1d", "n": rng.randint(1, 6), "ratio": rng.choice([2, 3, 4, 5]), "x0": frac(_dy(rng, -4, 4)),
                "h": frac(Fr(rng.randint(1, 12), rng.choice([1, 2, 4])))}
    if u < 0.97:
        v = rng.random()
        if v < 0.12:
            base = {"type": "point", "xyz": [frac(_dy(rng, -4, 4)), frac(_dy(rng, -4, 4)), frac(_dy(rng, -1, 1))]}
        elif v < 0.12 + 0.08:
            base = _gen_frac(rng)
        elif v < 0.42:
            base = _gen_line(rng, tier, planar=True)
        elif v < 0.72:
            base = _gen_tri(rng, tier)
        else:
            base = _gen_cart(rng, tier)
        z = _gen_z(rng)
        if base.get("scale"):  # keep the aspect ratio of the prisms moderate: layer coordinates scale with the base grid
            z = [frac(Fr(v) * SCALES[base["scale"]]) for v in z]
        return {"kind": "extrude", "base": base, "z": z}
    z = [_dy(rng, -3, 3) for _ in range(rng.randint(2, 4))]
    z[0], z[1] = Fr(-1), Fr(1, 2)
    rng.shuffle(z)
    base = rng.choice([_gen_line(rng, tier, planar=True), _gen_cart(rng, tier), {"type": "point", "xyz": ["0", "1", "0"]}])
    if rng.random() < 0.4:  # valid z, but a 3-d base grid: the dispatcher must refuse it
        return {"kind": "extrude_err", "base": {"type": "tet", "n": rng.choice([[1, 1, 1], [2, 1, 1]])}, "z": _gen_z(rng)}
    return {"kind": "extrude_err", "base": base, "z": [frac(v) for v in z]}


# ----------------------------------------------------------------------------- base grids (porepy objects)
def _fl(rows):
    return np.array([[float(Fr(v)) for v in p] for p in rows], dtype=float).T


def build_base(base):
    import porepy as pp
    import scipy.sparse as sps

    ty = base["type"]
    if ty == "line":
        x = _fl(base["nodes"])
        n = x.shape[1]
        cells = base["cells"]
        faces = base.get("faces", list(range(n)))  # face f is node faces[f]
        face_of = {node: f for f, node in enumerate(faces)}
        cf = sps.csc_matrix((np.array([-1, 1] * len(cells)), np.array([face_of[v] for c in cells for v in c]), np.arange(0, 2 * len(cells) + 1, 2)),
                            shape=(n, len(cells)))
        fn = sps.csc_matrix((np.ones(n, dtype=bool), np.array(faces), np.arange(n + 1)), shape=(n, n))
        g = pp.Grid(1, x, fn, cf, "line")
    elif ty == "frac":
        mdg = pp.meshing.cart_grid([np.array(f, dtype=float) for f in base["fracs"]], base["n"])
        g = mdg.subdomains(dim=1)[base["which"]]
    elif ty == "tri":
        g = pp.TriangleGrid(_fl(base["nodes"]), np.array(base["tris"], dtype=int).T.copy())
    elif ty == "cart":
        g = pp.CartGrid([base["nx"], base["ny"]])
        xy = _fl(base["nodes"])
        g.nodes = np.vstack((xy, np.zeros(xy.shape[1])))
    elif ty == "tet":
        g = pp.StructuredTetrahedralGrid(base["n"])
    elif ty == "point":
        g = pp.PointGrid(np.array([float(Fr(v)) for v in base["xyz"]]))
    else:
        raise ValueError(ty)
    g.compute_geometry()
    return g


def _cols(m):
    m = m.tocsc()
    return [[int(i) for i in m.indices[m.indptr[c]:m.indptr[c + 1]]] for c in range(m.shape[1])]


def _cols_signed(m):
    m = m.tocsc()
    return [sorted([int(i), int(s)] for i, s in zip(m.indices[m.indptr[c]:m.indptr[c + 1]], m.data[m.indptr[c]:m.indptr[c + 1]])) for c in range(m.shape[1])]


def _nodes_out(g, dim=3):
    return [[frac(v) for v in g.nodes[:dim, i]] for i in range(g.num_nodes)]


def _fine_tri(base):
    """Independent (harness) uniform refinement of a triangle grid: children of cell c are cells 4c..4c+3."""
    pts = [tuple(Fr(v) for v in p) for p in base["nodes"]]
    mid = {}
    tris = []
    for t in base["tris"]:
        m = []
        for a, b in ((t[0], t[1]), (t[1], t[2]), (t[2], t[0])):
            key = (min(a, b), max(a, b))
            if key not in mid:
                mid[key] = len(pts)
                pts.append(((pts[a][0] + pts[b][0]) / 2, (pts[a][1] + pts[b][1]) / 2))
            m.append(mid[key])
        tris += [[t[0], m[0], m[2]], [t[1], m[1], m[0]], [t[2], m[2], m[1]], [m[0], m[1], m[2]]]
    return pts, tris


def _sref2d_grids(case):
    import porepy as pp
    import random

    g = build_base(case["base"])
    pts, tris = _fine_tri(case["base"])
    order = list(range(len(tris)))
    random.Random(case["shuffle"]).shuffle(order)
    tris = [tris[i] for i in order]
    h = pp.TriangleGrid(np.array([[float(x), float(y)] for x, y in pts]).T, np.array(tris, dtype=int).T.copy())
    h.compute_geometry()
    return g, h, pts, tris, [i // 4 for i in order]


def _srefcart_grids(case):
    import porepy as pp

    n, r, x0, hh = case["n"], case["ratio"], float(Fr(case["x0"])), float(Fr(case["h"]))
    g = pp.CartGrid([n], [n * hh])
    h = pp.CartGrid([n * r], [n * hh])
    for q in (g, h):
        q.nodes[0] += x0
        q.compute_geometry()
    return g, h


def _sref_entry_grids(case):
    """(coarse, fine) for the entry guards of structured_refinement."""
    import porepy as pp
    from porepy.grids import refinement

    line = build_base(case["base"])
    v = case["variant"]
    if v == "point":
        g = pp.PointGrid(np.array([0.0, 1.0, 0.0]))
        g.compute_geometry()
        return g, (line if case["swap"] else g)
    if v == "order":  # equal cell counts, or the refined grid passed as the coarse one
        fine = refinement.refine_grid_1d(line, case["ratio"])
        return (fine, line) if case["swap"] else (line, line)
    if v == "dim":  # 1-d coarse grid, 2-d fine grid with more cells
        tri = build_base(case["fine"])
        fine = refinement.refine_triangle_grid(tri)[0]
        for _ in range(3):
            if fine.num_cells > line.num_cells:
                break
            fine = refinement.refine_triangle_grid(fine)[0]
        fine.compute_geometry()
        return line, fine
    return line, refinement.refine_grid_1d(line, case["ratio"])


def _mdg_interfaces(mdg, new, gmap):
    """(old interface, its data, the matching new interface) in the order of the old md-grid."""
    out = []
    for intf, data in mdg.interfaces(return_data=True):
        hi, lo = mdg.interface_to_subdomain_pair(intf)
        pair = (gmap[hi].grid, gmap[lo].grid)
        cand = [i for i in new.interfaces() if new.interface_to_subdomain_pair(i) == pair]
        out.append((intf, data, cand[0] if len(cand) == 1 else None, hi, lo))
    return out


def _cyc(nodes):
    """canonical rotation of a cyclic node sequence: smallest node first, direction kept"""
    nodes = [int(v) for v in nodes]
    i = nodes.index(min(nodes))
    return nodes[i:] + nodes[:i]


def _sref3d_grids(case):
    import porepy as pp

    n = case["n"]
    g = pp.StructuredTetrahedralGrid(n, [float(v) for v in n])
    h = pp.StructuredTetrahedralGrid([v * case["factor"] for v in n], [float(v) for v in n])
    g.compute_geometry()
    h.compute_geometry()
    return g, h


# ----------------------------------------------------------------------------- real code
def impl_run(case):
    from porepy.grids import refinement
    from porepy.grids.grid_extrusion import extrude_grid

    k = case["kind"]
    try:
        if k == "refine1d":
            g = build_base(case["base"])
            h = refinement.refine_grid_1d(g, case["ratio"])
            fn = h.face_nodes.tocsc()
            ident = fn.shape[0] == fn.shape[1] and _cols(fn) == [[i] for i in range(fn.shape[1])]
            return {"nodes": _nodes_out(h), "cells": _cols_signed(h.cell_faces), "faces_are_nodes": bool(ident)}
        if k == "remesh1d":
            g = build_base(case["base"])
            h = refinement.remesh_1d(g, case["n"])
            return {"nodes": _nodes_out(h), "cells": _cols_signed(h.cell_faces)}
        if k == "tri":
            g = build_base(case["base"])
            h, parent = refinement.refine_triangle_grid(g)
            return {"nodes": _nodes_out(h, 2), "tri": [sorted(c) for c in _cols(h.cell_nodes())], "parent": [int(p) for p in parent], "input_ok": True}
        if k == "sref1d":
            g = build_base(case["base"])
            h = refinement.refine_grid_1d(g, case["ratio"])
            m = refinement.structured_refinement(g, h)
            return {"cols": [sorted(c) for c in _cols(m)], "shape": [int(v) for v in m.shape], "input_ok": True}
        if k == "sref2d":
            g, h, _, _, _ = _sref2d_grids(case)
            m = refinement.structured_refinement(g, h)
            return {"cols": [sorted(c) for c in _cols(m)], "shape": [int(v) for v in m.shape], "input_ok": True}
        if k == "sref3d":
            g, h = _sref3d_grids(case)
            m = refinement.structured_refinement(g, h)
            return {"shape": [int(v) for v in m.shape]}
        if k == "extrude_mdg":
            from porepy.grids.grid_extrusion import extrude_mdg

            mdg = _build_mdg(case)
            new, gmap = extrude_mdg(mdg, np.array([float(Fr(v)) for v in case["z"]]))
            from porepy.numerics.linalg.matrix_operations import sparse_array_to_row_col_data

            intfs = []
            for intf, data, mg, hi, lo in _mdg_interfaces(mdg, new, gmap):
                r2, c2, _ = sparse_array_to_row_col_data(new.interface_data(mg)["face_cells"])
                per_side = mg.num_cells // mg.num_sides()
                proj = mg.primary_to_mortar_int().tocsr()
                other = sorted(int(v) for v in proj[per_side:].indices) if mg.num_sides() == 2 else []
                intfs.append({"pairs": sorted([int(a), int(b)] for a, b in zip(r2, c2)), "other_side": other,
                              "sides": int(mg.num_sides()), "mortar_cells": int(mg.num_cells)})
            return {"cells": sorted([int(gmap[sd].grid.dim), int(gmap[sd].grid.num_cells)] for sd in mdg.subdomains()), "interfaces": intfs}
        if k == "sref_entry":
            g, h = _sref_entry_grids(case)
            m = refinement.structured_refinement(g, h)
            if g.dim == 0:
                return {"entry": "point", "matrix": [[frac(v) for v in row] for row in m.toarray()]}
            return {"entry": "sweep", "shape": [int(v) for v in m.shape]}
        if k == "refine1d_twice":
            g = build_base(case["base"])
            h = refinement.refine_grid_1d(refinement.refine_grid_1d(g, case["r1"]), case["r2"])
            return {"nodes": _nodes_out(h), "cells": _cols_signed(h.cell_faces)}
        if k == "srefcart1d":
            g, h = _srefcart_grids(case)
            m = refinement.structured_refinement(g, h)
            return {"cols": [sorted(c) for c in _cols(m)], "shape": [int(v) for v in m.shape]}
        if k in ("extrude", "extrude_err"):
            g = build_base(case["base"])
            z = np.array([float(Fr(v)) for v in case["z"]])
            h, cm, fm = extrude_grid(g, z)
            out = {"nodes": _nodes_out(h), "fn": [sorted(c) for c in _cols(h.face_nodes)], "cf": _cols_signed(h.cell_faces),
                   "cell_map": [[int(v) for v in row] for row in cm], "face_map": [[int(v) for v in row] for row in fm]}
            if g.dim == 2:  # cyclic node order of the 3-d faces (stored order of the csc columns)
                out["fn_cyclic"] = [_cyc(c) for c in _cols(h.face_nodes)]
            out["input_ok"] = True
            return out
    except Exception as e:
        return err_kind(e)
    raise ValueError(k)


# ----------------------------------------------------------------------------- Lean model
def _line_params(base):
    """Coarse cell parameter intervals in the order in which structured_refinement visits them (cell order, nodes sorted by index)."""
    t = [Fr(v) for v in base["t"]]
    return [[t[min(a, b)], t[max(a, b)]] for a, b in base["cells"]]


def model_ops(case):
    k = case["kind"]
    b = case.get("base")
    if k == "refine1d":
        # start/end of an old cell = its nodes in increasing index order (sorted csc column of cell_nodes())
        return [{"op": "refine1d", "nodes": b["nodes"], "cells": [sorted(c) for c in b["cells"]], "ratio": case["ratio"]}]
    if k == "remesh1d":
        cnt = {}
        for c in b["cells"]:
            for v in c:
                cnt[v] = cnt.get(v, 0) + 1
        bnd = sorted(v for v, n in cnt.items() if n == 1)  # get_all_boundary_nodes(): ascending
        return [{"op": "remesh1d", "start": b["nodes"][bnd[0]], "end": b["nodes"][bnd[1]], "n": case["n"]}]
    if k == "tri":
        g = build_base(b)
        fn = g.face_nodes.indices.reshape((2, g.num_faces), order="F").T
        cf = g.cell_faces.indices.reshape((3, g.num_cells), order="F").T
        return [{"op": "tri", "nodes": b["nodes"], "fn": [[int(v) for v in r] for r in fn], "cf": [[int(v) for v in r] for r in cf]}]
    if k == "sref1d":
        r = case["ratio"]
        cells = _line_params(b)
        pts = []
        for lo, hi in cells:  # fine cell c*r+j of refine_grid_1d: centre at parameter lo + (j+1/2)/r (hi-lo)
            pts += [lo + (hi - lo) * Fr(2 * j + 1, 2 * r) for j in range(r)]
        return [{"op": "sref1d", "cells": [[frac(lo), frac(hi)] for lo, hi in cells], "pts": [frac(p) for p in pts]}]
    if k == "sref2d":
        g, h, pts, tris, _ = _sref2d_grids(case)
        coarse = [tuple(Fr(v) for v in p) for p in b["nodes"]]
        cells = []
        for t in b["tris"]:
            cells.append([frac(v) for n in sorted(t) for v in coarse[n]])
        cen = [[frac(sum(pts[v][0] for v in t) / 3), frac(sum(pts[v][1] for v in t) / 3)] for t in tris]
        return [{"op": "sref2d", "cells": cells, "pts": cen}]
    if k == "sref3d":
        return [{"op": "echo"}]
    if k == "sref_entry":
        try:
            g, h = _sref_entry_grids(case)
        except Exception:  # the refinement that prepares the pair failed: the oracle reports it, the comparison must not pass
            return [{"op": "echo"}]
        return [{"op": "sref_entry", "dim_c": int(g.dim), "dim_f": int(h.dim), "nc_c": int(g.num_cells), "nc_f": int(h.num_cells)}]
    if k == "refine1d_twice":
        return [{"op": "refine1d_twice", "nodes": b["nodes"], "cells": [sorted(c) for c in b["cells"]], "r1": case["r1"], "r2": case["r2"]}]
    if k == "srefcart1d":
        return [{"op": "srefcart", "o": [case["x0"], "0", "0"], "h": [case["h"], "1", "1"], "n": [case["n"], 1, 1], "r": [case["ratio"], 1, 1]}]
    if k == "extrude_mdg":
        from porepy.numerics.linalg.matrix_operations import sparse_array_to_row_col_data

        mdg = _build_mdg(case)
        ops = []
        for intf, data in mdg.interfaces(return_data=True):
            hi, lo = mdg.interface_to_subdomain_pair(intf)
            cells, faces, _ = sparse_array_to_row_col_data(data["face_cells"])
            ops.append({"op": "mdg_interface", "cells": [int(v) for v in cells], "faces": [int(v) for v in faces],
                        "nc_low": int(lo.num_cells), "nf_high": int(hi.num_faces), "layers": len(case["z"]) - 1})
        return ops
    if k in ("extrude", "extrude_err"):
        g = build_base(b)
        if g.dim == 0:
            nodes, fn, cn, cff, cfs = [[frac(v) for v in g.cell_centers[:, 0]]], [], [], [], []
        else:
            nodes = _nodes_out(g)
            fn = _cols(g.face_nodes)
            cn = [sorted(c) for c in _cols(g.cell_nodes())]
            m = g.cell_faces.tocsc()
            cff = _cols(m)
            cfs = [[int(s) for s in m.data[m.indptr[c]:m.indptr[c + 1]]] for c in range(m.shape[1])]
        return [{"op": "extrude", "dim": int(g.dim), "nodes": nodes, "fn": fn, "cn": cn, "cf_faces": cff, "cf_signs": cfs, "z": case["z"]}]
    raise ValueError(k)


def model_decode(outs, case):
    o = outs[0]
    k = case["kind"]
    if isinstance(o, dict) and "err" in o:
        return o
    if k == "sref_entry":
        if o == "ok":
            return {"model": "the pair of grids could not be prepared"}
        if o["entry"] == "point":
            return {"entry": "point", "matrix": [["1"]]}
        g, h = _sref_entry_grids(case)
        return {"entry": "sweep", "shape": [int(h.num_cells), int(g.num_cells)]}
    if k == "refine1d_twice":
        cells = [sorted([[a, o["signs"][2 * i]], [b, o["signs"][2 * i + 1]]]) for i, (a, b) in enumerate(o["cells"])]
        return {"nodes": o["nodes"], "cells": cells}
    if k == "refine1d":
        cells = [sorted([[a, o["signs"][2 * i]], [b, o["signs"][2 * i + 1]]]) for i, (a, b) in enumerate(o["cells"])]
        return {"nodes": o["nodes"], "cells": cells, "faces_are_nodes": True}
    if k == "remesh1d":
        n = len(o["nodes"])
        return {"nodes": o["nodes"], "cells": [[[i, -1], [i + 1, 1]] for i in range(n - 1)]}  # TensorGrid topology
    if k == "tri":
        return {"nodes": o["nodes"], "tri": [sorted(t) for t in o["tri"]], "parent": o["parent"], "input_ok": o["input_ok"]}
    if k in ("sref1d", "sref2d"):
        npts = sum(len(c) for c in o["cols"])
        return {"cols": [sorted(c) for c in o["cols"]], "shape": [npts, len(o["cols"])], "input_ok": o["input_ok"]}
    if k == "sref3d":
        n = case["n"]
        nc = 6 * n[0] * n[1] * n[2]
        return {"shape": [nc * case["factor"] ** 3, nc]}
    if k == "extrude_mdg":
        mdg = _build_mdg(case)  # cell counts by the layer formula (cells x layers)
        intfs = [{"pairs": sorted(q["pairs"]), "other_side": sorted(q["other_side"]), "sides": q["sides"], "mortar_cells": q["mortar_cells"]} for q in outs]
        return {"cells": sorted([int(sd.dim) + 1, int(sd.num_cells) * (len(case["z"]) - 1)] for sd in mdg.subdomains()), "interfaces": intfs}
    if k == "srefcart1d":
        npts = sum(len(c) for c in o["cols"])
        return {"cols": [sorted(c) for c in o["cols"]], "shape": [npts, len(o["cols"])]}
    if k in ("extrude", "extrude_err"):
        out = {"nodes": o["nodes"], "fn": [sorted(f) for f in o["fn"]], "cf": [sorted(c) for c in o["cf"]],
               "cell_map": o["cell_map"], "face_map": o["face_map"]}
        if o.get("fn_ord") is not None:
            out["fn_cyclic"] = [_cyc(f) for f in o["fn_ord"]]
        out["input_ok"] = o["input_ok"]
        return out
    raise ValueError(k)


def compare(impl, model, case):
    """Exact on indices, 1e-9 on coordinates."""
    return deep_compare(impl, model, tol=TOL)


# ----------------------------------------------------------------------------- oracle (property on the real code)
def _fail(case, key, what):
    return {"what": f"{case['kind']}: {what}", "key": f"{case['kind']}-{key}"}


class _Raised(Exception):
    """An anchored function raised on a valid input: a property failure, not a harness problem."""

    def __init__(self, name, e):
        super().__init__(f"{name} raised {type(e).__name__}: {e}")
        self.key = f"raises-{name}-{type(e).__name__}"


def _call(fn, *args):
    try:
        return fn(*args)
    except Exception as e:
        raise _Raised(fn.__name__, e)


def _valid_grid(g):
    """Positive measures, closed cells, normals consistent with the cell-face signs. Returns None or a reason."""
    try:
        g.compute_geometry()
    except Exception as e:
        return f"compute_geometry raised {type(e).__name__}: {e}"
    if not (np.all(np.isfinite(g.cell_volumes)) and np.all(g.cell_volumes > 0)):
        return "non-positive cell volume"
    if g.dim >= 1 and not np.all(g.face_areas > 0):
        return "non-positive face area"
    if g.dim == 0:
        return None
    cf = g.cell_faces.tocsc()
    scale = float(np.max(np.abs(g.face_normals))) + 1e-300
    for c in range(g.num_cells):
        s = slice(cf.indptr[c], cf.indptr[c + 1])
        f, sg = cf.indices[s], cf.data[s]
        if np.abs((g.face_normals[:, f] * sg).sum(axis=1)).max() > 1e-9 * scale:
            return f"cell {c} is not closed (signed normals do not add up to zero)"
        out = ((g.face_centers[:, f] - g.cell_centers[:, [c]]) * g.face_normals[:, f]).sum(axis=0) * sg
        if np.any(out <= 0):
            return f"a face normal of cell {c} does not point out of the cell with sign +1"
    per_face = np.asarray(abs(g.cell_faces).sum(axis=1)).ravel()
    if np.any(per_face < 1) or np.any(per_face > 2):
        return "a face with 0 or more than 2 cells"
    return None


def _close(a, b, scale=1.0):
    return abs(a - b) <= 1e-9 * max(abs(a), abs(b), scale)


def _pt(g, i):
    return tuple(Fr(float(v)) for v in g.nodes[:, i])


def _on_segment(p, a, b, tol=1e-9):
    p, a, b = (np.array([float(v) for v in q]) for q in (p, a, b))
    d = b - a
    L2 = float(d @ d)
    s = float((p - a) @ d) / L2
    dist = np.linalg.norm(p - (a + s * d))
    return (-tol <= s <= 1 + tol) and dist <= tol * max(1.0, np.sqrt(L2)), s


def _oracle_refine1d(case):
    from porepy.grids import refinement

    g = build_base(case["base"])
    if case["kind"] == "refine1d_twice":  # refine, then refine the result: ancestors by i // (r1 r2)
        r = case["r1"] * case["r2"]
        h = _call(refinement.refine_grid_1d, _call(refinement.refine_grid_1d, g, case["r1"]), case["r2"])
    else:
        r = case["ratio"]
        h = _call(refinement.refine_grid_1d, g, r)
    why = _valid_grid(h)
    if why:
        return _fail(case, "invalid-grid", why)
    if h.dim != 1 or h.num_cells != r * g.num_cells:
        return _fail(case, "num-cells", f"{h.num_cells} cells for ratio {r} and {g.num_cells} coarse cells")
    if h.num_nodes != g.num_nodes + (r - 1) * g.num_cells or h.num_faces != h.num_nodes:
        return _fail(case, "num-nodes", f"{h.num_nodes} nodes / {h.num_faces} faces, expected {g.num_nodes + (r - 1) * g.num_cells}")
    if not _close(h.cell_volumes.sum(), g.cell_volumes.sum()):
        return _fail(case, "total-measure", f"total length {h.cell_volumes.sum()} != {g.cell_volumes.sum()}")
    cng, cnh = _cols(g.cell_nodes()), _cols(h.cell_nodes())
    for c in range(g.num_cells):
        a, b = (g.nodes[:, n] for n in cng[c])
        kids = range(c * r, (c + 1) * r)
        if not _close(sum(h.cell_volumes[i] for i in kids), g.cell_volumes[c]):
            return _fail(case, "parent-measure", f"children {list(kids)} of cell {c} do not add up to its length")
        ivs = []
        for i in kids:
            if len(cnh[i]) != 2:
                return _fail(case, "cell-nodes", f"fine cell {i} has {len(cnh[i])} nodes")
            ss = []
            for n in cnh[i]:
                ok, s = _on_segment(h.nodes[:, n], a, b)
                if not ok:
                    return _fail(case, "child-outside-parent", f"node {n} of fine cell {i} is not on parent cell {i // r}")
                ss.append(s)
            ok, s = _on_segment(h.cell_centers[:, i], a, b)
            if not ok or not (0 < s < 1):
                return _fail(case, "child-outside-parent", f"centre of fine cell {i} is not inside parent cell {i // r}")
            if not _close(h.cell_volumes[i], g.cell_volumes[c] / r):
                return _fail(case, "child-measure", f"fine cell {i} has length {h.cell_volumes[i]}, parent/ratio = {g.cell_volumes[c] / r}")
            ivs.append(sorted(ss))
        ivs.sort()
        for u, v in zip(ivs, ivs[1:]):
            if u[1] > v[0] + 1e-9:
                return _fail(case, "children-overlap", f"children of cell {c} overlap")
    if getattr(h, "frac_num", None) != getattr(g, "frac_num", None):
        return _fail(case, "frac-num", "fracture number not kept")
    return None


def _oracle_remesh1d(case):
    from porepy.grids import refinement

    g = build_base(case["base"])
    n = case["n"]
    h = _call(refinement.remesh_1d, g, n)
    why = _valid_grid(h)
    if why:
        return _fail(case, "invalid-grid", why)
    if h.num_cells != n - 1 or h.num_nodes != n:
        return _fail(case, "num-cells", f"{h.num_cells} cells / {h.num_nodes} nodes for num_nodes={n}")
    if not _close(h.cell_volumes.sum(), g.cell_volumes.sum()):
        return _fail(case, "total-measure", f"total length {h.cell_volumes.sum()} != {g.cell_volumes.sum()}")
    if not all(_close(v, g.cell_volumes.sum() / (n - 1)) for v in h.cell_volumes):
        return _fail(case, "equal-cells", "cells are not equi-spaced")
    bn = g.get_all_boundary_nodes()
    a, b = g.nodes[:, bn[0]], g.nodes[:, bn[1]]
    for i in range(n):
        ok, _ = _on_segment(h.nodes[:, i], a, b)
        if not ok:
            return _fail(case, "outside-domain", f"new node {i} is not on the old segment")
    ends = sorted([tuple(np.round(h.nodes[:, 0], 9)), tuple(np.round(h.nodes[:, -1], 9))])
    if ends != sorted([tuple(np.round(a, 9)), tuple(np.round(b, 9))]):
        return _fail(case, "end-points", "end nodes differ from the old boundary nodes")
    want = np.zeros(n, dtype=bool)
    want[[0, -1]] = True
    if not np.array_equal(h.tags["domain_boundary_faces"], want):
        return _fail(case, "boundary-tags", "domain boundary face tags wrong")
    return None


def _oracle_tri(case):
    from porepy.grids import refinement

    g = build_base(case["base"])
    nc = g.num_cells
    cf0 = g.cell_faces.indices.reshape((3, nc), order="F").copy()  # as refine_triangle_grid reads it (cell_nodes() sorts it in place later)
    h, parent = _call(refinement.refine_triangle_grid, g)
    if h.num_cells != 4 * nc or len(parent) != 4 * nc or h.num_nodes != g.num_nodes + g.num_faces:
        return _fail(case, "num-cells", f"{h.num_cells} cells, {len(parent)} parents, {h.num_nodes} nodes for {nc} coarse cells")
    P = [(Fr(float(h.nodes[0, i])), Fr(float(h.nodes[1, i]))) for i in range(h.num_nodes)]
    Q = [(Fr(float(g.nodes[0, i])), Fr(float(g.nodes[1, i]))) for i in range(g.num_nodes)]
    if P[: g.num_nodes] != Q:
        return _fail(case, "nodes", "old nodes not kept as the first nodes")
    fn = g.face_nodes.indices.reshape((2, g.num_faces), order="F")
    for f in range(g.num_faces):
        a, b = Q[fn[0, f]], Q[fn[1, f]]
        if P[g.num_nodes + f] != ((a[0] + b[0]) / 2, (a[1] + b[1]) / 2):
            return _fail(case, "nodes", f"new node of face {f} is not the face midpoint")
    cng, cnh = _cols(g.cell_nodes()), _cols(h.cell_nodes())
    coarse = [[Q[n] for n in c] for c in cng]

    def nested_key():
        # Is the failure exactly the recorded one (np.argwhere lists the shared corner nodes row-major instead of per cell)?
        cf = cf0
        pred = np.empty((3, nc, 4), dtype=int)
        for ti, b in enumerate(((1, 0), (2, 1), (0, 2))):
            loc = np.sort(np.vstack((fn[:, cf[b[0]]], fn[:, cf[b[1]]])), axis=0)
            hits = sorted((r, c) for c in range(nc) for r in range(3) if loc[r, c] == loc[r + 1, c])  # row-major
            if len(hits) != nc:
                return "children-not-nested"
            pred[:, :, ti] = np.vstack(([loc[r, c] for r, c in hits], g.num_nodes + cf[b[0]], g.num_nodes + cf[b[1]]))
        pred[:, :, 3] = g.num_nodes + cf
        pred = pred.reshape((3, 4 * nc))
        same = [sorted(int(v) for v in pred[:, j]) for j in range(4 * nc)] == [sorted(c) for c in cnh]
        return "corner-nodes-row-major" if same else "children-not-nested"

    true_parent = []
    for j in range(4 * nc):
        if len(cnh[j]) != 3:
            return _fail(case, nested_key(), f"new cell {j} has {len(cnh[j])} nodes")
        v = [P[n] for n in cnh[j]]
        cen = (sum(p[0] for p in v) / 3, sum(p[1] for p in v) / 3)
        inside = [c for c in range(nc) if _in_tri(cen, *coarse[c], strict=True)]
        if len(inside) != 1:
            return _fail(case, nested_key(), f"centre of new cell {j} lies in {len(inside)} coarse cells")
        c = inside[0]
        if not all(_in_tri(p, *coarse[c], strict=False) for p in v):
            return _fail(case, nested_key(), f"new cell {j} is not contained in the coarse cell {c} holding its centre")
        if abs(_area2(*v)) * 4 != abs(_area2(*coarse[c])):
            return _fail(case, nested_key(), f"new cell {j} does not have 1/4 of the area of coarse cell {c}")
        true_parent.append(c)
    if sorted(true_parent) != sorted(list(range(nc)) * 4) or len({tuple(sorted(c)) for c in cnh}) != 4 * nc:
        return _fail(case, nested_key(), "some coarse cell does not have exactly four distinct children")
    if h.history[-1:] != ["Refinement"] or h.dim != 2:
        return _fail(case, "history", "history/dim not updated")
    par = [int(p) for p in parent]
    if any(p < 0 or p >= nc for p in par):
        return _fail(case, "parent-map-wrong", "parent index out of range")
    bad = [j for j in range(4 * nc) if par[j] != true_parent[j]]
    if bad:
        key = "parent-map-tiled" if par == [j % nc for j in range(4 * nc)] else "parent-map-wrong"
        return _fail(case, key, f"returned parent of new cell {bad[0]} is {par[bad[0]]} but the cell lies in coarse cell {true_parent[bad[0]]} ({len(bad)} of {4 * nc} wrong)")
    why = _valid_grid(h)
    if why:
        return _fail(case, "invalid-grid", why)
    if not _close(h.cell_volumes.sum(), g.cell_volumes.sum()):
        return _fail(case, "total-measure", f"total area {h.cell_volumes.sum()} != {g.cell_volumes.sum()}")
    if not np.allclose(np.bincount(par, h.cell_volumes, minlength=nc), g.cell_volumes, rtol=1e-9, atol=0):
        return _fail(case, "parent-measure", "children areas do not add up to the parent area")
    return None


def _oracle_sref(case):
    from porepy.grids import refinement

    k = case["kind"]
    if k == "sref1d":
        g = build_base(case["base"])
        h = _call(refinement.refine_grid_1d, g, case["ratio"])
    elif k == "sref2d":
        g, h, _, _, true_parent = _sref2d_grids(case)
    elif k == "srefcart1d":
        g, h = _srefcart_grids(case)
    else:
        g, h = _sref3d_grids(case)
    m = _call(refinement.structured_refinement, g, h)
    if m.shape != (h.num_cells, g.num_cells):
        return _fail(case, "shape", f"mapping has shape {m.shape}, expected {(h.num_cells, g.num_cells)}")
    m = m.tocsr()
    if np.any(m.data != 1):
        return _fail(case, "entries", "entries other than 1")
    cng, cnh = _cols(g.cell_nodes()), _cols(h.cell_nodes())
    G = [_pt(g, i) for i in range(g.num_nodes)]
    H = [_pt(h, i) for i in range(h.num_nodes)]

    def contains(c, p, strict):
        v = [G[n] for n in cng[c]]
        if g.dim == 1:
            ok, s = _on_segment(p, v[0], v[1])
            return ok and ((1e-9 < s < 1 - 1e-9) if strict else True)
        if g.dim == 2:
            return _in_tri(p[:2], *[q[:2] for q in v], strict=strict)
        return _in_tet(p, v, strict)

    for i in range(h.num_cells):
        cols = m.indices[m.indptr[i]:m.indptr[i + 1]]
        if len(cols) != 1:
            return _fail(case, "not-exactly-one", f"fine cell {i} is mapped to {len(cols)} coarse cells")
        c = int(cols[0])
        v = [H[n] for n in cnh[i]]
        cen = tuple(sum(p[d] for p in v) / len(v) for d in range(3))
        if not contains(c, cen, True) or not all(contains(c, p, False) for p in v):
            return _fail(case, "not-containing", f"fine cell {i} is mapped to coarse cell {c}, which does not contain it")
        others = [c2 for c2 in range(g.num_cells) if c2 != c and contains(c2, cen, True)]
        if others:
            return _fail(case, "not-unique", f"centre of fine cell {i} also lies in coarse cells {others}")
        if k == "sref2d" and c != true_parent[i]:
            return _fail(case, "not-containing", f"fine cell {i} is a child of coarse cell {true_parent[i]} but mapped to {c}")
        if k == "srefcart1d" and c != i // case["ratio"]:
            return _fail(case, "index-formula", f"fine cell {i} is mapped to coarse cell {c}, index formula gives {i // case['ratio']}")
        if k == "sref1d" and c != i // case["ratio"]:
            return _fail(case, "not-containing", f"fine cell {i} is a child of coarse cell {i // case['ratio']} but mapped to {c}")
    return None


def _check_extruded(case, g, h, cm, fm, z, zs):
    """extrude_grid's contract for one base grid g, its extrusion h and the returned cell / face maps."""
    L = len(z) - 1
    why = _valid_grid(h)
    if why:
        return _fail(case, "invalid-grid", why)
    nc, nf, nn = g.num_cells, g.num_faces, g.num_nodes
    if h.dim != g.dim + 1 or h.num_cells != nc * L:
        return _fail(case, "num-cells", f"dim {h.dim}, {h.num_cells} cells for {nc} base cells and {L} layers")
    height = abs(z[-1] - z[0])
    if not _close(h.cell_volumes.sum(), g.cell_volumes.sum() * height):
        return _fail(case, "total-measure", f"total measure {h.cell_volumes.sum()} != base {g.cell_volumes.sum()} x height {height}")
    if len(cm) != nc or any(len(row) != L for row in cm):
        return _fail(case, "cell-map-shape", "cell map does not have one entry per layer for every base cell")
    allc = sorted(int(v) for row in cm for v in row)
    if allc != list(range(h.num_cells)):
        return _fail(case, "cell-map-not-bijective", "cell map rows do not partition the new cells (a new cell without exactly one parent)")
    cnh = _cols(h.cell_nodes())
    cng = _cols(g.cell_nodes()) if g.dim > 0 else [[0]]
    for c in range(nc):
        if g.dim > 0:
            base_xy = sorted((Fr(float(g.nodes[0, n])), Fr(float(g.nodes[1, n]))) for n in cng[c])
        else:
            base_xy = [(Fr(float(g.cell_centers[0, 0])), Fr(float(g.cell_centers[1, 0])))]
        for k in range(L):
            j = int(cm[c][k])
            if not _close(h.cell_volumes[j], g.cell_volumes[c] * abs(z[k + 1] - z[k])):
                return _fail(case, "prism-measure", f"new cell {j} (base cell {c}, layer {k}) has measure {h.cell_volumes[j]}, expected {g.cell_volumes[c] * abs(z[k + 1] - z[k])}")
            pts = [_pt(h, n) for n in cnh[j]]
            lo = sorted((p[0], p[1]) for p in pts if p[2] == zs[k])
            hi = sorted((p[0], p[1]) for p in pts if p[2] == zs[k + 1])
            if len(lo) + len(hi) != len(pts) or lo != base_xy or hi != base_xy:
                return _fail(case, "child-not-over-parent", f"new cell {j} is not the prism over base cell {c} between z[{k}] and z[{k + 1}]")
            cc = h.cell_centers[:, j]
            if not (min(z[k], z[k + 1]) < cc[2] < max(z[k], z[k + 1])):
                return _fail(case, "child-not-over-parent", f"centre of new cell {j} is outside layer {k}")
            if g.dim > 0 and not (np.allclose(cc[:2], g.cell_centers[:2, c], rtol=1e-9, atol=1e-9)):
                return _fail(case, "child-not-over-parent", f"centre of new cell {j} is not above the centre of base cell {c}")
    if g.dim == 0:
        if len(fm) != 0:
            return _fail(case, "face-map-shape", "face map of a point grid is not empty")
    else:
        if len(fm) != nf or any(len(row) != L for row in fm):
            return _fail(case, "face-map-shape", "face map does not have one entry per layer for every base face")
        fnh, fng = _cols(h.face_nodes), _cols(g.face_nodes)
        seen = set()
        for f in range(nf):
            base_xy = sorted((Fr(float(g.nodes[0, n])), Fr(float(g.nodes[1, n]))) for n in fng[f])
            for k in range(L):
                j = int(fm[f][k])
                if j in seen or not (0 <= j < h.num_faces):
                    return _fail(case, "face-map-not-injective", f"new face {j} listed twice or out of range")
                seen.add(j)
                pts = [_pt(h, n) for n in fnh[j]]
                lo = sorted((p[0], p[1]) for p in pts if p[2] == zs[k])
                hi = sorted((p[0], p[1]) for p in pts if p[2] == zs[k + 1])
                if len(lo) + len(hi) != len(pts) or lo != base_xy or hi != base_xy:
                    return _fail(case, "face-not-over-parent", f"new face {j} is not the extrusion of base face {f} in layer {k}")
                if not _close(h.face_areas[j], g.face_areas[f] * abs(z[k + 1] - z[k])):
                    return _fail(case, "face-measure", f"new face {j} has area {h.face_areas[j]}")
        per_face = np.asarray(abs(h.cell_faces).sum(axis=1)).ravel()
        has_frac = bool(np.any(g.tags["fracture_faces"]) or np.any(g.tags["tip_faces"]))
        if not has_frac and not np.array_equal(h.tags["domain_boundary_faces"].astype(bool), per_face == 1):
            return _fail(case, "boundary-tags", "domain_boundary_faces tag differs from the faces with exactly one cell")
        if not has_frac:
            want = np.zeros(h.num_nodes, dtype=bool)
            for f in np.where(per_face == 1)[0]:
                want[fnh[f]] = True
            if not np.array_equal(h.tags["domain_boundary_nodes"].astype(bool), want):
                return _fail(case, "boundary-tags", "domain_boundary_nodes tag differs from the nodes of the boundary faces")
        for tag in ("fracture_faces", "tip_faces", "domain_boundary_faces"):
            for f in range(nf):
                if any(bool(h.tags[tag][int(j)]) != bool(g.tags[tag][f]) for j in fm[f]):
                    return _fail(case, "tags-not-inherited", f"tag {tag} of base face {f} is not inherited by its extruded faces")
    return None


def _oracle_extrude(case):
    from porepy.grids.grid_extrusion import extrude_grid

    g = build_base(case["base"])
    z = np.array([float(Fr(v)) for v in case["z"]])
    try:
        h, cm, fm = extrude_grid(g, z)
    except Exception as e:
        if g.dim == 1 and isinstance(e, ValueError) and "consistently oriented" in str(e):
            first = g.cell_faces.tocsc().data.reshape((2, -1), order="F")[0]
            if np.any(first > 0) and np.any(first < 0):
                return _fail(case, "line-stored-face-order", "valid 1-d base grid whose cells do not all store their faces in the same "
                             f"sign order raised {type(e).__name__}: {e}")
        return _fail(case, "raises", f"valid input raised {type(e).__name__}: {e}")
    return _check_extruded(case, g, h, cm, fm, z, [Fr(v) for v in case["z"]])


MDG_SHAPES = [
    {"n": [2, 2], "fracs": [[[0, 2], [1, 1]]]},
    {"n": [3, 3], "fracs": [[[1, 2], [1, 1]]]},
    {"n": [3, 2], "fracs": [[[1, 1], [0, 2]]]},
    {"n": [4, 4], "fracs": [[[1, 3], [2, 2]], [[2, 2], [1, 3]]]},
    {"n": [3, 3], "fracs": [[[0, 2], [1, 1]], [[2, 2], [1, 3]]]},
]


def _build_mdg(case):
    import porepy as pp

    mdg = pp.meshing.cart_grid([np.array(f, dtype=float) for f in case["fracs"]], case["n"])
    mdg.compute_geometry()
    return mdg


def _oracle_extrude_mdg(case):
    """extrude_mdg: every subdomain obeys extrude_grid's contract and the new interface face-cell maps are the old pairs
    (low-dim cell, high-dim face) copied layer by layer through the returned cell / face maps."""
    from porepy.grids.grid_extrusion import extrude_mdg
    from porepy.numerics.linalg.matrix_operations import sparse_array_to_row_col_data

    mdg = _build_mdg(case)
    z = np.array([float(Fr(v)) for v in case["z"]])
    zs = [Fr(v) for v in case["z"]]
    L = len(z) - 1
    try:
        new, gmap = extrude_mdg(mdg, z)
    except Exception as e:
        return _fail(case, "raises", f"valid input raised {type(e).__name__}: {e}")
    if len(new.subdomains()) != len(mdg.subdomains()) or len(new.interfaces()) != len(mdg.interfaces()):
        return _fail(case, "num-grids", "number of subdomains / interfaces changed")
    for sd in mdg.subdomains():
        if sd not in gmap or gmap[sd].grid not in new.subdomains():
            return _fail(case, "grid-map", "a subdomain has no extruded counterpart in the new md-grid")
        r = _check_extruded(case, sd, gmap[sd].grid, gmap[sd].cell_map, gmap[sd].face_map, z, zs)
        if r:
            return r
    for intf, data in mdg.interfaces(return_data=True):
        hi, lo = mdg.interface_to_subdomain_pair(intf)
        hi_n, lo_n = gmap[hi].grid, gmap[lo].grid
        cand = [i for i in new.interfaces() if new.interface_to_subdomain_pair(i) == (hi_n, lo_n)]
        if len(cand) != 1:
            return _fail(case, "interface-map", "an interface has no unique extruded counterpart")
        cells, faces, _ = sparse_array_to_row_col_data(data["face_cells"])
        want = sorted((int(gmap[lo].cell_map[c][k]), int(gmap[hi].face_map[f][k])) for c, f in zip(cells, faces) for k in range(L))
        fc = new.interface_data(cand[0])["face_cells"]
        if fc.shape != (lo_n.num_cells, hi_n.num_faces):
            return _fail(case, "interface-face-cells", "face_cells of the extruded interface has the wrong shape")
        r2, c2, _ = sparse_array_to_row_col_data(fc)
        got = sorted((int(a), int(b)) for a, b in zip(r2, c2))
        if got != want:
            return _fail(case, "interface-face-cells", "face_cells of the extruded interface is not the layer-wise copy of the old one")
        for cnew, fnew in got:
            if not np.allclose(lo_n.cell_centers[:, cnew], hi_n.face_centers[:, fnew], rtol=1e-9, atol=1e-9):
                return _fail(case, "interface-face-cells", f"new low-dim cell {cnew} does not coincide with new high-dim face {fnew}")
        mg = cand[0]
        if mg.num_cells != intf.num_cells * L or mg.num_sides() != intf.num_sides() or mg.dim != intf.dim + 1:
            return _fail(case, "mortar-grid", f"extruded mortar grid has {mg.num_cells} cells / {mg.num_sides()} sides")
        if not _close(mg.cell_volumes.sum(), intf.cell_volumes.sum() * abs(z[-1] - z[0])):
            return _fail(case, "mortar-grid", "extruded mortar grid measure != old measure x height")
    return None


def oracle(case):
    try:
        return _oracle(case)
    except _Raised as e:
        return _fail(case, e.key, f"valid input: {e}")


def _oracle_sref_entry(case):
    from porepy.grids import refinement

    g, h = _call(_sref_entry_grids, case)
    want = "point" if g.dim == 0 else ("sweep" if (g.num_cells < h.num_cells and g.dim == h.dim) else "assert")
    try:
        m = refinement.structured_refinement(g, h)
    except AssertionError:
        return None if want == "assert" else _fail(case, "entry-raises", f"valid pair of grids ({want}) raised AssertionError")
    except Exception as e:
        return _fail(case, "entry-wrong-error", f"{case['variant']}: raised {type(e).__name__}: {e}")
    if want == "assert":
        return _fail(case, "entry-accepts", f"{case['variant']}: grids in the wrong order / of unequal dimension were accepted "
                     f"(coarse dim {g.dim}, {g.num_cells} cells; fine dim {h.dim}, {h.num_cells} cells)")
    if want == "point" and (m.shape != (1, 1) or m.toarray()[0, 0] != 1):
        return _fail(case, "entry-point", "point grid does not give the 1x1 identity mapping")
    if want == "sweep" and m.shape != (h.num_cells, g.num_cells):
        return _fail(case, "shape", f"mapping has shape {m.shape}")
    return None


def _oracle(case):
    k = case["kind"]
    if k == "sref_entry":
        return _oracle_sref_entry(case)
    if k in ("refine1d", "refine1d_twice"):
        return _oracle_refine1d(case)
    if k == "refine1d":
        return _oracle_refine1d(case)
    if k == "remesh1d":
        return _oracle_remesh1d(case)
    if k == "tri":
        return _oracle_tri(case)
    if k in ("sref1d", "sref2d", "sref3d", "srefcart1d"):
        return _oracle_sref(case)
    if k == "extrude":
        return _oracle_extrude(case)
    if k == "extrude_mdg":
        return _oracle_extrude_mdg(case)
    if k == "extrude_err":
        from porepy.grids.grid_extrusion import extrude_grid

        g = build_base(case["base"])
        want = "at most 2" if g.dim > 2 else "positive or negative direction"
        try:
            extrude_grid(g, np.array([float(Fr(v)) for v in case["z"]]))
        except ValueError as e:
            if want in str(e):
                return None
            return _fail(case, "wrong-error", f"refused with an unrelated ValueError ({e}) instead of the documented one ('...{want}...')")
        except Exception as e:
            return _fail(case, "wrong-error", f"mixed-sign z / 3-d base raised {type(e).__name__}")
        return _fail(case, "no-error", "mixed-sign z / 3-d base was accepted")
    raise ValueError(k)


# ----------------------------------------------------------------------------- bookkeeping
def _ncells(base):
    if base["type"] == "tet":
        return 6 * base["n"][0] * base["n"][1] * base["n"][2]
    if base["type"] == "frac":
        f = base["fracs"][base["which"]]
        return int(abs(f[0][1] - f[0][0]) + abs(f[1][1] - f[1][0]))
    return {"line": lambda b: len(b["cells"]), "tri": lambda b: len(b["tris"]), "cart": lambda b: b["nx"] * b["ny"], "point": lambda b: 1}[base["type"]](base)


def nontrivial(case):
    k = case["kind"]
    if k in ("extrude_err", "sref3d", "extrude_mdg", "srefcart1d", "sref_entry"):
        return k != "extrude_err"
    if k == "refine1d_twice":
        return _ncells(case["base"]) > 1 and case["r1"] * case["r2"] > 1
    many = _ncells(case["base"]) > 1
    if k in ("refine1d", "sref1d"):
        return many and case["ratio"] > 1
    if k == "remesh1d":
        return case["n"] > 2
    if k == "extrude":
        return many and len(case["z"]) > 2
    return many


def shrink_candidates(case):
    if case["kind"] in ("refine1d", "sref1d") and case["ratio"] > 2:
        yield dict(case, ratio=case["ratio"] - 1)
    if case["kind"] in ("extrude",) and len(case["z"]) > 2:
        yield dict(case, z=case["z"][:-1])
        yield dict(case, z=case["z"][1:])
    b = case.get("base")
    if b and b["type"] == "tri" and len(b["tris"]) > 1:
        for i in range(len(b["tris"])):
            tr = b["tris"][:i] + b["tris"][i + 1:]
            used = sorted({v for t in tr for v in t})
            if len(used) < 3:
                continue
            ren = {v: i2 for i2, v in enumerate(used)}
            yield dict(case, base={"type": "tri", "nodes": [b["nodes"][v] for v in used], "tris": [[ren[v] for v in t] for t in tr]})


def stats(cases, impl_outs):
    kinds, bases, ratios, layers = {}, {}, {}, {}
    for c in cases:
        kinds[c["kind"]] = kinds.get(c["kind"], 0) + 1
        if "base" in c:
            key = f"{c['base']['type']}:{min(_ncells(c['base']), 10)}"
            bases[key] = bases.get(key, 0) + 1
        if "ratio" in c and c["kind"] != "sref_entry":
            ratios[str(c["ratio"])] = ratios.get(str(c["ratio"]), 0) + 1
        if "z" in c:
            key = f"{len(c['z']) - 1}{'-' if Fr(c['z'][-1]) < 0 else '+'}"
            layers[key] = layers.get(key, 0) + 1
    strata = {
        "scale_up_2^20": sum(1 for c in cases if c.get("base", {}).get("scale") == "up"),
        "scale_down_2^-8": sum(1 for c in cases if c.get("base", {}).get("scale") == "down"),
        "single_cell_base": sum(1 for c in cases if "base" in c and _ncells(c["base"]) == 1),
        "ratio_1_identity_refinement": sum(1 for c in cases if c.get("ratio") == 1 or (c["kind"] == "refine1d_twice" and 1 in (c["r1"], c["r2"]))),
        "repeated_refinement": sum(1 for c in cases if c["kind"] == "refine1d_twice"),
        "sref_entry_variants": {v: sum(1 for c in cases if c["kind"] == "sref_entry" and c["variant"] == v) for v in ("point", "order", "dim", "ok")},
        "extrude_err_3d_base": sum(1 for c in cases if c["kind"] == "extrude_err" and c["base"]["type"] == "tet"),
        "extrude_err_mixed_sign_z": sum(1 for c in cases if c["kind"] == "extrude_err" and c["base"]["type"] != "tet"),
        "permuted_node_or_face_numbering": sum(1 for c in cases if c.get("base", {}).get("type") == "line" and ("faces" in c["base"] or [sorted(x) for x in c["base"]["cells"]] != sorted(sorted(x) for x in c["base"]["cells"]))),
        "single_layer_extrusion": sum(1 for c in cases if c["kind"] == "extrude" and len(c["z"]) == 2),
        "remesh_two_nodes": sum(1 for c in cases if c["kind"] == "remesh1d" and c["n"] == 2),
    }
    return {"kinds": kinds, "strata": strata, "base_type:cells(max 10)": dict(sorted(bases.items())), "ratios": ratios, "layers(sign)": layers,
            "errors": sum(1 for o in impl_outs if isinstance(o, dict) and "err" in o),
            "lines_with_permuted_face_numbering": sum(1 for c in cases if c.get("base", {}).get("type") == "frac" or "faces" in c.get("base", {})),
            "split_node_lines": sum(1 for c in cases if c.get("base", {}).get("type") == "line" and len(c["base"]["nodes"]) > len(c["base"]["cells"]) + 1)}
