"""C27 Global projection operators are consistent permutations.

A case = one mixed-dimensional grid (built from a small JSON spec), a vector dimension, the ordered list of
subdomains handed to SubdomainProjections / MortarProjections / BoundaryProjection / Trace / Divergence,
several sub-lists for restriction / prolongation, and an ordered list of interfaces.  Subdomains and interfaces
are referred to by their position in `mdg.subdomains()` / `mdg.interfaces()` of the freshly built md-grid.
"""
import json
import os
from fractions import Fraction

from harness.common import frac, err_kind, deep_compare

PID = "C27"
THEOREMS = [
    "PorepyVerif.C27.kron_dim",
    "PorepyVerif.C27.expandNd_index",
    "PorepyVerif.C27.kron_triplets",
    "PorepyVerif.C27.projections_are_blocks",
    "PorepyVerif.C27.blocks_disjoint_contiguous_cover",
    "PorepyVerif.C27.block_offsets",
    "PorepyVerif.C27.restrict_prolong_id",
    "PorepyVerif.C27.prolong_restrict_mask",
    "PorepyVerif.C27.prolong_all_is_perm",
    "PorepyVerif.C27.prolong_follows_list_order",
    "PorepyVerif.C27.matrices_act_as_index_maps",
    "PorepyVerif.C27.mortar_block_offsets",
    "PorepyVerif.C27.mortar_to_mortar_block_offsets",
    "PorepyVerif.C27.mortar_rejections",
    "PorepyVerif.C27.boundary_projection_is_restriction",
    "PorepyVerif.C27.divergence_is_block_diagonal",
    "PorepyVerif.C27.trace_is_block_placement",
    "PorepyVerif.C27.trace_other_cases",
    "PorepyVerif.C27.error_paths",
    "PorepyVerif.C27.sign_block_offsets",
    "PorepyVerif.C27.boundary_tags_satisfy_hypothesis",
    "PorepyVerif.C27.boundary_projection_from_tags",
    "PorepyVerif.C27.entry_point_checks",
    "PorepyVerif.C27.driver_hypotheses_sound",
]
LEAN_MODULES = ["PorepyVerif.C27.Props"]
AUDIT = "PorepyVerif/C27/Audit.lean"
DRIVER = "PorepyVerif/C27/Driver.lean"
N = {"quick": 110, "thorough": 4000}
RULE = ("md-grids: 2-d Cartesian grids (1-4 x 1-4 cells) with 0-3 axis-aligned fractures (crossing, touching, partial), optionally "
        "with the 2-d grid removed (1-d/0-d md-grid), 1-d fracture grids refined (non-matching interfaces, weights 1/2), point wells "
        "(codimension-2 interfaces); 3-d Cartesian grids with 0-3 planar fractures; single unfractured grids of dimension 1-3; and "
        "size-only stub grids (arbitrary cell/face counts, including the zero counts that make the offset code raise). Per case: "
        "vector dimension 1-3, a random ordered sub-list of the subdomains as the projection object's list (full list, permutation, "
        "subset, empty; sometimes with a duplicate), 2-4 ordered sub-lists for restriction/prolongation (permutation of all, subset, "
        "empty, sometimes a repeated or unknown grid), a random ordered sub-list of interfaces (sometimes mixed codimension), the 8 "
        "mortar projections called in random order on ONE object (cache paths). Explicit strata (counted in stats): reversed full list, "
        "empty subdomain list, single listed grid, duplicated interface, tuple instead of list argument, repeated calls (cache), no "
        "interfaces, one-cell grids, large 1-d grids / large stub counts, zero-count stubs. The Lean driver also evaluates the decidable "
        "hypotheses of the theorems (well-formed sizes, boundary mask length, distinct in-range boundary faces, local mortar entries "
        "fit their neighbour, one codimension, side counts add up) on every case and the result is compared. non-trivial = >=2 listed subdomains in non-sorted order "
        "or dim>1 or >=2 interfaces; distinct = distinct (grid spec, dim, lists)")
TRUSTED = [
    "modelled, not verified: scipy.sparse (coo/csc construction, bmat, kron, matrix products) — the model works on index maps and "
    "triplets; python dict look-up by grid object is modelled as look-up by list position (driver translates ids to positions)",
    "grid data (cell/face counts, boundary tags, local mortar matrices of each MortarGrid, trace/divergence of each grid) are inputs "
    "read from the real grids; their correctness is the subject of other properties (C12-C26)",
    "the model follows the PROPERTY for codimension-2 primaries (non-mortar size = cells); the code differs there (recorded finding)",
]
EXPLANATION = ("FULL: model = expand_indices_nd, the offset loops of _cell_projections/_face_projections (ind[-1]+1, sd.dim>0 guard), "
               "dictionary selection + bmat, sparse_kronecker_product on triplets, _construct_projection (all four to/from x primary/"
               "secondary variants, codim checks, zero blocks), sign_of_mortar_sides, BoundaryProjection with BoundaryGrid.projection, "
               "Trace, Divergence. Theorems: for ALL size lists, sub-lists, orders and dims the per-grid projections are consecutive "
               "ranges at prefix-sum offsets (disjoint, contiguous, covering), R(Pw)=w, P(Rv)=mask, permutation in list order, Kronecker "
               "structure i->i*dim+k, mortar blocks sit at (row offset of the subdomain, column offset of the interface), boundary "
               "projection is a restriction with distinct targets; Divergence = blockdiag(kron(div_p, I_dim)) and Trace = local traces "
               "placed at (face offset, cell offset) of the listed subdomains in list order; sign_of_mortar_sides = per-interface +-1 "
               "runs at the interface offsets (self-inverse); error_paths: IndexError iff a grid has no cells (cell version) / a grid of "
               "positive dimension has no faces (face version), KeyError iff a requested grid is not listed, nothing else raises. "
               "Hypotheses: boundary faces come from np.where on the tag mask (modelled, proved increasing/in range, so that hypothesis is "
               "discharged); the remaining input conditions (well-formed sizes, local mortar entries fit, one codimension, side counts) are "
               "evaluated by the driver on every case (driver_hypotheses_sound) and compared. Entry points: constructor uniqueness check and "
               "the list-argument check are modelled and characterised (entry_point_checks). "
               "Correspondence compares every matrix exactly (shape + triplets).")
ASSUMPTIONS = [
    "well-formed grid data (decidable, hypothesis of the theorems): every grid has >=1 cell; a 0-d grid has no faces, a grid of positive "
    "dimension has >=1 face; vector dimension >= 1; boundary face indices are distinct and < num_faces",
    "local mortar weights are dyadic (1, 1/2) so binary64 values are transported exactly",
]

_PP = {}
_CACHE = {}
_LAST = {"spec": None, "uses": 0}

MORTAR = {
    "mortar_to_primary_int": (False, True),
    "mortar_to_primary_avg": (False, True),
    "primary_to_mortar_int": (True, True),
    "primary_to_mortar_avg": (True, True),
    "mortar_to_secondary_int": (False, False),
    "mortar_to_secondary_avg": (False, False),
    "secondary_to_mortar_int": (True, False),
    "secondary_to_mortar_avg": (True, False),
}
SUBS = ["cell_restriction", "cell_prolongation", "face_restriction", "face_prolongation"]


def _pp():
    if not _PP:
        import numpy as np
        import scipy.sparse as sps
        import porepy as pp
        from porepy.grids.mortar_grid import MortarSides

        class Stub:
            """size-only stand-in for a grid: what SubdomainProjections reads (num_cells, num_faces, dim)"""
            def __init__(self, c, f, d):
                self.num_cells, self.num_faces, self.dim = c, f, d

        _PP.update(np=np, sps=sps, pp=pp, sides=MortarSides, Stub=Stub)
    return _PP


# ----------------------------------------------------------------------------- md-grid construction
class _World:
    def __init__(self, spec):
        P = _pp()
        np, sps, pp = P["np"], P["sps"], P["pp"]
        kind = spec["kind"]
        self.stub = kind == "stub"
        self.mdg = None
        if kind == "stub":
            self.sds = [P["Stub"](*t) for t in spec["grids"]]
            self.intfs = []
            return
        if kind == "single":
            g = pp.CartGrid(np.array(spec["n"]))
            g.compute_geometry()
            mdg = pp.meshing.subdomains_to_mdg([[g]])
        else:
            fr = [np.array(f, dtype=float) for f in spec["fracs"]]
            mdg = pp.meshing.cart_grid(fr, np.array(spec["n"]))
        for k in spec.get("refine", []):
            ones = mdg.subdomains(dim=1)
            g = ones[k % len(ones)]
            mdg.replace_subdomains_and_interfaces({g: pp.refinement.refine_grid_1d(g, ratio=2)})
        for (si, c) in spec.get("wells", []):
            cands = [s for s in mdg.subdomains() if s.dim > 0]
            host = cands[si % len(cands)]
            c = c % host.num_cells
            xc = host.cell_centers[:, c].reshape(3, 1)
            pg = pp.PointGrid(xc)
            pg.compute_geometry()
            side = pp.PointGrid(xc)
            side.compute_geometry()
            mdg.add_subdomains([pg])
            ps = sps.csc_matrix((np.ones(1), (np.array([0]), np.array([c]))), shape=(1, host.num_cells))
            mg = pp.MortarGrid(0, {P["sides"].NONE_SIDE: side}, ps, codim=2)
            mdg.add_interface(mg, (host, pg), ps)
        if spec.get("drop_top"):
            mdg.remove_subdomain(mdg.subdomains(dim=mdg.dim_max())[0])
        self.mdg = mdg
        self.sds = list(mdg.subdomains())
        self.intfs = list(mdg.interfaces())


def _world(spec):
    key = json.dumps(spec, sort_keys=True)
    w = _CACHE.get(key)
    if w is None:
        if len(_CACHE) > 200:
            _CACHE.clear()
        w = _CACHE[key] = _World(spec)
    return w


# ----------------------------------------------------------------------------- generator
def _frac2d(rng, nx, ny, used):
    for _ in range(20):
        if rng.random() < 0.5 and ny >= 2:
            j = rng.randint(1, ny - 1)
            if ("h", j) in used:
                continue
            a = rng.randint(0, nx - 1)
            b = rng.randint(a + 1, nx)
            used.add(("h", j))
            return [[a, b], [j, j]]
        if nx >= 2:
            i = rng.randint(1, nx - 1)
            if ("v", i) in used:
                continue
            a = rng.randint(0, ny - 1)
            b = rng.randint(a + 1, ny)
            used.add(("v", i))
            return [[i, i], [a, b]]
    return None


def _frac3d(rng, n, used):
    for _ in range(20):
        ax = rng.randrange(3)
        if n[ax] < 2:
            continue
        p = rng.randint(1, n[ax] - 1)
        if (ax, p) in used:
            continue
        used.add((ax, p))
        o = [a for a in range(3) if a != ax]
        lo, hi = [], []
        for a in o:
            if rng.random() < 0.6:
                lo.append(0)
                hi.append(n[a])
            else:
                x = rng.randint(0, n[a] - 1)
                lo.append(x)
                hi.append(rng.randint(x + 1, n[a]))
        pts = [[lo[0], lo[1]], [hi[0], lo[1]], [hi[0], hi[1]], [lo[0], hi[1]]]
        rows = [[0] * 4 for _ in range(3)]
        for c, pt in enumerate(pts):
            rows[ax][c] = p
            rows[o[0]][c] = pt[0]
            rows[o[1]][c] = pt[1]
        return rows
    return None


def _gen_spec(rng, tier):
    r = rng.random()
    if r < 0.04:  # size-1 stratum: one-cell grids
        d = rng.choice([1, 2, 3])
        return {"kind": "single", "n": [1] * d}
    if r < 0.07:  # large-scale stratum: long 1-d grid / big stub counts
        if rng.random() < 0.5:
            return {"kind": "single", "n": [rng.randint(40, 90)]}
        return {"kind": "stub", "grids": [[rng.randint(60, 150), rng.randint(60, 200), rng.choice([1, 2, 3])] for _ in range(rng.randint(1, 3))]}
    r = rng.random()
    if r < 0.12:
        k = rng.randint(0, 6)
        grids = []
        for _ in range(k):
            d = rng.choice([0, 1, 2, 3])
            c = rng.choice([1, 1, 2, 3, 5, 8])
            f = 0 if d == 0 else rng.choice([1, 2, 3, 4, 7, 12])
            if rng.random() < 0.08:  # malformed sizes: the offset code raises IndexError
                if rng.random() < 0.5:
                    c = 0
                elif d > 0:
                    f = 0
            grids.append([c, f, d])
        return {"kind": "stub", "grids": grids}
    if r < 0.22:
        d = rng.choice([1, 2, 3])
        return {"kind": "single", "n": [rng.randint(1, 4 if d < 3 else 2) for _ in range(d)]}
    if r < 0.34:
        n = [rng.randint(1, 2 if tier == "quick" else 3) for _ in range(3)]
        used, fr = set(), []
        for _ in range(rng.randint(0, 3)):
            f = _frac3d(rng, n, used)
            if f:
                fr.append(f)
        return {"kind": "cart3d", "n": n, "fracs": fr}
    nx, ny = rng.randint(1, 4), rng.randint(1, 4)
    used, fr = set(), []
    for _ in range(rng.randint(0, 3)):
        f = _frac2d(rng, nx, ny, used)
        if f:
            fr.append(f)
    spec = {"kind": "cart2d", "n": [nx, ny], "fracs": fr}
    if fr and rng.random() < 0.35:
        spec["refine"] = [rng.randrange(4) for _ in range(rng.randint(1, 2))]
    if rng.random() < 0.3:
        spec["wells"] = [[rng.randrange(4), rng.randrange(16)] for _ in range(rng.randint(1, 3))]
    if fr and rng.random() < 0.2:
        spec["drop_top"] = True
    return spec


def _valid_spec(spec):
    try:
        w = _world(spec)
        return len(w.sds) <= 14 and sum(g.num_faces for g in w.sds) <= 160
    except Exception:
        return False


def _sublist(rng, n, allow_empty=True):
    """random ordered sub-list of range(n)"""
    idx = list(range(n))
    r = rng.random()
    if n == 0 or (allow_empty and r < 0.07):
        return []
    if r < 0.3:
        return idx
    rng.shuffle(idx)
    if r < 0.6:
        return idx
    return idx[: rng.randint(1, n)]


def gen_case(rng, tier):
    if _LAST["spec"] is not None and _LAST["uses"] < 3 and rng.random() < 0.7:
        spec = _LAST["spec"]
        _LAST["uses"] += 1
    else:
        spec = None
        for _ in range(10):
            s = _gen_spec(rng, tier)
            if _valid_spec(s):
                spec = s
                break
        if spec is None:
            spec = {"kind": "cart2d", "n": [2, 2], "fracs": [[[0, 2], [1, 1]], [[1, 1], [0, 2]]]}
        _LAST["spec"], _LAST["uses"] = spec, 0
    w = _world(spec)
    ns, ni = len(w.sds), len(w.intfs)
    dim = rng.choice([1, 1, 2, 3])
    all_ = _sublist(rng, ns)
    if all_ and rng.random() < 0.05:  # duplicate subdomain: the constructor must refuse
        all_ = all_ + [rng.choice(all_)]
    sels = []
    base = list(dict.fromkeys(all_))
    for _ in range(rng.randint(2, 4)):
        s = [base[i] for i in _sublist(rng, len(base))]
        r = rng.random()
        if r < 0.06 and s:
            s = s + [rng.choice(s)]  # repeated grid in the sub-list
        elif r < 0.12:
            others = [i for i in range(ns) if i not in base] or [ns + 3]
            s = s + [rng.choice(others)]  # a grid unknown to the projection object -> KeyError
            rng.shuffle(s)
        sels.append(s)
    if base:
        p = base[:]
        rng.shuffle(p)
        sels.append(p)  # always one full permutation
    # interfaces: mostly one codimension (the code rejects mixtures), sometimes everything
    by_codim = {}
    for k, it in enumerate(w.intfs):
        by_codim.setdefault(int(it.codim), []).append(k)
    intfs = []
    if ni:
        if len(by_codim) > 1 and rng.random() < 0.2:
            pool = list(range(ni))
        else:
            cods = sorted(by_codim)
            wts = [3 if c == 2 else 1 for c in cods]
            pool = by_codim[rng.choices(cods, wts)[0]]
        intfs = [pool[i] for i in _sublist(rng, len(pool))]
    order = list(MORTAR)
    rng.shuffle(order)
    sub_order = list(SUBS)
    rng.shuffle(sub_order)
    case = {"grid": spec, "dim": dim, "all": all_, "sels": sels, "intfs": intfs, "mortar_order": order, "sub_order": sub_order}
    # explicit corner-case strata (counted in stats)
    r = rng.random()
    if r < 0.06 and ns:
        case.update(stratum="reversed_full_list", all=list(range(ns))[::-1], sels=[list(range(ns)), list(range(ns))[::-1], [ns - 1]])
    elif r < 0.10:
        case.update(stratum="empty_subdomain_list", all=[], sels=[[], []])
    elif r < 0.15 and ns:
        one = rng.randrange(ns)
        case.update(stratum="single_listed_grid", all=[one], sels=[[one], []])
    elif r < 0.20 and intfs:
        case.update(stratum="duplicate_interface", intfs=intfs + [rng.choice(intfs)])
    elif r < 0.26 and not _has_dup(all_):
        case.update(stratum="tuple_argument", tuple=[rng.randrange(len(sels))])
    elif r < 0.33:
        names = list(MORTAR)
        rng.shuffle(names)
        case.update(stratum="repeated_calls", repeat=True, mortar_repeat=names[: rng.randint(2, 8)])
    elif r < 0.36:
        case.update(stratum="no_interfaces", intfs=[])
    return case


# ----------------------------------------------------------------------------- canonical forms
def _canon(m):
    """scipy sparse / SparseArray -> {"shape", "trip"}: sorted triplets, duplicates summed, zeros dropped, exact values"""
    P = _pp()
    if hasattr(m, "_mat"):
        m = m._mat
    c = P["sps"].coo_matrix(m)
    acc = {}
    for r, cc, v in zip(c.row.tolist(), c.col.tolist(), c.data.tolist()):
        acc[(r, cc)] = acc.get((r, cc), Fraction(0)) + Fraction(v)
    return {"shape": [int(c.shape[0]), int(c.shape[1])], "trip": [[r, cc, frac(v)] for (r, cc), v in sorted(acc.items()) if v != 0]}


def _canon_model(o):
    if not isinstance(o, dict) or "trip" not in o:
        return o
    acc = {}
    for r, c, v in o["trip"]:
        acc[(r, c)] = acc.get((r, c), Fraction(0)) + Fraction(v)
    return {"shape": o["shape"], "trip": [[r, c, frac(v)] for (r, c), v in sorted(acc.items()) if v != 0]}


def _trips(m):
    return _canon(m)["trip"]


def _has_dup(l):
    return len(set(l)) < len(l)


def _listed(w, case):
    return [w.sds[i] for i in case["all"]]


def _sel(w, case, s):
    P = _pp()
    return [w.sds[i] if i < len(w.sds) else P["Stub"](1, 1, 1) for i in s]


# ----------------------------------------------------------------------------- real code
def impl_run(case):
    P = _pp()
    pp = P["pp"]
    w = _world(case["grid"])
    dim = case["dim"]
    subs = _listed(w, case)
    out = []
    try:
        proj = pp.ad.SubdomainProjections(subs, dim)
        out.append("ok")
    except Exception as e:
        return [err_kind(e)]
    bad = any(g.num_cells == 0 or (g.dim > 0 and g.num_faces == 0) for g in subs)
    for k, s in enumerate(case["sels"]):
        arg = _sel(w, case, s)
        if k in case.get("tuple", []):
            arg = tuple(arg)  # the wrappers insist on a list
        res = {}
        for kind in case.get("sub_order", SUBS):  # which method builds the cached per-grid projections varies
            try:
                r = getattr(proj, kind)(arg)
                if case.get("repeat"):  # second call goes through the cached per-grid projections
                    r = getattr(proj, kind)(arg)
                res[kind] = _canon(r)
            except Exception as e:
                res[kind] = err_kind(e)
        out += [res[kind] for kind in SUBS]
    if w.stub:
        out.append({"grids": not bad, "dim": True, "mortar": [], "sign": True})
        return out
    mdg = w.mdg
    intfs = [w.intfs[k] for k in case["intfs"]]
    mp = pp.ad.MortarProjections(mdg, subs, intfs, dim)
    res = {}
    for name in list(case["mortar_order"]) + list(case.get("mortar_repeat", [])):  # repeats hit the cache
        try:
            res[name] = _canon(getattr(mp, name)())
        except Exception as e:
            res[name] = err_kind(e)
    out += [res[name] for name in MORTAR]
    try:
        out.append([frac(x) for x in mp.sign_of_mortar_sides()._mat.diagonal()] if intfs else [])
    except Exception as e:
        out.append(err_kind(e))
    try:
        bp = pp.ad.BoundaryProjection(mdg, subs, dim)
        out.append({"s2b": _canon(bp.subdomain_to_boundary.parse(mdg)), "b2s": _canon(bp.boundary_to_subdomain.parse(mdg))})
    except Exception as e:
        out.append(err_kind(e))
    try:
        out.append(_canon(pp.ad.Trace(subs, dim).trace))
    except Exception as e:
        out.append(err_kind(e))
    try:
        out.append(_canon(pp.ad.Divergence(subs, dim).parse(mdg)) if subs else {"shape": [0, 0], "trip": []})
    except Exception as e:
        out.append(err_kind(e))
    # the decidable hypotheses of the theorems, as they must come out for data read from real grids
    mixed = len({int(i.codim) for i in intfs}) > 1
    out.append({"grids": True, "dim": True, "mortar": [not mixed] * len(MORTAR), "sign": True})
    return out


# ----------------------------------------------------------------------------- model ops
def _grid_json(w, g):
    if w.stub:
        return {"cells": g.num_cells, "faces": g.num_faces, "gdim": g.dim, "btags": []}
    return {"cells": int(g.num_cells), "faces": int(g.num_faces), "gdim": int(g.dim),
            "btags": [int(b) for b in g.tags["domain_boundary_faces"]]}


def _intf_json(w, case, k, name):
    P = _pp()
    it = w.intfs[k]
    pr, se = w.mdg.interface_to_subdomain_pair(it)
    pos = {id(w.sds[i]): p for p, i in reversed(list(enumerate(case["all"])))}
    d = {"cells": int(it.num_cells), "codim": int(it.codim), "prim": pos.get(id(pr)), "sec": pos.get(id(se)),
         "sides": int(it.num_sides()), "left": 0, "right": 0}
    if it.num_sides() == 2:
        d["left"] = int(it.side_grids[P["sides"].LEFT_SIDE].num_cells)
        d["right"] = int(it.side_grids[P["sides"].RIGHT_SIDE].num_cells)
    if name is not None:
        d["mat"] = _trips(getattr(it, name)(1))
    return d


def model_ops(case):
    w = _world(case["grid"])
    subs = _listed(w, case)
    ops = [{"op": "init", "dim": case["dim"], "unique": True, "ids": case["all"], "grids": [_grid_json(w, g) for g in subs]}]
    if _has_dup(case["all"]):
        return ops
    for k, s in enumerate(case["sels"]):
        for kind in SUBS:
            ops.append({"op": "sub", "kind": kind, "sel": s, "as_tuple": k in case.get("tuple", [])})
    if w.stub:
        return ops + [{"op": "hyps"}]
    for name, (to_m, is_p) in MORTAR.items():
        ops.append({"op": "mortar", "to_mortar": to_m, "is_primary": is_p, "intfs": [_intf_json(w, case, k, name) for k in case["intfs"]]})
    ops.append({"op": "sign", "intfs": [_intf_json(w, case, k, None) for k in case["intfs"]]})
    ops.append({"op": "boundary"})
    ops.append({"op": "trace", "locals": [_trips(g.trace(dim=1)) if g.dim > 0 else [] for g in subs]})
    ops.append({"op": "divergence", "locals": [_trips(g.divergence(dim=1)) for g in subs]})
    ops.append({"op": "hyps"})
    return ops


def model_decode(outs, case):
    res = []
    for o in outs:
        if isinstance(o, dict) and "s2b" in o:
            res.append({"s2b": _canon_model(o["s2b"]), "b2s": _canon_model(o["b2s"])})
        else:
            res.append(_canon_model(o))
    return res


def compare(impl, model, case):
    return deep_compare(impl, model)


# ----------------------------------------------------------------------------- oracle (the property on the real code)
def _coo(rows, cols, vals, shape):
    P = _pp()
    return P["sps"].coo_matrix((P["np"].array(vals, dtype=float), (P["np"].array(rows, dtype=int), P["np"].array(cols, dtype=int))), shape=shape).tocsr()


def _same(a, b):
    if hasattr(a, "_mat"):
        a = a._mat
    if a.shape != b.shape:
        return False
    d = (_pp()["sps"].csr_matrix(a) - b)
    return d.nnz == 0 or abs(d).max() == 0


def _is_identity(m):
    n = m.shape[0]
    return m.shape == (n, n) and _same(m, _pp()["sps"].identity(n, format="csr"))


def _offsets(sizes, dim):
    off, acc = [], 0
    for s in sizes:
        off.append(acc * dim)
        acc += s
    return off, acc * dim


def oracle(case):
    """The property on the real code.  An exception that escapes from inside porepy on a well-formed case is a failure of
    the property (reported, keyed by its type); an exception raised by the harness itself is re-raised (harness defect)."""
    import traceback
    try:
        return _oracle(case)
    except Exception as e:
        frames = traceback.extract_tb(e.__traceback__)
        if any(os.sep + "porepy" + os.sep in f.filename for f in frames):
            where = [f for f in frames if os.sep + "porepy" + os.sep in f.filename][-1]
            return {"what": f"porepy raised {type(e).__name__}: {e} at {os.path.basename(where.filename)}:{where.name} for list {case['all']}, "
                            f"interfaces {case['intfs']}, dim {case['dim']}", "key": f"real-code-raises-{type(e).__name__}"}
        raise


def _oracle(case):
    P = _pp()
    np, sps, pp = P["np"], P["sps"], P["pp"]
    w = _world(case["grid"])
    dim = case["dim"]
    subs = _listed(w, case)
    dup_all = _has_dup(case["all"])
    bad_size = any(g.num_cells == 0 or (g.dim > 0 and g.num_faces == 0) for g in subs)
    bad_cells = any(g.num_cells == 0 for g in subs)
    try:
        proj = pp.ad.SubdomainProjections(subs, dim)
        if dup_all:
            return {"what": f"SubdomainProjections accepted a duplicated subdomain, list {case['all']}", "key": "sub-duplicate-accepted"}
    except ValueError:
        if dup_all:
            return None
        return {"what": "SubdomainProjections raised ValueError on distinct subdomains", "key": "sub-ctor-raises"}
    proj1 = pp.ad.SubdomainProjections(subs, 1)
    for k in case.get("tuple", []):
        for kind in SUBS:
            try:
                getattr(proj, kind)(tuple(_sel(w, case, case["sels"][k])))
                return {"what": f"{kind} accepted a tuple instead of a list", "key": "sub-non-list-accepted"}
            except ValueError:
                pass
    for which, attr, bad in (("cell", "num_cells", bad_cells), ("face", "num_faces", any(g.dim > 0 and g.num_faces == 0 for g in subs))):
        sizes = [getattr(g, attr) for g in subs]
        row_off, total = _offsets(sizes, dim)
        for s in case["sels"]:
            known = all(i in case["all"] for i in s)
            grids = _sel(w, case, s)
            try:
                # each method is the first call on some object (each of them can be the one that builds the cache)
                R = getattr(proj, which + "_restriction")(grids)._mat
                Pm = getattr(pp.ad.SubdomainProjections(subs, dim), which + "_prolongation")(grids)._mat
                if not _same(getattr(proj, which + "_prolongation")(grids)._mat, Pm.tocsr()):
                    return {"what": f"{which}_prolongation({s}) depends on which method was called first on the object", "key": f"sub-{which}-cache-order"}
            except KeyError:
                if known and not bad:
                    return {"what": f"{which} projection raised KeyError for listed grids {s}", "key": f"sub-{which}-keyerror"}
                continue
            except IndexError:
                if not bad:
                    return {"what": f"{which} projection raised IndexError on well-formed sizes {sizes}", "key": f"sub-{which}-indexerror"}
                continue
            except Exception as e:
                return {"what": f"{which} projection for {s} of list {case['all']} dim {dim} raised {type(e).__name__}: {e}", "key": f"sub-{which}-raises"}
            if not known:
                return {"what": f"{which} projection accepted a grid that is not in the list ({s} vs {case['all']})", "key": f"sub-{which}-unknown-accepted"}
            if bad:
                continue
            # expected: k-th listed grid of the sub-list occupies the next size*dim columns and maps them, in order,
            # onto the rows [row offset of that grid in the full list, + size*dim)
            rows, cols, col = [], [], 0
            for i in s:
                p = case["all"].index(i)
                n = sizes[p] * dim
                rows += list(range(row_off[p], row_off[p] + n))
                cols += list(range(col, col + n))
                col += n
            want = _coo(rows, cols, [1.0] * len(rows), (total, col))
            if not _same(Pm, want):
                return {"what": f"{which}_prolongation({s}) of list {case['all']} dim {dim} is not the block placement at prefix-sum offsets", "key": f"sub-{which}-prolongation-offsets"}
            if not _same(R, want.T.tocsr()):
                return {"what": f"{which}_restriction({s}) of list {case['all']} dim {dim} is not the transpose of the block placement", "key": f"sub-{which}-restriction-offsets"}
            if not _has_dup(s):
                if not _is_identity(sps.csr_matrix(R @ Pm)):
                    return {"what": f"{which}: restriction @ prolongation != I for sub-list {s}", "key": f"sub-{which}-RP-not-identity"}
                mask = np.zeros(total)
                mask[rows] = 1
                if not _same(sps.csr_matrix(Pm @ R), sps.diags(mask).tocsr()):
                    return {"what": f"{which}: prolongation @ restriction != indicator of the listed grids for {s}", "key": f"sub-{which}-PR-not-mask"}
                if sorted(s) == sorted(case["all"]):
                    d = Pm.toarray()
                    if d.shape[0] != d.shape[1] or not ((d.sum(0) == 1).all() and (d.sum(1) == 1).all() and ((d == 0) | (d == 1)).all()):
                        return {"what": f"{which}: prolongation from all grids in order {s} is not a permutation matrix", "key": f"sub-{which}-not-permutation"}
                    if s == case["all"] and not _is_identity(Pm):
                        return {"what": f"{which}: prolongation from all grids in list order is not the identity", "key": f"sub-{which}-not-identity"}
            # Kronecker structure: P_dim = kron(P_1, I_dim)
            P1 = getattr(proj1, which + "_prolongation")(grids)._mat
            if not _same(Pm, sps.kron(P1, sps.identity(dim)).tocsr()):
                return {"what": f"{which}_prolongation with dim {dim} != kron(scalar prolongation, I)", "key": f"sub-{which}-kron"}
    if w.stub:
        return None
    mdg = w.mdg
    # ---- boundary projection
    try:
        bp = pp.ad.BoundaryProjection(mdg, subs, dim)
        S = bp.subdomain_to_boundary.parse(mdg)
        B = bp.boundary_to_subdomain.parse(mdg)
    except Exception as e:
        return {"what": f"BoundaryProjection for list {case['all']} dim {dim} raised {type(e).__name__}: {e}", "key": "boundary-raises"}
    fsz = [g.num_faces for g in subs]
    f_off, f_tot = _offsets(fsz, dim)
    rows, cols, r = [], [], 0
    for p, g in enumerate(subs):
        if g.dim == 0:
            continue
        bf = np.where(g.tags["domain_boundary_faces"])[0]
        bg = mdg.subdomain_to_boundary_grid(g)
        if bg.num_cells != bf.size:
            return {"what": "boundary grid size differs from number of domain boundary faces", "key": "boundary-size"}
        if bf.size and not (np.array_equal(bg.projection() @ g.face_centers.T, bg.cell_centers.T)):
            return {"what": "boundary grid cells are not the domain boundary faces in increasing face order", "key": "boundary-cell-order"}
        for i, f in enumerate(bf):
            for k in range(dim):
                rows.append(r + i * dim + k)
                cols.append(f_off[p] + int(f) * dim + k)
        r += bf.size * dim
    want = _coo(rows, cols, [1.0] * len(rows), (r, f_tot))
    if not subs:
        want = sps.csr_matrix((0, 0))
    if not _same(S, want):
        return {"what": f"subdomain_to_boundary for list {case['all']} dim {dim} is not the boundary-face selection at the face offsets", "key": "boundary-offsets"}
    if not _same(B, want.T.tocsr()):
        return {"what": "boundary_to_subdomain is not the transpose of subdomain_to_boundary", "key": "boundary-transpose"}
    if not _is_identity(sps.csr_matrix(S @ B)):
        return {"what": "subdomain_to_boundary @ boundary_to_subdomain != I", "key": "boundary-RP-not-identity"}
    # ---- trace / divergence: block placement with the same offsets
    if subs:
        try:
            T = pp.ad.Trace(subs, 1).trace._mat if dim == 1 else None
            D = pp.ad.Divergence(subs, dim).parse(mdg)
        except Exception as e:
            return {"what": f"Trace/Divergence for list {case['all']} dim {dim} raised {type(e).__name__}: {e}", "key": "trace-divergence-raises"}
        if dim == 1 and not _same(T, sps.block_diag([g.trace() if g.dim > 0 else sps.csr_matrix((0, g.num_cells)) for g in subs], format="csr")):
            return {"what": "Trace is not the block diagonal of the local traces", "key": "trace-blocks"}
        if not _same(D, sps.block_diag([g.divergence(dim=dim) for g in subs], format="csr")):
            return {"what": "Divergence is not the block diagonal of the local divergences", "key": "divergence-blocks"}
    # ---- mortar projections
    intfs = [w.intfs[k] for k in case["intfs"]]
    try:
        mp = pp.ad.MortarProjections(mdg, subs, intfs, dim)
        sg = mp.sign_of_mortar_sides()._mat
    except Exception as e:
        return {"what": f"MortarProjections / sign_of_mortar_sides for list {case['all']}, interfaces {case['intfs']} raised {type(e).__name__}: {e}", "key": "mortar-ctor-raises"}
    if intfs:
        want = np.hstack([it.sign_of_mortar_sides(dim).diagonal() for it in intfs])
        if sg.shape != (want.size, want.size) or not np.array_equal(sg.diagonal(), want) or sg.nnz != want.size:
            return {"what": "sign_of_mortar_sides is not the concatenation of the per-interface signs", "key": "mortar-sign"}
    codims = sorted({int(it.codim) for it in intfs})
    m_off, m_tot = _offsets([it.num_cells for it in intfs], dim)
    pos = {id(g): p for p, g in enumerate(subs)}
    deferred = None
    for name in case["mortar_order"]:
        to_m, is_p = MORTAR[name]
        try:
            M = getattr(mp, name)()._mat
            exc = None
        except Exception as e:
            M, exc = None, e
        if len(codims) > 1:
            if not isinstance(exc, ValueError):
                return {"what": f"{name} with mixed codimensions {codims} did not raise ValueError", "key": "mortar-mixed-codim-accepted"}
            continue
        use_faces = is_p and (not intfs or codims[0] == 1)
        sz = [g.num_faces if use_faces else g.num_cells for g in subs]
        s_off, s_tot = _offsets(sz, dim)
        rows, cols, vals = [], [], []
        absent = False
        for k, it in enumerate(intfs):
            pr, se = mdg.interface_to_subdomain_pair(it)
            sd = pr if is_p else se
            if id(sd) not in pos:
                absent = True
                continue
            loc = sps.coo_matrix(getattr(it, name)(dim))
            if to_m:
                rows += (loc.row + m_off[k]).tolist()
                cols += (loc.col + s_off[pos[id(sd)]]).tolist()
            else:
                rows += (loc.row + s_off[pos[id(sd)]]).tolist()
                cols += (loc.col + m_off[k]).tolist()
            vals += loc.data.tolist()
        shape = (m_tot, s_tot) if to_m else (s_tot, m_tot)
        want = _coo(rows, cols, vals, shape)
        ok = exc is None and _same(M, want)
        if not ok:
            codim2_size = (intfs and codims[0] == 2 and is_p and absent
                           and sum(g.num_faces for g in subs) != sum(g.num_cells for g in subs)
                           and (isinstance(exc, ValueError) or (exc is None and M.shape != want.shape)))
            got = f"raised {type(exc).__name__}: {exc}" if exc is not None else f"has shape {M.shape}, expected {want.shape}" if M.shape != want.shape else "has wrong entries"
            f = {"what": f"{name} for subdomains {case['all']}, interfaces {case['intfs']} (codim {codims}), dim {dim} {got}; expected the "
                         "per-interface projections placed at (subdomain offset, interface offset)",
                 "key": "mortar-codim2-primary-size" if codim2_size else f"mortar-{name}-blocks"}
            if codim2_size:
                deferred = deferred or f
            else:
                return f
    return deferred


# ----------------------------------------------------------------------------- evidence helpers
def nontrivial(case):
    a = case["all"]
    return (len(a) >= 2 and a != sorted(a)) or case["dim"] > 1 or len(case["intfs"]) >= 2


def signature(case):
    return json.dumps([case["grid"], case["dim"], case["all"], case["sels"], case["intfs"]], sort_keys=True)


def shrink_candidates(case):
    if len(case["sels"]) > 1:
        for i in range(len(case["sels"])):
            yield dict(case, sels=case["sels"][:i] + case["sels"][i + 1:])
    for i in range(len(case["intfs"])):
        yield dict(case, intfs=case["intfs"][:i] + case["intfs"][i + 1:])
    for i in range(len(case["all"])):
        gone = case["all"][i]
        yield dict(case, all=case["all"][:i] + case["all"][i + 1:], sels=[[x for x in s if x != gone] for s in case["sels"]])
    if case["dim"] > 1:
        yield dict(case, dim=1)
    g = case["grid"]
    for key in ("refine", "wells", "drop_top"):
        if g.get(key):
            g2 = {k: v for k, v in g.items() if k != key}
            yield dict(case, grid=g2)


def stats(cases, impl_outs):
    kinds, dims, errs = {}, {}, {}
    n_perm = n_sub = n_empty = n_dup = n_unknown = n_mixed = n_codim2 = n_nonmatch = 0
    for c, out in zip(cases, impl_outs):
        g = c["grid"]
        k = g["kind"] + ("+refine" if g.get("refine") else "") + ("+wells" if g.get("wells") else "") + ("+drop_top" if g.get("drop_top") else "")
        kinds[k] = kinds.get(k, 0) + 1
        dims[str(c["dim"])] = dims.get(str(c["dim"]), 0) + 1
        n_dup += _has_dup(c["all"])
        for s in c["sels"]:
            if not s:
                n_empty += 1
            elif any(i not in c["all"] for i in s):
                n_unknown += 1
            elif sorted(s) == sorted(c["all"]):
                n_perm += 1
            else:
                n_sub += 1
        if g["kind"] != "stub":
            w = _world(g)
            cods = {int(w.intfs[i].codim) for i in c["intfs"]}
            n_mixed += len(cods) > 1
            n_codim2 += cods == {2}
            n_nonmatch += bool(g.get("refine")) and bool(c["intfs"])
        for o in out if isinstance(out, list) else []:
            if isinstance(o, dict) and "err" in o:
                errs[o["err"]] = errs.get(o["err"], 0) + 1
    strata = {}
    for c in cases:
        g = c["grid"]
        tags = [c.get("stratum")] if c.get("stratum") else []
        if g["kind"] == "single" and all(x == 1 for x in g["n"]):
            tags.append("one_cell_grid")
        if (g["kind"] == "single" and max(g["n"]) >= 40) or (g["kind"] == "stub" and any(t[0] >= 60 for t in g["grids"])):
            tags.append("large_scale")
        if g["kind"] == "stub" and any(t[0] == 0 or (t[2] > 0 and t[1] == 0) for t in g["grids"]):
            tags.append("zero_count_stub")
        if any(_has_dup(s) for s in c["sels"]):
            tags.append("repeated_grid_in_selection")
        if c["all"] and c["all"] != sorted(c["all"]):
            tags.append("unsorted_list")
        for t in tags:
            strata[t] = strata.get(t, 0) + 1
    return {"strata": strata, "grid_kinds": kinds, "vector_dims": dims, "sel_permutations": n_perm, "sel_subsets": n_sub, "sel_empty": n_empty,
            "sel_with_unknown_grid": n_unknown, "duplicate_in_list": n_dup, "mixed_codim_interface_lists": n_mixed,
            "codim2_interface_lists": n_codim2, "non_matching_interface_cases": n_nonmatch, "errors_by_kind": errs,
            "listed_subdomains_hist": {str(k): sum(1 for c in cases if len(c["all"]) == k) for k in sorted({len(c["all"]) for c in cases})}}
