"""C46 SparseNdArray behaves like a dictionary of coordinates (histories of add/get)."""
import numpy as np
from fractions import Fraction
from harness.common import frac, err_kind, deep_compare

PID = "C46"
THEOREMS = [
    "PorepyVerif.C46.add_refines",
    "PorepyVerif.C46.sparse_refines_dict",
    "PorepyVerif.C46.sparse_refines_dict_from_empty",
    "PorepyVerif.C46.get_missing_errors",
    "PorepyVerif.C46.get_present",
    "PorepyVerif.C46.coords_nodup_reachable",
]
LEAN_MODULES = ["PorepyVerif.C46.Props"]
AUDIT = "PorepyVerif/C46/Audit.lean"
DRIVER = "PorepyVerif/C46/Driver.lean"
N = {"quick": 300, "thorough": 6000}
RULE = ("histories of 1-14 add/get calls (gets may precede the first add) on SparseNdArray(dim 1-3, value_dim 1-2); coordinates from a box of side 2-4 so that "
        "duplicates inside and across batches are frequent; values are small dyadic rationals (binary64 exact); "
        "non-trivial = at least one batch updates >=2 already stored coordinates or has an in-batch duplicate, and at least one get; "
        "distinct = distinct op sequences")
TRUSTED = ["modelled, not verified: scipy KDTree proximity query inside intersect_sets (tolerance 1e-10 on integer coordinates), np.unique/np.bincount"]
EXPLANATION = ("FULL: model = storage lists + add/get as coded; theorem sparse_refines_dict: every history of add/get equals a plain dictionary. "
               "Correspondence compares get results, add's returned index vector and the final storage (coords order and values) exactly.")
ASSUMPTIONS = ["values are exact in binary64 (dyadic generator) so that the rational model and the float implementation agree exactly"]


def gen_case(rng, tier):
    dim = rng.choice([1, 1, 2, 3])
    vdim = rng.choice([1, 1, 2])
    side = rng.choice([2, 3, 4])
    nops = rng.randint(1, 14 if tier == "quick" else 30)
    ops = []
    seen = set()
    for _ in range(nops):
        # gets may come before the first add (reading the still-empty array must raise, and must
        # not disturb later calls): seeded change seeded/C46 needs exactly that history
        if rng.random() < 0.6 or (not seen and rng.random() < 0.7):
            k = rng.randint(1, 6)
            coords = [[rng.randrange(-1, side) for _ in range(dim)] for _ in range(k)]
            vals = [[frac(Fraction(rng.randint(-64, 64), rng.choice([1, 2, 4, 8]))) for _ in range(k)] for _ in range(vdim)]
            ops.append({"op": "add", "coords": coords, "values": vals, "additive": rng.random() < 0.5})
            seen.update(map(tuple, coords))
        else:
            k = rng.randint(1, 5)
            pool = sorted(seen)
            coords = [list(rng.choice(pool)) if pool else [rng.randrange(-1, side) for _ in range(dim)] for _ in range(k)]
            if rng.random() < 0.15:  # sometimes ask for a coordinate never inserted
                coords[rng.randrange(k)] = [rng.randrange(-1, side + 1) for _ in range(dim)]
            ops.append({"op": "get", "coords": coords})
    return {"dim": dim, "value_dim": vdim, "ops": ops}


def _arrs(coords):
    return [np.array(c, dtype=int) for c in coords]


def impl_run(case):
    from porepy.utils.array_operations import SparseNdArray
    a = SparseNdArray(case["dim"], value_dim=case["value_dim"])
    out = []
    for op in case["ops"]:
        try:
            if op["op"] == "add":
                vals = np.array([[float(Fraction(v)) for v in row] for row in op["values"]])
                r = a.add(_arrs(op["coords"]), vals, additive=op["additive"])
                out.append({"ret": [int(i) for i in r]})
            else:
                v = a.get(_arrs(op["coords"]))
                out.append({"vals": [[frac(x) for x in row] for row in np.atleast_2d(v)]})
        except Exception as e:
            out.append(err_kind(e))
    out.append({"coords": [[int(x) for x in col] for col in a._coords.T], "values": [[frac(x) for x in row] for row in a._values]})
    return out


def model_ops(case):
    return [{"op": "init", "value_dim": case["value_dim"]}] + case["ops"] + [{"op": "dump"}]


def model_decode(outs, case):
    return outs[1:]


def oracle(case):
    """The property itself on the real code: compare with a python dict under the same operations."""
    from porepy.utils.array_operations import SparseNdArray
    a = SparseNdArray(case["dim"], value_dim=case["value_dim"])
    d = {}
    for k, op in enumerate(case["ops"]):
        if op["op"] == "add":
            vals = [[Fraction(v) for v in row] for row in op["values"]]
            a.add(_arrs(op["coords"]), np.array([[float(x) for x in row] for row in vals]), additive=op["additive"])
            for i, c in enumerate(op["coords"]):
                col = [row[i] for row in vals]
                t = tuple(c)
                if op["additive"] and t in d:
                    d[t] = [x + y for x, y in zip(d[t], col)]
                else:
                    d[t] = col
        else:
            want_err = any(tuple(c) not in d for c in op["coords"])
            try:
                v = np.atleast_2d(a.get(_arrs(op["coords"])))
                got = [[Fraction(float(x)) for x in v[:, i]] for i in range(v.shape[1])]
                if want_err:
                    return {"what": f"get of a never-inserted coordinate did not raise (op {k})", "key": "get-missing-no-error"}
                want = [d[tuple(c)] for c in op["coords"]]
                if got != want:
                    return {"what": f"get returned {[[str(x) for x in g] for g in got]} but a dict holds {[[str(x) for x in w] for w in want]} (op {k})", "key": "get-differs-from-dict"}
            except ValueError:
                if not want_err:
                    return {"what": f"get of inserted coordinates raised ValueError (op {k})", "key": "get-present-raises"}
    return None


def nontrivial(case):
    seen = set()
    hard = False
    for op in case["ops"]:
        if op["op"] == "add":
            cs = list(map(tuple, op["coords"]))
            if len(set(cs)) < len(cs) or len(set(cs) & seen) >= 2:
                hard = True
            seen.update(cs)
    return hard and any(op["op"] == "get" for op in case["ops"])


def shrink_candidates(case):
    ops = case["ops"]
    for i in range(len(ops)):
        yield dict(case, ops=ops[:i] + ops[i + 1:])
    for i, op in enumerate(ops):
        k = len(op["coords"])
        if k > 1:
            for j in range(k):
                op2 = dict(op, coords=op["coords"][:j] + op["coords"][j + 1:])
                if op["op"] == "add":
                    op2["values"] = [row[:j] + row[j + 1:] for row in op["values"]]
                yield dict(case, ops=ops[:i] + [op2] + ops[i + 1:])


def stats(cases, impl_outs):
    n_add = sum(1 for c in cases for o in c["ops"] if o["op"] == "add")
    n_get = sum(1 for c in cases for o in c["ops"] if o["op"] == "get")
    n_err = sum(1 for out in impl_outs for o in out if isinstance(o, dict) and "err" in o)
    return {"adds": n_add, "gets": n_get, "get_errors": n_err, "additive_adds": sum(1 for c in cases for o in c["ops"] if o.get("additive")),
            "dims": {str(d): sum(1 for c in cases if c["dim"] == d) for d in (1, 2, 3)}, "value_dim2": sum(1 for c in cases if c["value_dim"] == 2)}
