"""C46 SparseNdArray behaves like a dictionary of coordinates (histories of add/get)."""
import numpy as np
from fractions import Fraction
from harness.common import frac, err_kind, deep_compare

PID = "C46"
THEOREMS = [
    "PorepyVerif.C46.add_refines",
    "PorepyVerif.C46.sparse_refines_dict",
    "PorepyVerif.C46.sparse_refines_dict_from_empty",
    "PorepyVerif.C46.get_missing_errors",
    "PorepyVerif.C46.get_present",
    "PorepyVerif.C46.coords_nodup_reachable",
    # deepening round: order, returned vector, storage order, docstring corollaries, value_dim = k
    "PorepyVerif.C46.lexLe_total_order",
    "PorepyVerif.C46.isort_sorted_perm",
    "PorepyVerif.C46.uniqueCoords_spec",
    "PorepyVerif.C46.freshCoords_spec",
    "PorepyVerif.C46.add_ret_spec",
    "PorepyVerif.C46.add_ret_length",
    "PorepyVerif.C46.add_ret_unique",
    "PorepyVerif.C46.add_storage_order",
    "PorepyVerif.C46.add_storage_order_reachable",
    "PorepyVerif.C46.add_ret_is_storage_permutation",
    "PorepyVerif.C46.add_overwrite_last",
    "PorepyVerif.C46.add_additive_sum",
    "PorepyVerif.C46.add_untouched",
    "PorepyVerif.C46.addK_preserves",
    "PorepyVerif.C46.addK_refines",
    "PorepyVerif.C46.getK_refines",
    "PorepyVerif.C46.sparseK_refines_dictK",
    "PorepyVerif.C46.sparseK_refines_dictK_from_empty",
    "PorepyVerif.C46.addK_ret",
    # deepening round B: clauses of the property for every history, neighbouring entry points
    "PorepyVerif.C46.never_inserted_raises",
    "PorepyVerif.C46.inserted_reads_dict",
    "PorepyVerif.C46.stored_iff_inserted",
    "PorepyVerif.C46.int_proximity_is_equality",
    "PorepyVerif.C46.add_ret_sorted_fresh",
    "PorepyVerif.C46.assignValues_spec",
]
LEAN_MODULES = ["PorepyVerif.C46.Props"]
AUDIT = "PorepyVerif/C46/Audit.lean"
DRIVER = "PorepyVerif/C46/Driver.lean"
N = {"quick": 300, "thorough": 6000}
RULE = ("histories of 1-14 (thorough: 1-30) add/get calls on SparseNdArray(dim 1-3, value_dim 1-3), drawn from twelve strata: "
        "random (coordinates from a box of side 2-4 so that duplicates inside and across batches are frequent); gets before the first add; "
        "the same batch added repeatedly (additive and overwriting mixed); batches whose coordinates are all equal; "
        "negative and large coordinates (+-10^6 and neighbours); add with an empty coordinate list (early return) between other calls; "
        "many in-batch duplicates of NEW coordinates (first occurrence != last occurrence, for the returned index vector); "
        "zero sums (additive batches whose values for a coordinate are an explicit 0 or cancel exactly, +v/-v or u,v,-(u+v), in all or only some value components, "
        "value_dim 1-3, read back directly afterwards; explicit zeros also occur with probability 6% in every other stratum); size 0/1 (a single call, single coordinates); the same coordinate set added in permuted orders; strictly increasing batches of new coordinates "
        "(what AdaptiveInterpolationTable._fill_values passes); AdaptiveInterpolationTable.assign_values(val, coord, indices) on a table with dyadic base point and "
        "resolution (entry point to add; checks the side array _pt), incl. empty, duplicated and already stored indices. "
        "Values are small dyadic rationals (binary64 exact). get([]) is never generated (outside the property: the real code raises "
        "IndexError/ValueError from numpy/KDTree glue on an empty inquiry, a dictionary would return nothing). "
        "non-trivial = at least one batch updates >=2 already stored coordinates or has an in-batch duplicate, and at least one get; "
        "distinct = distinct op sequences")
TRUSTED = ["modelled, not verified: scipy KDTree proximity query inside intersect_sets (tolerance 1e-10 on integer coordinates), np.unique/np.bincount",
           "value_dim = k is modelled as k value rows over (provably) identical coordinate lists; the implementation keeps one shared coordinate array"]
EXPLANATION = ("FULL: model = storage lists + add/get as coded; theorem sparse_refines_dict: every history of add/get equals a plain dictionary; "
               "sparseK_refines_dictK: the k-row array the driver executes (value_dim = k) equals a dictionary with k-vectors as values, for every well-formed history. "
               "add_ret_spec/add_ret_length/add_ret_unique: the returned vector lists, for each new distinct coordinate in lexicographic order, the position of its first "
               "occurrence in the batch (complete, valid, pairwise distinct; the spec determines it uniquely). add_storage_order: storage afterwards = old storage in place "
               "(values updated) ++ new distinct coordinates sorted (isort_sorted_perm, lexLe_total_order, uniqueCoords_spec, freshCoords_spec); add_ret_is_storage_permutation: "
               "the appended columns are the batch coordinates at the returned positions, in that order (docstring of the return value). "
               "add_overwrite_last / add_additive_sum / add_untouched restate the docstring of add. "
               "never_inserted_raises / inserted_reads_dict / stored_iff_inserted state the two clauses of the property text for every history directly; int_proximity_is_equality: "
               "the tolerance match of intersect_sets on integer columns is exact equality; add_ret_sorted_fresh: identity permutation for sorted new batches (_fill_values); "
               "assignValues_spec: assign_values of the adaptive table keeps _pt aligned with the stored indices and overwrites like a dictionary. "
               "Correspondence compares get results, add's returned index vector and the final storage (coords order and values) exactly; the oracle checks dict semantics, "
               "the returned vector against its specification and the storage order after every add on the real code.")
ASSUMPTIONS = ["values are exact in binary64 (dyadic generator) so that the rational model and the float implementation agree exactly",
               "get is called with at least one coordinate (get([]) raises IndexError for dim 1 and ValueError for dim >= 2 in the real code; excluded, not modelled)",
               "value_dim >= 1 and every add passes a (value_dim x n) value array for n coordinates (hypotheses OpK.WF, 0 < k of the k-row theorems)"]

STRATA = ["random", "random", "random", "get_first", "repeat_batch", "all_equal", "large", "empty_add", "dup_new",
          "tiny", "permuted", "sorted_fresh", "table", "table", "zero_sum", "zero_sum"]
BIG = 10 ** 6


def _val(rng):
    if rng.random() < 0.06:  # explicit zeros everywhere (a dictionary stores a zero like any value)
        return "0"
    return frac(Fraction(rng.randint(-64, 64), rng.choice([1, 2, 4, 8])))


def _zero_sum_add(rng, coords, vdim, additive=True):
    """A batch in which the values given for a coordinate sum to exactly zero: an explicit 0, duplicates
    that cancel (+v, -v; or u, v, -(u+v)), in all value components or only in some of them."""
    cs, cols = [], []
    for c in coords:
        mode = rng.choice(["zero", "zero", "cancel2", "cancel2", "cancel3", "partial", "plain"])
        nz = lambda: Fraction(rng.choice([-1, 1]) * rng.randint(1, 64), rng.choice([1, 2, 4, 8]))
        if mode == "zero":
            vs = [[Fraction(0)] * vdim]
        elif mode == "cancel2":
            v = [nz() for _ in range(vdim)]
            vs = [v, [-x for x in v]]
        elif mode == "cancel3":
            u, v = [nz() for _ in range(vdim)], [nz() for _ in range(vdim)]
            vs = [u, v, [-(x + y) for x, y in zip(u, v)]]
        elif mode == "partial":  # zero (or cancelling) in some components only
            v = [nz() if rng.random() < 0.5 else Fraction(0) for _ in range(vdim)]
            w = [(-x if rng.random() < 0.5 else nz()) for x in v]
            vs = [v, w] if rng.random() < 0.5 else [v]
        else:
            vs = [[nz() for _ in range(vdim)]]
        for v in vs:
            cs.append(list(c))
            cols.append(v)
    perm = list(range(len(cs)))
    rng.shuffle(perm)
    cs, cols = [cs[i] for i in perm], [cols[i] for i in perm]
    return {"op": "add", "coords": cs, "values": [[frac(col[r]) for col in cols] for r in range(vdim)], "additive": additive}


def _add(rng, coords, vdim, additive=None):
    k = len(coords)
    vals = [[_val(rng) for _ in range(k)] for _ in range(vdim)]
    return {"op": "add", "coords": [list(c) for c in coords], "values": vals,
            "additive": (rng.random() < 0.5) if additive is None else additive}


def _get(rng, seen, fresh_coord, kmax=5, p_missing=0.15):
    k = rng.randint(1, kmax)
    pool = sorted(seen)
    coords = [list(rng.choice(pool)) if pool else fresh_coord() for _ in range(k)]
    if rng.random() < p_missing:  # sometimes ask for a coordinate never inserted
        coords[rng.randrange(k)] = fresh_coord()
    return {"op": "get", "coords": coords}


def gen_table_case(rng, tier, dim, vdim, side):
    """AdaptiveInterpolationTable without a function: assign_values(val, coord, indices) and reads of
    the underlying sparse array. Base point and resolution are dyadic so that coord is exact."""
    base = [frac(Fraction(rng.randint(-8, 8), rng.choice([1, 2, 4]))) for _ in range(dim)]
    h = [frac(Fraction(rng.choice([1, 2, 3, 5, 8]), rng.choice([1, 2, 4, 8]))) for _ in range(dim)]
    ops, seen = [], set()
    coord = lambda: [rng.randrange(-2, side) for _ in range(dim)]
    for _ in range(rng.randint(1, 8 if tier == "quick" else 16)):
        u = rng.random()
        if u < 0.65 or not seen:
            n = rng.choice([0, 1, 1, 2, 3, 4, 6])
            cs = [coord() for _ in range(n)]
            if cs and rng.random() < 0.4:  # duplicates inside the batch
                cs += [list(rng.choice(cs)) for _ in range(rng.randint(1, 3))]
                rng.shuffle(cs)
            op = _add(rng, cs, vdim, False)
            op["op"] = "assign"
            ops.append(op)
            seen.update(map(tuple, cs))
        else:
            ops.append(_get(rng, seen, coord))
    return {"kind": "table", "dim": dim, "value_dim": vdim, "stratum": "table", "base": base, "h": h, "ops": ops}


def gen_case(rng, tier):
    stratum = rng.choice(STRATA)
    dim = rng.choice([1, 1, 2, 3])
    vdim = rng.choice([1, 1, 2, 3])
    side = rng.choice([2, 3, 4])
    nops = rng.randint(1, 14 if tier == "quick" else 30)
    if stratum == "table":
        return gen_table_case(rng, tier, dim, vdim, side)
    if stratum == "tiny":
        nops = rng.choice([1, 1, 2])
    if stratum == "large":
        axis = [-BIG, -BIG + 1, -1, 0, 1, BIG - 1, BIG]
        coord = lambda: [rng.choice(axis) for _ in range(dim)]
    else:
        coord = lambda: [rng.randrange(-1, side) for _ in range(dim)]
    wide = lambda: [rng.randrange(-1, side + 1) for _ in range(dim)] if stratum != "large" else coord()
    ops = []
    seen = set()

    def push_add(coords, additive=None):
        ops.append(_add(rng, coords, vdim, additive))
        seen.update(map(tuple, coords))

    if stratum == "get_first":
        # gets come before the first add (reading the still-empty array must raise, and must
        # not disturb later calls): seeded change seeded/C46 needs exactly that history
        for _ in range(rng.randint(1, 3)):
            ops.append({"op": "get", "coords": [coord() for _ in range(rng.randint(1, 3))]})
    if stratum == "repeat_batch":
        base = [coord() for _ in range(rng.randint(1, 5))]
        template = _add(rng, base, vdim)
        for _ in range(rng.randint(2, 4)):
            op = dict(template, additive=rng.random() < 0.5)
            if rng.random() < 0.3:  # same coordinates, other values
                op = _add(rng, base, vdim, op["additive"])
            ops.append(op)
            seen.update(map(tuple, base))
            if rng.random() < 0.7:
                ops.append(_get(rng, seen, wide))
    if stratum == "permuted":
        # the same multiset of (coordinate, value) pairs in several orders
        base = [coord() for _ in range(rng.randint(2, 6))]
        template = _add(rng, base, vdim)
        for _ in range(rng.randint(2, 3)):
            perm = list(range(len(base)))
            rng.shuffle(perm)
            ops.append({"op": "add", "coords": [base[i] for i in perm], "values": [[row[i] for i in perm] for row in template["values"]],
                        "additive": rng.random() < 0.5})
            seen.update(map(tuple, base))
            ops.append(_get(rng, seen, wide))
    while len(ops) < nops:
        u = rng.random()
        if stratum == "zero_sum" and u < 0.7:
            # additive (sometimes overwriting) batch whose contributions to a coordinate sum to exactly 0,
            # read back directly afterwards: a dictionary holds the key with value 0
            cs = [coord() for _ in range(rng.randint(1, 4))]
            cs = [list(t) for t in dict.fromkeys(map(tuple, cs))]
            op = _zero_sum_add(rng, cs, vdim, additive=rng.random() < 0.85)
            ops.append(op)
            seen.update(map(tuple, cs))
            ops.append({"op": "get", "coords": [list(c) for c in rng.sample(cs, rng.randint(1, len(cs)))]})
        elif stratum == "tiny":
            if u < 0.6:
                push_add([coord()])
            else:
                ops.append({"op": "get", "coords": [coord()]})
        elif stratum == "sorted_fresh" and u < 0.6:
            # strictly increasing coordinates, none stored: the returned vector must be the identity
            cand = sorted({tuple(coord()) for _ in range(rng.randint(1, 6))} - seen)
            push_add([list(c) for c in cand])
        elif stratum == "all_equal" and u < 0.6:
            c = coord()
            push_add([c] * rng.randint(1, 5))
        elif stratum == "empty_add" and u < 0.3:
            push_add([])
        elif stratum == "dup_new" and u < 0.6:
            # several distinct coordinates, each repeated, shuffled: first != last occurrence
            base = [coord() for _ in range(rng.randint(1, 4))]
            coords = [c for c in base for _ in range(rng.randint(1, 3))]
            rng.shuffle(coords)
            push_add(coords)
        elif u < 0.6 or (not seen and u < 0.9):
            push_add([coord() for _ in range(rng.randint(1, 6))])
        else:
            ops.append(_get(rng, seen, wide))
    return {"dim": dim, "value_dim": vdim, "stratum": stratum, "ops": ops}


def _arrs(coords):
    return [np.array(c, dtype=int) for c in coords]


def _vals_array(op, vdim):
    return np.array([[float(Fraction(v)) for v in row] for row in op["values"]], dtype=float).reshape(vdim, len(op["coords"]))


def _table(case):
    from porepy.utils.interpolation_tables import AdaptiveInterpolationTable
    return AdaptiveInterpolationTable(dx=np.array([float(Fraction(x)) for x in case["h"]]),
                                      base_point=np.array([float(Fraction(x)) for x in case["base"]]), function=None, dim=case["value_dim"])


def _assign(t, op, case):
    ind = np.array(op["coords"], dtype=int).reshape(len(op["coords"]), case["dim"]).T
    coord = t._base_point + t._h * ind  # exact: dyadic base point and resolution, small integers
    t.assign_values(_vals_array(op, case["value_dim"]), coord, ind)


def _pt_cols(t):
    return [[frac(x) for x in col] for col in t._pt.T]


def impl_run_table(case):
    t = _table(case)
    out = []
    for op in case["ops"]:
        try:
            if op["op"] == "assign":
                _assign(t, op, case)
                out.append({"pt": _pt_cols(t)})
            else:
                v = t._table.get(_arrs(op["coords"]))
                out.append({"vals": [[frac(x) for x in row] for row in np.atleast_2d(v)]})
        except Exception as e:
            out.append(err_kind(e))
    a = t._table
    out.append({"coords": [[int(x) for x in col] for col in a._coords.T], "values": [[frac(x) for x in row] for row in a._values], "pt": _pt_cols(t)})
    return out


def oracle_table(case):
    """assign_values on the real adaptive table: dictionary semantics of the underlying array (overwrite)
    and alignment of the side array: _pt[:, j] == base_point + h * _coords[:, j] for every stored column."""
    t = _table(case)
    base = [Fraction(x) for x in case["base"]]
    h = [Fraction(x) for x in case["h"]]
    d = {}
    for k, op in enumerate(case["ops"]):
        if op["op"] == "assign":
            vals = [[Fraction(v) for v in row] for row in op["values"]]
            try:
                _assign(t, op, case)
            except Exception as e:
                return {"what": f"assign_values of {len(op['coords'])} indices raised {type(e).__name__}: {e} (op {k})", "key": "assign-raises"}
            for i, c in enumerate(op["coords"]):
                d[tuple(c)] = [row[i] for row in vals]
            cols = [tuple(int(x) for x in col) for col in t._table._coords.T]
            if sorted(cols) != sorted(d):
                return {"what": f"stored indices {cols} are not the assigned indices {sorted(d)} (op {k})", "key": "assign-stored-set"}
            pt = [[Fraction(float(x)) for x in col] for col in t._pt.T]
            want = [[b + hh * ci for b, hh, ci in zip(base, h, c)] for c in cols]
            if pt != want:
                return {"what": f"_pt columns {[[str(x) for x in p] for p in pt]} are not the grid points {[[str(x) for x in w] for w in want]} of the stored indices {cols} (op {k})", "key": "pt-misaligned"}
            got_vals = [[Fraction(float(x)) for x in t._table._values[:, j]] for j in range(len(cols))]
            if got_vals != [d[c] for c in cols]:
                return {"what": f"stored values after assign_values differ from the dictionary (op {k})", "key": "assign-values"}
        else:
            bad = _check_get(t._table, d, op, k)
            if bad:
                return bad
    return None


def impl_run(case):
    if case.get("kind") == "table":
        return impl_run_table(case)
    from porepy.utils.array_operations import SparseNdArray
    a = SparseNdArray(case["dim"], value_dim=case["value_dim"])
    out = []
    for op in case["ops"]:
        try:
            if op["op"] == "add":
                r = a.add(_arrs(op["coords"]), _vals_array(op, case["value_dim"]), additive=op["additive"])
                out.append({"ret": [int(i) for i in r]})
            else:
                v = a.get(_arrs(op["coords"]))
                out.append({"vals": [[frac(x) for x in row] for row in np.atleast_2d(v)]})
        except Exception as e:
            out.append(err_kind(e))
    out.append({"coords": [[int(x) for x in col] for col in a._coords.T], "values": [[frac(x) for x in row] for row in a._values]})
    return out


def model_ops(case):
    ops = [{"op": "init", "value_dim": case["value_dim"]}]
    table = case.get("kind") == "table"
    for op in case["ops"]:
        if op["op"] == "assign":
            n = len(op["coords"])
            cols = [[row[j] for row in op["values"]] for j in range(n)]
            ops.append({"op": "assign", "coords": op["coords"], "cols": cols, "base": case["base"], "h": case["h"]})
        elif op["op"] == "add":
            n = len(op["coords"])
            # the model takes value COLUMNS: cols[j] = values[:, j]
            cols = [[row[j] for row in op["values"]] for j in range(n)]
            ops.append({"op": "add", "coords": op["coords"], "cols": cols, "additive": op["additive"]})
        else:
            ops.append({"op": "get", "coords": op["coords"]})
    return ops + [{"op": "dump_table" if table else "dump"}]


def model_decode(outs, case):
    return outs[1:]


def expected_ret(stored, coords):
    """Specification of add's return value, written independently of the Lean model: for every
    distinct coordinate of the batch that is not stored yet, in lexicographic order of these
    coordinates, the position of its first occurrence in the batch."""
    first = {}
    for i, c in enumerate(coords):
        first.setdefault(tuple(c), i)
    return [first[c] for c in sorted(first) if c not in stored]


def _check_ret(r, stored, coords, k):
    """add's return value against its specification; separate keys for separate failure classes."""
    cs = [tuple(c) for c in coords]
    r = [int(i) for i in r]
    want = expected_ret(stored, coords)
    if r == want:
        return None
    if any(i < 0 or i >= len(cs) for i in r):
        return {"what": f"add returned {r}: position outside the batch of {len(cs)} coordinates (op {k})", "key": "add-ret-position-invalid"}
    if any(cs[i] in stored for i in r):
        return {"what": f"add returned {r}: lists a coordinate that was already stored (op {k})", "key": "add-ret-lists-stored"}
    if any(cs.index(cs[i]) != i for i in r):
        return {"what": f"add returned {r}, expected first occurrences {want} (op {k}, coords {coords})", "key": "add-ret-not-first-occurrence"}
    if len(r) != len(want) or {cs[i] for i in r} != {cs[i] for i in want}:
        return {"what": f"add returned {r}, expected {want}: not one position per new distinct coordinate (op {k}, coords {coords})", "key": "add-ret-incomplete"}
    return {"what": f"add returned {r}, expected {want}: not in lexicographic order of the new coordinates (op {k}, coords {coords})", "key": "add-ret-order"}


def oracle(case):
    """The property itself on the real code: compare with a python dict under the same operations;
    after every add also the returned vector and the storage order against their specifications."""
    if case.get("kind") == "table":
        return oracle_table(case)
    from porepy.utils.array_operations import SparseNdArray
    a = SparseNdArray(case["dim"], value_dim=case["value_dim"])
    d = {}
    order = []  # expected storage order of the coordinates
    for k, op in enumerate(case["ops"]):
        if op["op"] == "add":
            vals = [[Fraction(v) for v in row] for row in op["values"]]
            stored = set(d)
            try:
                r = a.add(_arrs(op["coords"]), _vals_array(op, case["value_dim"]), additive=op["additive"])
            except Exception as e:  # a well-formed add never raises (a dictionary write cannot fail)
                return {"what": f"add of {len(op['coords'])} coordinates raised {type(e).__name__}: {e} (op {k})", "key": "add-raises"}
            bad = _check_ret(r, stored, op["coords"], k)
            if bad:
                return bad
            for i, c in enumerate(op["coords"]):
                col = [row[i] for row in vals]
                t = tuple(c)
                if op["additive"] and t in d:
                    d[t] = [x + y for x, y in zip(d[t], col)]
                else:
                    d[t] = col
            n_old = len(order)
            order += sorted({tuple(c) for c in op["coords"]} - stored)
            got_order = [tuple(int(x) for x in col) for col in a._coords.T]
            # docstring of the return value: "permutation vector applied before the coordinates and
            # data were added to storage" = appended column j is the batch coordinate at position r[j]
            if got_order[n_old:] != [tuple(op["coords"][int(i)]) for i in r]:
                return {"what": f"appended storage columns {got_order[n_old:]} are not the batch coordinates at the returned positions {[int(i) for i in r]} (op {k})", "key": "ret-not-the-storage-permutation"}
            if got_order != order:
                return {"what": f"storage order after add is {got_order}, expected old order followed by the sorted new coordinates {order} (op {k})", "key": "storage-order"}
            got_vals = [[Fraction(float(x)) for x in a._values[:, j]] for j in range(a._values.shape[1])]
            if got_vals != [d[c] for c in order]:
                return {"what": f"stored values after add differ from the dictionary (op {k})", "key": "storage-values"}
        else:
            bad = _check_get(a, d, op, k)
            if bad:
                return bad
    return None


def _check_get(a, d, op, k):
    want_err = any(tuple(c) not in d for c in op["coords"])
    try:
        v = np.atleast_2d(a.get(_arrs(op["coords"])))
        got = [[Fraction(float(x)) for x in v[:, i]] for i in range(v.shape[1])]
        if want_err:
            return {"what": f"get of a never-inserted coordinate did not raise (op {k})", "key": "get-missing-no-error"}
        want = [d[tuple(c)] for c in op["coords"]]
        if got != want:
            return {"what": f"get returned {[[str(x) for x in g] for g in got]} but a dict holds {[[str(x) for x in w] for w in want]} (op {k})", "key": "get-differs-from-dict"}
    except ValueError:
        if not want_err:
            return {"what": f"get of inserted coordinates raised ValueError (op {k})", "key": "get-present-raises"}
    return None


def nontrivial(case):
    seen = set()
    hard = False
    for op in case["ops"]:
        if op["op"] in ("add", "assign"):
            cs = list(map(tuple, op["coords"]))
            if len(set(cs)) < len(cs) or len(set(cs) & seen) >= 2:
                hard = True
            seen.update(cs)
    return hard and any(op["op"] == "get" for op in case["ops"])


def signature(case):
    import json
    return json.dumps({k: v for k, v in case.items() if k != "stratum"}, sort_keys=True)


def shrink_candidates(case):
    ops = case["ops"]
    for i in range(len(ops)):
        yield dict(case, ops=ops[:i] + ops[i + 1:])
    for i, op in enumerate(ops):
        k = len(op["coords"])
        if k > 1:  # never shrinks to an empty inquiry (get([]) is outside the property)
            for j in range(k):
                op2 = dict(op, coords=op["coords"][:j] + op["coords"][j + 1:])
                if op["op"] in ("add", "assign"):
                    op2["values"] = [row[:j] + row[j + 1:] for row in op["values"]]
                yield dict(case, ops=ops[:i] + [op2] + ops[i + 1:])


def _zero_sum_new(cases):
    """number of (additive add, coordinate) pairs where the coordinate is new and all its value components sum to 0"""
    n = 0
    for c in cases:
        seen = set()
        for o in c["ops"]:
            if o["op"] in ("add", "assign"):
                cs = list(map(tuple, o["coords"]))
                if o.get("additive") and o["op"] == "add":
                    for t in set(cs) - seen:
                        if all(sum(Fraction(row[i]) for i, x in enumerate(cs) if x == t) == 0 for row in o["values"]):
                            n += 1
                seen.update(cs)
    return n


def stats(cases, impl_outs):
    adds = [o for c in cases for o in c["ops"] if o["op"] in ("add", "assign")]
    n_get = sum(1 for c in cases for o in c["ops"] if o["op"] == "get")
    n_err = sum(1 for out in impl_outs for o in out if isinstance(o, dict) and "err" in o)

    def first_ne_last(o):
        cs = list(map(tuple, o["coords"]))
        return any(cs.index(c) != len(cs) - 1 - cs[::-1].index(c) for c in set(cs))

    return {"adds": len(adds), "gets": n_get, "get_errors": n_err, "additive_adds": sum(1 for o in adds if o.get("additive")),
            "empty_adds": sum(1 for o in adds if not o["coords"]),
            "additive_new_coordinates_with_zero_sum": _zero_sum_new(cases),
            "assign_values_calls": sum(1 for o in adds if o["op"] == "assign"),
            "single_op_cases": sum(1 for c in cases if len(c["ops"]) == 1),
            "single_coordinate_adds": sum(1 for o in adds if len(o["coords"]) == 1),
            "sorted_new_batches": sum(1 for c in cases if c.get("stratum") == "sorted_fresh" for o in c["ops"] if o["op"] == "add" and len(o["coords"]) > 1),
            "adds_with_in_batch_duplicates": sum(1 for o in adds if first_ne_last(o)),
            "adds_all_coordinates_equal": sum(1 for o in adds if len(o["coords"]) > 1 and len(set(map(tuple, o["coords"]))) == 1),
            "cases_with_large_coordinates": sum(1 for c in cases if any(abs(x) >= BIG - 1 for o in c["ops"] for cc in o["coords"] for x in cc)),
            "cases_get_before_first_add": sum(1 for c in cases if c["ops"] and c["ops"][0]["op"] == "get"),
            "strata": {s: sum(1 for c in cases if c.get("stratum") == s) for s in sorted(set(STRATA))},
            "dims": {str(d): sum(1 for c in cases if c["dim"] == d) for d in (1, 2, 3)},
            "value_dims": {str(v): sum(1 for c in cases if c["value_dim"] == v) for v in (1, 2, 3)}}
