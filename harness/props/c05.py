"""C05 Degree-of-freedom layout of EquationSystem is a bijection under any variable history.

Case = a small mixed-dimensional grid (1-4 subdomains of mixed dimension, 0-3 interfaces, created in a
random order so that grid ids are not monotone in the case's grid keys) + a history of calls
(create / remove / set / get / dofs_of / identify / projection / num_dofs, ~12 % of them malformed).

grid key   = position in case["grids"]; keys >= len(grids) denote grids that are NOT in the md-grid.
name n     = the string "v<n>".
refs       = None | list of  [0, n]  (name)  |  [1, k]  (the k-th Variable object ever registered in
             the system; k >= 1000: a Variable that never belonged to it)  |  [2, j, ids]  (the
             MixedDimensionalVariable returned by op j, ids = its atomic variables).
"""
import json
import random
from fractions import Fraction

import numpy as np

from harness.common import deep_compare, err_kind, frac

PID = "C05"
THEOREMS = [
    "PorepyVerif.C05.inv_step",
    "PorepyVerif.C05.inv_reachable",
    "PorepyVerif.C05.numbers_bijection",
    "PorepyVerif.C05.clustered_reachable",
    "PorepyVerif.C05.cluster_order",
    "PorepyVerif.C05.dofs_of_block",
    "PorepyVerif.C05.dofs_partition",
    "PorepyVerif.C05.identify_spec",
    "PorepyVerif.C05.identify_out_of_range",
    "PorepyVerif.C05.projection_selects",
    "PorepyVerif.C05.keys_unique_reachable",
    "PorepyVerif.C05.validateSet_nodup",
    "PorepyVerif.C05.set_get_roundtrip",
    "PorepyVerif.C05.set_get_additive",
    "PorepyVerif.C05.set_frame",
    "PorepyVerif.C05.get_order_irrelevant",
    "PorepyVerif.C05.get_is_projection_of_global",
    "PorepyVerif.C05.md_variable_spec",
    "PorepyVerif.C05.set_then_get_op",
    "PorepyVerif.C05.success_implies_clustered",
    "PorepyVerif.C05.update_num_dofs_inv",
    "PorepyVerif.C05.remove_multi_eq_sequential",
    "PorepyVerif.C05.set_bad_indices",
    "PorepyVerif.C05.get_bad_indices",
    "PorepyVerif.C05.validateGet_spec",
]
LEAN_MODULES = ["PorepyVerif.C05.Props"]
AUDIT = "PorepyVerif/C05/Audit.lean"
DRIVER = "PorepyVerif/C05/Driver.lean"
N = {"quick": 300, "thorough": 6000}
RULE = ("histories of 1-25 (thorough: 1-40) EquationSystem calls on md-grids with 1-4 subdomains (dim 0-3, 1-3 cells per "
        "direction) and 0-3 mortar grids (dim 0-2, one or two sides), grids instantiated in random order; variables with "
        "cells/faces/nodes multiplicities 0-3 (zero-size blocks frequent) and names from a pool of 4 so that the same name "
        "recurs on other grids and after removal; values are small dyadic rationals; ~12 % malformed calls (unknown / "
        "duplicate / foreign grids, removed or foreign variables, wrong vector sizes, bad indices, out-of-range dofs). "
        "After every create/remove (and at the end) the complete layout (variables, block numbers in dict order, block "
        "sizes) is compared, together with dofs_of of every variable and identify_dof of every index in [-1, num_dofs]. "
        "Well-formed removals are stratified: one variable; several Variables in one call in ascending, descending and "
        "shuffled block order; one name; several names; md-variables; everything (None); name+Variable mixtures. "
        "Further strata: the very same call repeated, md_variable(name, domains) incl. unknown names / empty domain lists, "
        "regrid (entity counts of the grids change, then update_variable_num_dofs), zero-dof creates, one-grid and empty grid lists, "
        "grid lists not in md order, refs with duplicates / empty refs (counts in input_distribution.strata). "
        "non-trivial = at least two creates, one remove that succeeds, and one set/get pair; distinct = distinct histories")
TRUSTED = [
    "modelled, not verified: python dict insertion order = the lists of the model; numpy slicing/concatenate/cumsum/argmax/sort "
    "and in-place `+=` broadcasting (length-1 operand) are transcribed as list functions; scipy coo->csr conversion in projection_to",
    "the md-grid listing order (subdomains by descending dimension then id, then interfaces likewise) is a parameter of the "
    "model (property C24); the harness computes it independently of porepy and the comparison checks the code against it",
    "MixedDimensionalVariable / Variable constructors are modelled only through the ids they consume and the "
    "overlapping-domain assertion",
    "error kinds of malformed calls are transcribed as observed, including one quirk of the code: a create call that repeats a "
    "grid or names a grid outside the md-grid raises only after having registered variables (dofs_of/projection_to raise the "
    "documented ValueError for an unregistered variable, also when a name lives on both subdomains and interfaces: corpus case 01)",
]
EXPLANATION = ("FULL: the model is the state machine (_variables, _variable_numbers in dict order, _variable_num_dofs, solution "
               "storage) with every anchored method transcribed, including partial effects of failing calls. Theorems: the layout "
               "invariant holds after EVERY call sequence (block numbers are a bijection onto [0,#vars), sizes are the variables' "
               "dof counts), blocks follow grid order then creation order, block ranges tile [0,num_dofs), identify_dof returns the "
               "unique owner, projection_to selects exactly the dofs in increasing order, and set-then-get returns the written "
               "values (overwrite and additive) in global order without touching other variables; get(subset) = projection_to(subset) x "
               "get(all); removing several variables in one call equals removing them one at a time in any order and leaves the "
               "canonical clustering of the rest; reads/writes with inadmissible indices (both given, none, negative) raise "
               "ValueError (or do nothing when no registered variable is addressed) and never change the state. Neighbouring entry points: "
               "update_variable_num_dofs after the grids changed size re-establishes the invariant for the new grid; md_variable(name[, "
               "domains]) wraps exactly the variables the name denotes; every create/remove call that returns leaves a clustered layout "
               "whatever happened before; the set/get round trip is proved through the public argument forms (names, Variables, md).")
ASSUMPTIONS = [
    "values are dyadic rationals of small magnitude, so binary64 addition in additive writes is exact",
    "cluster order and storage-key uniqueness are proved for histories whose create calls name grids of the md-grid without "
    "repetition (the code raises on the others after a partial effect; the layout invariant itself is proved for all histories)",
]

KINDS = ["cells", "faces", "nodes", "edges"]  # kind 3 is not admissible


# ----------------------------------------------------------------------------- md-grid construction
def _entity_counts(g):
    """(cells, faces, nodes) of a grid spec, computed without porepy."""
    d, n = g["dim"], g["n"]
    if g["kind"] == "sub":
        if d == 0:
            return (1, 0, 0)
        if d == 1:
            return (n, n + 1, n + 1)
        if d == 2:
            return (n, 3 * n + 1, 2 * (n + 1))
        return (n, 5 * n + 1, 4 * (n + 1))
    cells = 1 if d == 0 else n
    return (cells * g["sides"], 0, 0)


def _mk_grid(dim, n, geometry=False):
    import porepy as pp
    if dim == 0:
        g = pp.PointGrid(np.zeros((3, 1)))
    else:
        g = pp.CartGrid(np.array([n] + [1] * (dim - 1)))
    if geometry:  # only the side grids of a mortar grid need it (cell volumes)
        g.compute_geometry()
    return g


def _mk_mortar(dim, n, sides):
    import porepy as pp
    from porepy.grids.mortar_grid import MortarSides
    sg = {MortarSides.LEFT_SIDE: _mk_grid(dim, n, True)}
    if sides == 2:
        sg[MortarSides.RIGHT_SIDE] = _mk_grid(dim, n, True)
    return pp.MortarGrid(dim, sg, codim=1)


def expected_order(case):
    """md-grid listing order computed independently of porepy: dimension descending, then instantiation order."""
    gs = case["grids"]
    subs = sorted((k for k, g in enumerate(gs) if g["kind"] == "sub"), key=lambda k: (-gs[k]["dim"], gs[k]["rank"]))
    intfs = sorted((k for k, g in enumerate(gs) if g["kind"] == "intf"), key=lambda k: (-gs[k]["dim"], gs[k]["rank"]))
    return subs, intfs


class World:
    """The real objects of one case."""

    def __init__(self, case):
        import porepy as pp
        import scipy.sparse as sps
        gs = case["grids"]
        self.spec = [dict(g) for g in gs]
        self.objs = [None] * len(gs)
        for k in sorted(range(len(gs)), key=lambda k: gs[k]["rank"]):
            g = gs[k]
            self.objs[k] = _mk_grid(g["dim"], g["n"]) if g["kind"] == "sub" else _mk_mortar(g["dim"], g["n"], g["sides"])
        self.mdg = pp.MixedDimensionalGrid()
        subs = [k for k, g in enumerate(gs) if g["kind"] == "sub"]
        self.mdg.add_subdomains([self.objs[k] for k in subs])
        for k, g in enumerate(gs):
            if g["kind"] == "intf":
                a, b = g["pair"]
                self.mdg.add_interface(self.objs[k], (self.objs[a], self.objs[b]), sps.identity(1))
        self.key_of = {id(o): k for k, o in enumerate(self.objs)}
        self.foreign_grids = {}
        self.es = pp.ad.EquationSystem(self.mdg)
        self.created = []       # Variable objects in registration order
        self.index_of = {}      # Variable.id -> registration index
        self.md = {}            # op index -> MixedDimensionalVariable returned
        self.foreign_vars = {}

    def grid(self, key, as_sub):
        if 0 <= key < len(self.objs):
            return self.objs[key]
        if (key, as_sub) not in self.foreign_grids:
            self.foreign_grids[(key, as_sub)] = _mk_grid(1, 2) if as_sub else _mk_mortar(1, 1, 1)
        return self.foreign_grids[(key, as_sub)]

    def scan(self):
        for id_, v in self.es._variables.items():
            if id_ not in self.index_of:
                self.index_of[id_] = len(self.created)
                self.created.append(v)

    def var(self, k):
        import porepy as pp
        if 0 <= k < len(self.created):
            return self.created[k]
        if k not in self.foreign_vars:
            self.foreign_vars[k] = pp.ad.Variable("foreign", {"cells": 1}, domain=self.objs[0])
        return self.foreign_vars[k]

    def refs(self, refs):
        import porepy as pp
        if refs is None:
            return None
        out = []
        for r in refs:
            if r[0] == 0:
                out.append(f"v{r[1]}")
            elif r[0] == 1:
                out.append(self.var(r[1]))
            else:
                out.append(self.md[r[1]] if r[1] in self.md else pp.ad.MixedDimensionalVariable([self.var(i) for i in r[2]]))
        return out

    def vidx(self, v):
        return self.index_of.get(v.id, 1000000 + v.id)

    # --- one call of the history on the real code; returns the canonical answer
    def apply(self, j, op):
        es = self.es
        kind = op["op"]
        try:
            if kind == "create":
                dof = None if op["dof"] is None else {KINDS[k]: m for k, m in op["dof"]}
                subs = None if op.get("subs") is None else [self.grid(k, True) for k in op["subs"]]
                intfs = None if op.get("intfs") is None else [self.grid(k, False) for k in op["intfs"]]
                try:
                    md = es.create_variables(f"v{op['name']}", dof, subdomains=subs, interfaces=intfs)
                finally:
                    self.scan()
                self.md[j] = md
                return {"ids": [self.vidx(v) for v in md.sub_vars]}
            if kind == "remove":
                es.remove_variables(self.refs(op["refs"]))
                return "ok"
            if kind == "set":
                vals = np.array([float(Fraction(x)) for x in op["vals"]], dtype=float)
                es.set_variable_values(vals, self.refs(op["refs"]), time_step_index=op.get("ts"), iterate_index=op.get("iter"), additive=op["additive"])
                return "ok"
            if kind == "get":
                x = es.get_variable_values(self.refs(op["refs"]), time_step_index=op.get("ts"), iterate_index=op.get("iter"))
                return {"vals": [frac(v) for v in x]}
            if kind == "dofs_of":
                return {"ids": [int(i) for i in es.dofs_of(self.refs(op["refs"]))]}
            if kind == "identify":
                return {"num": self.vidx(es.identify_dof(op["dof"]))}
            if kind == "projection":
                return _proj_canon(es.projection_to(self.refs(op["refs"])))
            if kind == "num_dofs":
                return {"num": es.num_dofs()}
            if kind == "md_variable":
                doms = None if op.get("domains") is None else [self.objs[k] for k in op["domains"]]
                md = es.md_variable(f"v{op['name']}", doms)
                self.md[j] = md
                return {"ids": [self.vidx(v) for v in md.sub_vars]}
            if kind == "regrid":
                # the grids change their entity counts (as after a refinement that keeps the md-grid listing)
                for k, n in op["n"]:
                    self.spec[k] = dict(self.spec[k], n=n)
                    c, f, nn = _entity_counts(self.spec[k])
                    g = self.objs[k]
                    g.num_cells = c
                    if self.spec[k]["kind"] == "sub":
                        g.num_faces, g.num_nodes = f, nn
                es.update_variable_num_dofs()
                return "ok"
            raise RuntimeError(f"unknown op {kind}")
        except Exception as e:  # whatever the real code raises is an observable answer, never a harness crash
            return err_kind(e)

    def dump(self):
        es = self.es
        vs = []
        for id_, v in es._variables.items():
            d = es._variable_dof_type[id_]
            vs.append([self.index_of[id_], int(v.name[1:]), self.key_of.get(id(v.domain), -1), d.get("cells", 0), d.get("faces", 0), d.get("nodes", 0)])
        return {"vars": vs,
                "numbers": [[self.index_of.get(i, -1), int(b)] for i, b in es._variable_numbers.items()],
                "sizes": [int(x) for x in es._variable_num_dofs]}

    def probe(self):
        es = self.es
        dofs = []
        for id_, v in es._variables.items():
            try:
                dofs.append([self.index_of[id_], [int(i) for i in es.dofs_of([v])]])
            except (ValueError, KeyError, AssertionError, IndexError) as e:
                dofs.append([self.index_of[id_], type(e).__name__])
        idf = []
        for d in range(-1, es.num_dofs() + 1):
            try:
                idf.append(self.vidx(es.identify_dof(d)))
            except (ValueError, KeyError, AssertionError, IndexError) as e:
                idf.append(type(e).__name__)
        return {"dofs": dofs, "identify": idf}


def _proj_canon(P):
    P = P.tocoo()
    rows, cols = P.shape
    trip = sorted(zip(P.row.tolist(), P.col.tolist(), P.data.tolist()))
    if [t[0] for t in trip] == list(range(rows)) and all(t[2] == 1.0 for t in trip):
        return {"rows": rows, "cols": cols, "idx": [int(t[1]) for t in trip]}
    return {"rows": rows, "cols": cols, "triplets": [[int(a), int(b), frac(c)] for a, b, c in trip]}


LAYOUT_OPS = ("create", "remove", "regrid")


# ----------------------------------------------------------------------------- the three harness entry points
def impl_run(case):
    w = World(case)
    listing = w.mdg.subdomains() + w.mdg.interfaces()
    out = [{"order_nodup": len({id(g) for g in listing}) == len(listing)}]  # hypothesis `e.order.Nodup`, evaluated by the driver
    last = len(case["ops"]) - 1
    for j, op in enumerate(case["ops"]):
        out.append(w.apply(j, op))
        if op["op"] in LAYOUT_OPS or j == last:
            out.append(w.dump())
        if op["op"] in LAYOUT_OPS:
            out.append(w.probe())
    return out


def _mrefs(refs):
    if refs is None:
        return None
    out = []
    for r in refs:
        if r[0] == 2:
            out += [[1, i] for i in r[2]]
        else:
            out.append([r[0], r[1]])
    return out


def model_ops(case):
    gs = case["grids"]
    subs, intfs = expected_order(case)
    row = lambda k: [k] + list(_entity_counts(gs[k]))
    ops = [{"op": "init", "subs": [row(k) for k in subs], "intfs": [row(k) for k in intfs]}]
    last = len(case["ops"]) - 1
    spec = [dict(g) for g in gs]
    for j, op in enumerate(case["ops"]):
        m = dict(op)
        m.pop("stratum", None)
        m.pop("repeat", None)
        if m["op"] == "regrid":
            for k, n in m["n"]:
                spec[k] = dict(spec[k], n=n)
            m = {"op": "regrid", "subs": [[k] + list(_entity_counts(spec[k])) for k in subs],
                 "intfs": [[k] + list(_entity_counts(spec[k])) for k in intfs]}
        if "refs" in m:
            m["refs"] = _mrefs(m["refs"])
        if m["op"] == "create" and m["dof"] is None:
            m["dof"] = [[0, 1]]
        ops.append(m)
        if op["op"] in LAYOUT_OPS or j == last:
            ops.append({"op": "dump"})
        if op["op"] in LAYOUT_OPS:
            ops.append({"op": "probe"})
    return ops


def model_decode(outs, case):
    return outs


def compare(impl, model, case):
    return deep_compare(impl, model)


# ----------------------------------------------------------------------------- oracle: the statement on the real code
def _expected_size(v):
    import porepy as pp
    n = v.domain.num_cells * v._cells
    if isinstance(v.domain, pp.Grid):
        n += v.domain.num_faces * v._faces + v.domain.num_nodes * v._nodes
    return int(n)


SCRATCH = 7  # iterate index used by the oracle's own round trips; histories only use indices 0..2


def _check_layout(w, case, clustered_expected, tag):
    """Partition / order / lookup / projection statements in the current state of the real system."""
    es = w.es
    vs = list(es._variables.values())
    nv = len(vs)
    nums = es._variable_numbers
    if set(nums.keys()) != set(es._variables.keys()) or sorted(nums.values()) != list(range(nv)):
        return {"what": f"{tag}: block numbers {dict(nums)} are not a bijection from the {nv} registered variables onto 0..{nv - 1}", "key": "numbers-not-bijection"}
    if len(es._variable_num_dofs) != nv:
        return {"what": f"{tag}: {len(es._variable_num_dofs)} block sizes for {nv} variables", "key": "sizes-length"}
    N = es.num_dofs()
    by_block = sorted(vs, key=lambda v: nums[v.id])
    pos = 0
    owner = []
    for v in by_block:
        d = es.dofs_of([v])
        sz = _expected_size(v)
        if [int(i) for i in d] != list(range(pos, pos + sz)):
            return {"what": f"{tag}: dofs_of(variable #{w.vidx(v)}) = {d.tolist()} but its block must be the contiguous range [{pos},{pos + sz})", "key": "dofs-not-contiguous-partition"}
        owner += [v] * sz
        pos += sz
    if pos != N:
        return {"what": f"{tag}: blocks cover [0,{pos}) but num_dofs() = {N}", "key": "num-dofs-mismatch"}
    if clustered_expected:
        subs, intfs = expected_order(case)
        rank = {k: i for i, k in enumerate(subs + intfs)}
        keys = [(rank.get(w.key_of.get(id(v.domain), -1), -1), w.vidx(v)) for v in by_block]
        if keys != sorted(keys):
            return {"what": f"{tag}: blocks are not ordered by subdomain order, interface order, creation order: (grid position, creation index) per block = {keys}", "key": "cluster-order"}
    for d in range(N):
        try:
            got = es.identify_dof(d)
        except Exception as e:
            return {"what": f"{tag}: identify_dof({d}) raised {type(e).__name__} with num_dofs = {N}", "key": "identify-raises-in-range"}
        if got is not owner[d]:
            return {"what": f"{tag}: identify_dof({d}) returned variable #{w.vidx(got)} but the index lies in the block of #{w.vidx(owner[d])}", "key": "identify-wrong-owner"}
    for d in (-1, N, N + 3):
        try:
            es.identify_dof(d)
            return {"what": f"{tag}: identify_dof({d}) did not raise with num_dofs = {N}", "key": "identify-out-of-range-accepted"}
        except KeyError:
            pass
        except Exception as e:
            return {"what": f"{tag}: identify_dof({d}) with num_dofs = {N} raised {type(e).__name__} instead of KeyError", "key": "identify-out-of-range-wrong-error"}
    return None


def _check_projection(w, sel, tag):
    """projection_to(sel) selects exactly the dofs of sel, in increasing order."""
    es = w.es
    N = es.num_dofs()
    want = sorted(int(i) for v in sel for i in es.dofs_of([v]))
    P = es.projection_to(list(sel))
    if P.shape != (len(want), N):
        return {"what": f"{tag}: projection_to has shape {P.shape}, expected {(len(want), N)}", "key": "projection-shape"}
    got = _proj_canon(P)
    if got.get("idx") != want:
        return {"what": f"{tag}: projection_to selects {got} but the variables own the indices {want}", "key": "projection-wrong-indices"}
    return None


def _check_values(w, rng, tag):
    """Set-then-get on the oracle's scratch slot for a random subset, in global order, other variables untouched."""
    es = w.es
    vs = list(es._variables.values())
    if not vs:
        return None
    if len({(v.name, id(v.domain)) for v in vs}) != len(vs):
        return None  # a (rejected) create with a repeated grid left aliased variables behind: outside the statement
    N = es.num_dofs()
    glob = np.array([float(Fraction(rng.randint(-64, 64), rng.choice([1, 2, 4]))) for _ in range(N)])
    es.set_variable_values(glob, iterate_index=SCRATCH)
    back = es.get_variable_values(iterate_index=SCRATCH)
    if back.shape != glob.shape or not np.array_equal(back, glob):
        return {"what": f"{tag}: global set-then-get returned {back.tolist()} for {glob.tolist()}", "key": "roundtrip-global"}
    sel = [v for v in vs if rng.random() < 0.5]
    rng.shuffle(sel)
    idx = sorted(int(i) for v in sel for i in es.dofs_of([v]))
    sub = es.get_variable_values(list(sel), iterate_index=SCRATCH) if sel else np.empty(0)
    if sel and (sub.shape != (len(idx),) or not np.array_equal(sub, glob[idx])):
        return {"what": f"{tag}: get_variable_values of a subset returned {sub.tolist()}, the global vector restricted to its (sorted) dofs is {glob[idx].tolist()}", "key": "get-not-global-order"}
    if sel:
        new = np.array([float(Fraction(rng.randint(-64, 64), rng.choice([1, 2, 4]))) for _ in idx])
        additive = rng.random() < 0.5
        es.set_variable_values(new.copy(), list(sel), iterate_index=SCRATCH, additive=additive)
        want = glob.copy()
        want[idx] = (want[idx] + new) if additive else new
        sub2 = es.get_variable_values(list(reversed(sel)), iterate_index=SCRATCH)
        if sub2.shape != new.shape or not np.array_equal(sub2, want[idx]):
            return {"what": f"{tag}: subset set(additive={additive}) then get returned {sub2.tolist()}, expected {want[idx].tolist()}", "key": "roundtrip-subset-additive" if additive else "roundtrip-subset"}
        back = es.get_variable_values(iterate_index=SCRATCH)
        if not np.array_equal(back, want):
            return {"what": f"{tag}: subset write changed values of variables outside the subset (or misplaced them): global vector {back.tolist()}, expected {want.tolist()}", "key": "set-frame"}
    return None


def _guard(fn, tag, *a):
    """A well-formed call of the real code that raises is a failure of the statement, not of the harness."""
    try:
        return fn(*a)
    except Exception as e:
        return {"what": f"{tag}: a well-formed call raised {type(e).__name__} ({str(e)[:120]}) during {fn.__name__}", "key": f"wellformed-call-raises:{fn.__name__}"}


def oracle(case):
    w = World(case)
    es = w.es
    rng = random.Random(repr(case["ops"])[:200] + str(len(case["ops"])))
    ngrids = len(case["grids"])
    clustered = True
    dup_create_seen = False
    r = _guard(_check_layout, "initially", w, case, clustered, "initially")
    if r:
        return r
    for j, op in enumerate(case["ops"]):
        kind = op["op"]
        tag = f"after op {j} ({kind})"
        pre = None
        if kind == "set":
            # the statement for this very call: written values come back (old + written if additive)
            sel = _resolve(w, op["refs"])
            pre = _guard(_pre_set, tag, w, op, sel)
            if pre is not None and "key" in pre:
                return pre
        rm = None
        if kind == "remove":
            sel = _resolve(w, op["refs"])
            if len({v.id for v in sel}) == len(sel) and all(v.id in es._variables for v in sel):
                rm = (set(es._variables) - {v.id for v in sel},
                      [i for i in sorted(es._variables, key=lambda i: es._variable_numbers[i]) if i not in {v.id for v in sel}], len(sel))
        ans = w.apply(j, op)
        if rm is not None:
            # several variables in one call, in whatever order: exactly they disappear, the others keep their relative order
            if ans != "ok":
                return {"what": f"{tag}: removing distinct registered variables raised {ans}", "key": "remove-raises"}
            if set(es._variables) != rm[0] or (clustered and sorted(es._variables, key=lambda i: es._variable_numbers.get(i, -1)) != rm[1]):
                return {"what": f"{tag}: after removing variables {op['refs']} the registered variables / their block order are "
                                f"{[w.index_of.get(i) for i in sorted(es._variables, key=lambda i: es._variable_numbers.get(i, -1))]}, expected {[w.index_of.get(i) for i in rm[1]]}",
                        "key": "remove-wrong-result"}
        if kind == "create" and any((op.get(k) or []).count(g) > 1 for k in ("subs", "intfs") for g in (op.get(k) or [])):
            dup_create_seen = True
        if not dup_create_seen and len({(v.name, id(v.domain)) for v in es._variables.values()}) != len(es._variables):
            return {"what": f"{tag}: two registered variables share name and domain although no create call repeated a grid", "key": "aliased-variables"}
        if kind == "regrid" and ans != "ok":
            return {"what": f"{tag}: update_variable_num_dofs raised {ans} after the grids changed their entity counts", "key": "update-num-dofs-raises"}
        if kind == "md_variable" and isinstance(ans, dict) and "ids" in ans:
            doms = None if op.get("domains") is None else [w.objs[k] for k in op["domains"]]
            want = [w.vidx(v) for v in es._variables.values() if v.name == f"v{op['name']}" and (doms is None or any(v.domain is d for d in doms))]
            if ans["ids"] != want:
                return {"what": f"{tag}: md_variable wraps variables {ans['ids']}, the registered variables of that name (on those domains) are {want}", "key": "md-variable-wrong-members"}
            if want and [int(i) for i in es.dofs_of([w.md[j]])] != [int(i) for v in es._variables.values() if w.vidx(v) in want for i in es.dofs_of([v])]:
                return {"what": f"{tag}: dofs_of(md_variable) differs from the concatenated blocks of its members", "key": "md-variable-dofs"}
        if kind == "create" and (op.get("subs") is None) != (op.get("intfs") is None):
            gl = op["subs"] if op.get("subs") is not None else op["intfs"]
            want_kind = "sub" if op.get("subs") is not None else "intf"
            if any(not (0 <= k < ngrids and case["grids"][k]["kind"] == want_kind) for k in gl):
                clustered = False  # the call raised half-way (grid not in the md-grid): order is only claimed for well-formed histories
        if kind == "create" and isinstance(ans, dict) and "ids" in ans:
            clustered = True  # a create that ran to completion re-clustered everything
        if rm is not None and ans == "ok" and rm[2] > 0:
            clustered = True  # so did a removal of at least one variable
        if kind == "set" and pre is not None and ans == "ok":
            r = _guard(_post_set, tag, w, op, pre, tag)
            if r:
                return r
        if kind == "set" and pre is not None and pre["wellformed"] and ans != "ok":
            return {"what": f"{tag}: a correctly sized write to registered variables raised {ans}", "key": "set-raises"}
        if kind in LAYOUT_OPS or j == len(case["ops"]) - 1:
            r = _guard(_check_layout, tag, w, case, clustered, tag)
            if r:
                return r
            vs = list(es._variables.values())
            for sel in [vs] + [[v] for v in vs[:6]] + ([rng.sample(vs, rng.randint(1, len(vs)))] if vs else []):
                if sel:
                    r = _guard(_check_projection, tag, w, sel, tag)
                    if r:
                        return r
            r = _guard(_check_values, tag, w, rng, tag)
            if r:
                return r
        if kind == "projection" and isinstance(ans, dict) and "err" not in ans:
            sel = _resolve(w, op["refs"])
            if sel is not None and len({v.id for v in sel}) == len(sel) and all(v.id in es._variables for v in sel):
                r = _guard(_check_projection, tag, w, sel, tag) if sel else None
                if r:
                    return r
        if kind == "dofs_of" and isinstance(ans, dict) and "ids" in ans:
            sel = _resolve(w, op["refs"])
            if sel is not None and all(v.id in es._variables for v in sel):
                want = [int(i) for v in sel for i in es.dofs_of([v])]
                if ans["ids"] != want:
                    return {"what": f"{tag}: dofs_of of a list is {ans['ids']}, the concatenation of the single blocks in argument order is {want}", "key": "dofs-of-list-order"}
    return None


def _resolve(w, refs):
    """Variables denoted by refs (all registered variables for None), or None if it cannot be resolved."""
    es = w.es
    if refs is None:
        return list(es._variables.values())
    out = []
    for r in refs:
        if r[0] == 0:
            out += [v for v in es._variables.values() if v.name == f"v{r[1]}"]
        elif r[0] == 1:
            out.append(w.var(r[1]))
        else:
            out += [w.var(i) for i in r[2]]
    return out


def _pre_set(w, op, sel):
    es = w.es
    reg = [v for v in es._variables.values() if any(v is s for s in sel)]
    if len({(v.name, id(v.domain)) for v in es._variables.values()}) != len(es._variables):
        return None  # aliased variables (left behind by a rejected create with a repeated grid)
    slots = []
    if op.get("iter") is not None and op["iter"] >= 0:
        slots.append(("iter", op["iter"]))
    if op.get("ts") is not None and op["ts"] >= 0:
        slots.append(("ts", op["ts"]))
    bad_index = (op.get("iter") is None and op.get("ts") is None) or (op.get("iter") is not None and op["iter"] < 0) or (op.get("ts") is not None and op["ts"] < 0)
    if bad_index:
        return None
    by_block = sorted(reg, key=lambda v: es._variable_numbers[v.id])
    total = sum(_expected_size(v) for v in by_block)
    others = [v for v in es._variables.values() if not any(v is s for s in reg)]
    old, old_others = {}, {}
    ok_old = True
    for kind, i in slots:
        kw = {"iterate_index": i} if kind == "iter" else {"time_step_index": i}
        parts = []
        for v in by_block:
            try:
                x = es.get_variable_values([v], **kw)
                if x.size != _expected_size(v):
                    ok_old = False  # stale values of an earlier variable of the same name on this grid
                parts.append(x)
            except KeyError:
                ok_old = False
        old[(kind, i)] = np.concatenate(parts) if parts else np.empty(0)
        oo = []
        for v in others:
            try:
                oo.append(es.get_variable_values([v], **kw))
            except KeyError:
                oo.append(None)
        old_others[(kind, i)] = oo
    wellformed = len(op["vals"]) == total and (not op["additive"] or ok_old)
    return {"reg": by_block, "others": others, "slots": slots, "old": old, "old_others": old_others, "wellformed": wellformed, "total": total}


def _post_set(w, op, pre, tag):
    es = w.es
    if not pre["wellformed"]:
        return None
    vals = np.array([float(Fraction(x)) for x in op["vals"]])
    for kind, i in pre["slots"]:
        kw = {"iterate_index": i} if kind == "iter" else {"time_step_index": i}
        want = pre["old"][(kind, i)] + vals if op["additive"] else vals
        try:
            got = es.get_variable_values(list(reversed(pre["reg"])), **kw) if pre["reg"] else np.empty(0)
        except Exception as e:
            return {"what": f"{tag}: get after a successful set raised {type(e).__name__}", "key": "get-after-set-raises"}
        if got.shape != want.shape or not np.array_equal(got, want):
            return {"what": f"{tag}: set(additive={op['additive']}) then get at {kind} index {i} returned {got.tolist()}, expected {want.tolist()}", "key": "roundtrip-additive" if op["additive"] else "roundtrip-set-get"}
        for v, o in zip(pre["others"], pre["old_others"][(kind, i)]):
            try:
                now = es.get_variable_values([v], **kw)
            except KeyError:
                now = None
            if (o is None) != (now is None) or (o is not None and not np.array_equal(o, now)):
                return {"what": f"{tag}: writing a subset changed the stored values of variable #{w.vidx(v)} outside the subset", "key": "set-frame"}
    return None


# ----------------------------------------------------------------------------- generator
class _Sim:
    """Just enough bookkeeping to generate mostly well-formed calls (not used for any verdict)."""

    def __init__(self, grids):
        self.grids0 = [dict(g) for g in grids]
        self.grids = [dict(g) for g in grids]
        self.vars = []      # dicts: idx name grid size alive
        self.creates = []   # (op index, ids) of successful creates
        self.stored = {}    # (name, grid, slotkind, i) -> length of the stored array (None: unknown)
        self.aliased = False

    def regrid(self, changes):
        for k, n in changes:
            self.grids[k] = dict(self.grids[k], n=n)
        for v in self.vars:
            v["size"] = self.size(v["grid"], v["dof"], v["as_sub"])

    def good(self, v, key):
        """the storage of variable v holds an array of v's size at the slot `key`"""
        return self.stored.get((v["name"], v["grid"]) + key) == v["size"]

    def note_set(self, op, ids):
        keys = _slotkeys(op)
        sel = [v for v in self.alive() if v["idx"] in set(ids)]
        if op["additive"] or not keys:
            return  # additive writes never change a length
        exact = len(op["vals"]) == sum(v["size"] for v in sel)
        for v in sel:
            for k in keys:
                self.stored[(v["name"], v["grid"]) + k] = v["size"] if exact else None

    def alive(self):
        return [v for v in self.vars if v["alive"]]

    def size(self, g, dof, as_sub):
        c, f, n = _entity_counts(self.grids[g])
        d = dict((k, m) for k, m in dof)
        return c * d.get(0, 0) + ((f * d.get(1, 0) + n * d.get(2, 0)) if as_sub else 0)

    def create(self, j, op):
        dof = op["dof"] if op["dof"] is not None else [[0, 1]]
        if any(k > 2 for k, _ in dof):
            return
        if (op.get("subs") is None) == (op.get("intfs") is None):
            return
        as_sub = op.get("subs") is not None
        gl = op["subs"] if as_sub else op["intfs"]
        if any(v["name"] == op["name"] and v["grid"] in gl for v in self.alive()):
            return
        ids = []
        for g in gl:
            if not (0 <= g < len(self.grids) and self.grids[g]["kind"] == ("sub" if as_sub else "intf")):
                return
            ids.append(len(self.vars))
            self.vars.append({"idx": len(self.vars), "name": op["name"], "grid": g, "size": self.size(g, dof, as_sub), "alive": True,
                              "dof": dof, "as_sub": as_sub})
            if gl.count(g) > 1:
                self.aliased = True
        if len(set(gl)) == len(gl):
            self.creates.append((j, ids))

    def resolve(self, refs):
        if refs is None:
            return [v["idx"] for v in self.alive()]
        out = []
        for r in refs:
            if r[0] == 0:
                out += [v["idx"] for v in self.alive() if v["name"] == r[1]]
            elif r[0] == 1:
                out.append(r[1])
            else:
                out += r[2]
        return out

    def remove(self, refs):
        for i in self.resolve(refs):
            if i < len(self.vars) and self.vars[i]["alive"]:
                self.vars[i]["alive"] = False
            else:
                return

    def total(self, ids):
        s = set(ids)
        return sum(v["size"] for v in self.alive() if v["idx"] in s)

    def block_order(self):
        """registered variables in the order of their blocks: md-grid listing position, then creation"""
        subs, intfs = expected_order({"grids": self.grids})
        rank = {k: i for i, k in enumerate(subs + intfs)}
        return sorted(self.alive(), key=lambda v: (rank.get(v["grid"], -1), v["idx"]))


def _gen_removal(rng, sim):
    """Well-formed removals, stratified: one / several variables in one call (ascending, descending and shuffled block
    order), by Variable, by name, by md-variable, everything, and mixtures without repetition. Returns (refs, stratum)."""
    blocks = sim.block_order()
    if not blocks:
        return [[0, rng.randrange(4)]], "name-unknown"
    mode = rng.choice(["one", "multi-asc", "multi-desc", "multi-desc", "multi-shuffled", "multi-shuffled", "name", "names", "md", "all", "mixed"])
    if mode == "one" or len(blocks) == 1 and mode.startswith("multi"):
        return [[1, rng.choice(blocks)["idx"]]], "one"
    if mode.startswith("multi"):
        k = rng.randint(2, len(blocks))
        pos = sorted(rng.sample(range(len(blocks)), k))
        if mode == "multi-desc":
            pos.reverse()
        elif mode == "multi-shuffled":
            while len(pos) > 2 and (pos == sorted(pos) or pos == sorted(pos, reverse=True)):
                rng.shuffle(pos)
            if len(pos) == 2:
                pos.reverse()
        return [[1, blocks[i]["idx"]] for i in pos], mode
    names = sorted({v["name"] for v in blocks})
    if mode == "name":
        return [[0, rng.choice(names)]], "name"
    if mode == "names":
        return [[0, n] for n in rng.sample(names, min(len(names), rng.randint(2, 3)))], "names"
    if mode == "md":
        live = [(j, ids) for j, ids in sim.creates if ids and all(sim.vars[i]["alive"] for i in ids)]
        if live:
            picks = rng.sample(live, min(len(live), rng.choice([1, 1, 2])))
            seen, refs = set(), []
            for j, ids in picks:
                if not seen & set(ids):
                    refs.append([2, j, list(ids)])
                    seen |= set(ids)
            return refs, "md" if len(refs) == 1 else "mds"
        return [[1, rng.choice(blocks)["idx"]]], "one"
    if mode == "all":
        return None, "all"
    # mixed: a name, plus Variables and an md-variable that do not carry that name (no variable twice)
    n = rng.choice(names)
    others = [v for v in blocks if v["name"] != n]
    rng.shuffle(others)
    refs = [[0, n]] + [[1, v["idx"]] for v in others[: rng.randint(0, 3)]]
    rng.shuffle(refs)
    return refs, "mixed"


def _slotkeys(op):
    it, ts = op.get("iter"), op.get("ts")
    if (it is None and ts is None) or (it is not None and it < 0) or (ts is not None and ts < 0):
        return []
    return ([("iter", it)] if it is not None else []) + ([("ts", ts)] if ts is not None else [])


def _gen_grids(rng):
    ns = rng.choice([1, 2, 2, 3, 3, 4])
    ni = rng.choice([0, 0, 1, 1, 2, 3]) if ns >= 1 else 0
    grids = []
    for _ in range(ns):
        grids.append({"kind": "sub", "dim": rng.choice([0, 1, 1, 2, 2, 3]), "n": rng.choice([1, 1, 2, 3])})
    for _ in range(ni):
        grids.append({"kind": "intf", "dim": rng.choice([0, 1, 1, 2]), "n": rng.choice([1, 2]), "sides": rng.choice([1, 2]), "pair": [0, 0]})
    rng.shuffle(grids)
    # pairs refer to subdomain keys: fix them up after the shuffle
    subs = [k for k, g in enumerate(grids) if g["kind"] == "sub"]
    for g in grids:
        if g["kind"] == "intf":
            a = rng.choice(subs)
            g["pair"] = [a, rng.choice([b for b in subs if abs(grids[a]["dim"] - grids[b]["dim"]) <= 2])]
            # a mortar grid never has a higher dimension than its neighbours (mdg.interfaces() lists dimensions <= dim_max only)
            g["dim"] = min(g["dim"], min(grids[k]["dim"] for k in g["pair"]))
    ranks = list(range(len(grids)))
    rng.shuffle(ranks)
    for g, r in zip(grids, ranks):
        g["rank"] = r
    return grids


def _gen_dof(rng):
    r = rng.random()
    if r < 0.08:
        return None  # default {"cells": 1}
    if r < 0.14:
        return []
    mult = lambda: rng.choice([0, 0, 1, 1, 1, 2, 3])
    kinds = [k for k in (0, 1, 2) if rng.random() < 0.55] or [0]
    rng.shuffle(kinds)
    return [[k, mult()] for k in kinds]


def _gen_refs(rng, sim, allow_bad):
    r = rng.random()
    alive = sim.alive()
    if r < 0.15:
        return None
    if r < 0.2:
        return []
    refs = []
    for _ in range(rng.randint(1, 4)):
        t = rng.random()
        if t < 0.3:
            refs.append([0, rng.randrange(5)])
        elif t < 0.85 and alive:
            refs.append([1, rng.choice(alive)["idx"]])
        elif t < 0.95 and sim.creates:
            j, ids = rng.choice(sim.creates)
            if allow_bad or all(sim.vars[i]["alive"] for i in ids):
                refs.append([2, j, list(ids)])
        elif allow_bad:
            dead = [v["idx"] for v in sim.vars if not v["alive"]]
            refs.append([1, rng.choice(dead) if dead and rng.random() < 0.7 else 1000 + rng.randrange(3)])
    if not allow_bad:
        refs = [r for r in refs if not (r[0] == 1 and not (r[1] < len(sim.vars) and sim.vars[r[1]]["alive"]))]
    return refs


def _dy(rng):
    return frac(Fraction(rng.randint(-64, 64), rng.choice([1, 1, 2, 4, 8])))


def gen_case(rng, tier):
    grids = _gen_grids(rng)
    sim = _Sim(grids)
    subs = [k for k, g in enumerate(grids) if g["kind"] == "sub"]
    intfs = [k for k, g in enumerate(grids) if g["kind"] == "intf"]
    nops = rng.randint(1, 25 if tier == "quick" else 40)
    ops = []
    for j in range(nops):
        bad = rng.random() < 0.12
        t = rng.random()
        if t < 0.30 or not sim.alive() and t < 0.6:
            name = rng.randrange(4)
            on_intf = bool(intfs) and rng.random() < 0.35
            pool = intfs if on_intf else subs
            if not bad:
                free = [g for g in pool if not any(v["name"] == name and v["grid"] == g for v in sim.alive())]
                if not free and rng.random() < 0.8:
                    name = rng.randrange(4, 6)
                    free = list(pool)
                gl = rng.sample(free, rng.randint(1 if rng.random() < 0.95 else 0, len(free))) if free else rng.sample(pool, 1)
            else:
                gl = rng.sample(pool, rng.randint(1, len(pool)))
            op = {"op": "create", "name": name, "dof": _gen_dof(rng), "subs": None, "intfs": None}
            op["intfs" if on_intf else "subs"] = gl
            if bad:
                b = rng.random()
                if b < 0.2:
                    gl.insert(rng.randrange(len(gl) + 1), rng.choice(gl))          # repeated grid
                elif b < 0.45:
                    gl.insert(rng.randrange(len(gl) + 1), len(grids) + rng.randrange(2))  # grid not in the md-grid
                elif b < 0.6 and intfs and subs:
                    gl.insert(rng.randrange(len(gl) + 1), rng.choice(subs if on_intf else intfs))  # wrong kind of grid
                elif b < 0.7:
                    op["subs"], op["intfs"] = None, None
                elif b < 0.8:
                    op["subs"], op["intfs"] = list(subs[:1]), list(intfs[:1])
                elif b < 0.9:
                    op["dof"] = (op["dof"] or []) + [[3, 1]]
                # else: whatever name/grid collision the random choice produced
            sim.create(len(ops), op)
            ops.append(op)
        elif t < 0.45:
            if bad:
                refs = _gen_refs(rng, sim, True)
                if refs is None and rng.random() < 0.7:
                    refs = [[0, rng.randrange(4)]]
                if refs and rng.random() < 0.4:
                    refs.append(list(rng.choice(refs)))  # the same variable twice
                stratum = "malformed"
            else:
                refs, stratum = _gen_removal(rng, sim)
            op = {"op": "remove", "refs": refs, "stratum": stratum}
            sim.remove(refs)
            ops.append(op)
        elif t < 0.62:
            refs = _gen_refs(rng, sim, bad and rng.random() < 0.3)
            slot = rng.choice([{"iter": 0}, {"iter": 0}, {"iter": 1}, {"ts": 0}, {"ts": 1}, {"iter": 0, "ts": 0}, {"iter": 2, "ts": 1}])
            additive = rng.random() < 0.4
            if additive and not bad and rng.random() < 0.85:
                # mostly well-formed additive writes: a slot and variables that hold values of the right size there
                options = []
                for sl in ({"iter": 0}, {"iter": 1}, {"ts": 0}, {"ts": 1}, {"iter": 0, "ts": 0}, {"iter": 2, "ts": 1}):
                    cand = [v for v in sim.alive() if all(sim.good(v, k) for k in _slotkeys(sl))]
                    if cand:
                        options.append((sl, cand))
                if options:
                    slot, cand = rng.choice(options)
                    refs = [[1, v["idx"]] for v in rng.sample(cand, rng.randint(1, len(cand)))]
                    if len(cand) == len(sim.alive()) and rng.random() < 0.25:
                        refs = None
                else:
                    additive = False
            ids = sim.resolve(refs)
            n = sim.total(ids)
            if bad:
                b = rng.random()
                if b < 0.5:
                    n = max(0, n + rng.choice([-2, -1, 1, 2, 5])) if rng.random() < 0.8 else 1
                elif b < 0.6:
                    slot = {}
                elif b < 0.7:
                    slot = rng.choice([{"iter": -1}, {"ts": -1}, {"iter": 0, "ts": -2}])
                else:
                    additive = True
            op = {"op": "set", "vals": [_dy(rng) for _ in range(n)], "refs": refs, "iter": slot.get("iter"), "ts": slot.get("ts"), "additive": additive}
            sim.note_set(op, ids)
            ops.append(op)
        elif t < 0.74:
            refs = _gen_refs(rng, sim, bad and rng.random() < 0.3)
            slot = rng.choice([{"iter": 0}, {"iter": 0}, {"iter": 1}, {"ts": 0}, {"ts": 1}, {"iter": 2}])
            if bad:
                slot = rng.choice([{}, {"iter": 0, "ts": 0}, {"iter": -1}, {"ts": 2}, slot])
            elif rng.random() < 0.8:
                # mostly reads of variables that were written before (in an order unrelated to the global one)
                slots = [sl for sl in ({"iter": 0}, {"iter": 1}, {"iter": 2}, {"ts": 0}, {"ts": 1}) if any(sim.good(v, _slotkeys(sl)[0]) for v in sim.alive())]
                if slots:
                    slot = rng.choice(slots)
                    cand = [v for v in sim.alive() if sim.good(v, _slotkeys(slot)[0])]
                    if len(cand) == len(sim.alive()) and rng.random() < 0.3:
                        refs = None
                    else:
                        refs = [[1, v["idx"]] for v in rng.sample(cand, rng.randint(1, len(cand)))]
                        if rng.random() < 0.2:
                            refs.append(list(rng.choice(refs)))
            ops.append({"op": "get", "refs": refs, "iter": slot.get("iter"), "ts": slot.get("ts")})
        elif t < 0.82:
            ops.append({"op": "dofs_of", "refs": _gen_refs(rng, sim, bad)})
        elif t < 0.88:
            n = sum(v["size"] for v in sim.alive())
            d = rng.choice([-1, n, n + 2, -5]) if bad or n == 0 else rng.randrange(n)
            ops.append({"op": "identify", "dof": d})
        elif t < 0.94:
            ops.append({"op": "projection", "refs": _gen_refs(rng, sim, bad)})
        elif t < 0.965 and not sim.aliased:
            # md_variable(name[, domains]): known / unknown names, all / some / no domains
            name = rng.choice([v["name"] for v in sim.alive()] + [rng.randrange(6)])
            doms = None if rng.random() < 0.5 else rng.sample(range(len(grids)), rng.randint(0, len(grids)))
            op = {"op": "md_variable", "name": name, "domains": doms}
            ids = [v["idx"] for v in sim.alive() if v["name"] == name and (doms is None or v["grid"] in doms)]
            kinds = {v["as_sub"] for v in sim.alive() if v["name"] == name}
            if ids and (doms is not None or len(kinds) == 1):
                sim.creates.append((len(ops), ids))
            ops.append(op)
        elif t < 0.985:
            # the grids are refined / coarsened, then update_variable_num_dofs()
            ks = rng.sample(range(len(grids)), rng.randint(1, len(grids)))
            changes = [[k, rng.choice([1, 2, 3, 4])] for k in ks if not (grids[k]["dim"] == 0 and grids[k]["kind"] == "sub")]
            sim.regrid(changes)
            ops.append({"op": "regrid", "n": changes})
        else:
            ops.append({"op": "num_dofs"})
        if rng.random() < 0.05 and ops[-1]["op"] not in ("regrid", "md_variable"):
            # repeated operation: the very same call once more (second create -> KeyError, second additive write adds again, ...)
            rep = json.loads(json.dumps(ops[-1]))
            rep["repeat"] = True
            if rep["op"] == "create":
                sim.create(len(ops), rep)
            elif rep["op"] == "remove":
                sim.remove(rep["refs"])
            elif rep["op"] == "set":
                sim.note_set(rep, sim.resolve(rep["refs"]))
            ops.append(rep)
    return {"grids": sim.grids0, "ops": ops}


# ----------------------------------------------------------------------------- evidence helpers
def nontrivial(case):
    kinds = [o["op"] for o in case["ops"]]
    return kinds.count("create") >= 2 and "remove" in kinds and "set" in kinds and "get" in kinds


def shrink_candidates(case):
    ops = case["ops"]
    for i in reversed(range(len(ops))):
        if ops[i]["op"] != "create":  # dropping a create would renumber the variables that later calls refer to
            yield dict(case, ops=ops[:i] + ops[i + 1:])
    for i in reversed(range(len(ops))):
        yield dict(case, ops=ops[:i])
    for i, op in enumerate(ops):
        if op.get("refs") and len(op["refs"]) > 1:
            for k in range(len(op["refs"])):
                yield dict(case, ops=ops[:i] + [dict(op, refs=op["refs"][:k] + op["refs"][k + 1:])] + ops[i + 1:])


def _unsorted(case, op):
    subs, intfs = expected_order(case)
    pos = {k: i for i, k in enumerate(subs + intfs)}
    gl = [pos[g] for g in (op.get("subs") or op.get("intfs") or []) if g in pos]
    return gl != sorted(gl)


def stats(cases, impl_outs):
    from collections import Counter
    kinds = Counter(o["op"] for c in cases for o in c["ops"])
    errs = Counter()
    zero_blocks = blocks = maxdofs = 0
    ok = Counter()
    for c, out in zip(cases, impl_outs):
        if not isinstance(out, list):
            continue
        k = 1
        for j, op in enumerate(c["ops"]):
            if k < len(out) and not (isinstance(out[k], dict) and "err" in out[k]):
                ok[op["op"] + ("_additive" if op.get("additive") else "")] += 1
            k += 1 + (1 if op["op"] in LAYOUT_OPS or j == len(c["ops"]) - 1 else 0) + (1 if op["op"] in LAYOUT_OPS else 0)
        for o in out:
            if isinstance(o, dict) and "err" in o:
                errs[o["err"]] += 1
            if isinstance(o, dict) and "sizes" in o:
                blocks += len(o["sizes"])
                zero_blocks += sum(1 for s in o["sizes"] if s == 0)
                maxdofs = max(maxdofs, sum(o["sizes"]))
    return {"ops": dict(kinds), "calls_that_succeeded": dict(ok), "errors_raised_by_impl": dict(errs), "block_observations": blocks, "zero_size_block_observations": zero_blocks,
            "max_num_dofs": maxdofs, "history_length": dict(Counter(min(len(c["ops"]) // 5 * 5, 40) for c in cases)),
            "subdomains": dict(Counter(sum(1 for g in c["grids"] if g["kind"] == "sub") for c in cases)),
            "interfaces": dict(Counter(sum(1 for g in c["grids"] if g["kind"] == "intf") for c in cases)),
            "strata": {
                "repeated_calls": sum(1 for c in cases for o in c["ops"] if o.get("repeat")),
                "regrid_calls": kinds.get("regrid", 0), "md_variable_calls": kinds.get("md_variable", 0),
                "creates_zero_dofs": sum(1 for c in cases for o in c["ops"] if o["op"] == "create" and not any(m for _, m in (o["dof"] if o["dof"] is not None else [[0, 1]]))),
                "creates_on_one_grid": sum(1 for c in cases for o in c["ops"] if o["op"] == "create" and len(o.get("subs") or o.get("intfs") or []) == 1),
                "creates_on_empty_list": sum(1 for c in cases for o in c["ops"] if o["op"] == "create" and (o.get("subs") == [] or o.get("intfs") == [])),
                "creates_grids_not_in_md_order": sum(1 for c in cases for o in c["ops"] if o["op"] == "create" and _unsorted(c, o)),
                "single_dof_blocks_observed": sum(1 for out in impl_outs if isinstance(out, list) for o in out if isinstance(o, dict) and "sizes" in o for x in o["sizes"] if x == 1),
                "cases_with_one_grid": sum(1 for c in cases if len(c["grids"]) == 1),
                "refs_with_duplicates": sum(1 for c in cases for o in c["ops"] if o.get("refs") and len({json.dumps(r) for r in o["refs"]}) < len(o["refs"])),
                "empty_refs": sum(1 for c in cases for o in c["ops"] if o.get("refs") == []),
            },
            "removal_strata": dict(Counter(o.get("stratum", "?") for c in cases for o in c["ops"] if o["op"] == "remove")),
            "additive_sets": sum(1 for c in cases for o in c["ops"] if o["op"] == "set" and o["additive"])}
