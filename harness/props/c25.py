"""C25 Fractured mixed-dimensional grids are geometrically conforming.

Lean model: the face-splitting bookkeeping of `split_grid.split_faces` (duplicate_faces, _update_face_cells,
update_cell_connectivity, remove_faces, tags) for a list of fractures of one host grid, and the mortar cell bookkeeping of
`meshing.create_interfaces` / `MortarGrid._init_projections`.
Correspondence: Cartesian networks (pp.meshing.cart_grid / pp.create_mdg("cartesian")): for every subdomain that hosts
lower-dimensional neighbours the UNSPLIT incidence, tags, normals, face->cell maps (from an independent build with
structured._cart_grid_xd + _tag_faces + _assemble_mdg) and the side flags (computed here with exact rationals) are sent to the
Lean driver; the split cell_faces, tags, frac_pairs, normals, face_cells of every interface and the mortar maps of the real
mixed-dimensional grid are compared exactly.
Oracle: every statement of the property, geometrically, on the real mixed-dimensional grid (Cartesian and simplex/gmsh).
"""
import os

for _v in ("OMP_NUM_THREADS", "OPENBLAS_NUM_THREADS", "MKL_NUM_THREADS", "NUMBA_NUM_THREADS"):
    os.environ.setdefault(_v, "1")

import json
import shutil
import tempfile
from fractions import Fraction as F

import numpy as np

from harness.common import frac, deep_compare

PID = "C25"
THEOREMS = [
    "PorepyVerif.C25.cells_preserved",
    "PorepyVerif.C25.tags_mark_coupled_of_aligned",
    "PorepyVerif.C25.tags_mark_coupled",
    "PorepyVerif.C25.split_face_pairs",
    "PorepyVerif.C25.split_normals_opposite",
    "PorepyVerif.C25.mortar_side_counts",
    "PorepyVerif.C25.mortar_after_split",
    "PorepyVerif.C25.nodes_on_line_eq",
    "PorepyVerif.C25.node_index_injective",
    "PorepyVerif.C25.nodes_on_line_exact",
    "PorepyVerif.C25.plane_faces_exact",
    "PorepyVerif.C25.plane_nodes_exact",
    "PorepyVerif.C25.node_components",
    "PorepyVerif.C25.split_nodes_count",
    "PorepyVerif.C25.node_copy_of_cell",
    "PorepyVerif.C25.valid_of_check",
    "PorepyVerif.C25.split_checked",
    "PorepyVerif.C25.entry_dispatch",
]
LEAN_MODULES = ["PorepyVerif.C25.Props"]
AUDIT = "PorepyVerif/C25/Audit.lean"
DRIVER = "PorepyVerif/C25/Driver.lean"
N = {"quick": 40, "thorough": 800}

RULE = ("kinds: cart2 (45%): pp.meshing.cart_grid / pp.create_mdg('cartesian') (80%) or pp.meshing.tensor_grid / pp.create_mdg('tensor_grid') with non-uniform dyadic "
        "node coordinates (20%) on 2-6 x 2-6 cells of dyadic size with 1-3 axis-aligned line "
        "fractures whose end points are grid nodes (10%: moved off the nodes by < 0.3 cell so that snapping is exercised), interior lines only, "
        "ends on the domain boundary allowed; a third of the cases are built as X / T / L patterns, the rest random (collinear overlapping fractures "
        "excluded). cart3 (45%): 2-4 cells per direction (40%: nx, ny, nz pairwise different, e.g. 2x5x3; in 2-D 40% nx != ny), 1-3 axis-aligned rectangles on interior grid planes, X / T / L and random. "
        "simplex (corpus: 2 cases, quick: 4%, thorough: 10%): gmsh triangle / tetrahedral meshes of the unit square / cube with 1-3 fractures "
        "(X, T, L, boundary-touching) - oracle only. non-trivial = at least two fractures that meet, or a fracture touching the boundary; "
        "distinct = distinct cases")
TRUSTED = [
    "modelled, not verified: gmsh and msh_2_grid (simplex cases are oracle-only); FractureNetwork3d (which intersection lines exist in 3-D structured grids; "
    "their node sets ARE modelled: findNodesOnLine); the nearest-node searches (np.argmin of distances) that turn end points into node indices; "
    "create_embedded_line_grid / _create_embedded_2d_grid (geometry of the lower-dimensional grids)",
    "_assemble_mdg's node-set matching of lower-dimensional cells to host faces: its output (one host face per cell) is INPUT of the splitting model; "
    "for 3-D fractures it is tied to the structured model by the correspondence (matched host faces = planeFaces)",
    "pp.TensorGrid numbering of nodes and faces and face centres (nodeIdx, faceIndex, center in the model) - tied by the correspondence on non-cubic grids",
    "networkx.connected_components is modelled by min-label propagation (|cluster| rounds + convergence check; components ordered by their smallest cell): "
    "convergence itself is checked at run time by the model (stable), not proved",
    "the side flag (cell centre - face centre) . normal <= 0 of update_cell_connectivity is input data of the model (computed by the harness with exact rationals)",
    "scipy sparse format conversions (csc/csr, nonzero ordering, merge_matrices / stack_mat) are modelled as row lists of the incidence matrix",
]
EXPLANATION = ("CORE: three Lean models. (A) split_faces over a list of fractures (all branches: nothing to duplicate, fracture on the boundary -> duplicates removed, "
               "ValueError, assertion, split) + mortar cell ordering of create_interfaces/_init_projections: cells_preserved (any run that does not raise), "
               "tags_mark_coupled(_of_aligned), and for valid inputs (Host.Valid) split_face_pairs, split_normals_opposite, mortar_side_counts, mortar_after_split; proof by an "
               "invariant of the loop (Lemmas.lean: Inv / Done). (B) structured generators: _find_nodes_on_line (np.arange with strides 1, nx+1, (nx+1)(ny+1)): nodes_on_line_eq / "
               "nodes_on_line_exact / node_index_injective for ALL nx, ny and the three directions; the face selection of _create_lower_dim_grids_3d (half-space test with the edge "
               "normals and is_ccw_polygon as coded, tolerance test) over exact rationals: plane_faces_exact / plane_nodes_exact (exactly the grid faces / nodes on the rectangle, "
               "any of the 8 vertex orders, all grid sizes, all strictly increasing node coordinates, tolerance < half a cell). (C) duplicate_nodes: node_components (labels = connected "
               "components of the cell neighbourhood minus the split faces), split_nodes_count (added nodes = sum of (components - 1); faces keep their node count), node_copy_of_cell. "
               "(D) decidable hypotheses: Host.validB / noFracB (evaluated by the driver on EVERY case; the harness requires true) imply Host.Valid (valid_of_check), "
               "split_checked restates the split theorems with these boolean conditions only; entry_dispatch: argument handling of cart_grid / tensor_grid. "
               "The per-face geometry that _duplicate_specific_faces copies (normal, centre, area) travels through the model as one vector: the duplicate has the same "
               "centre and area as the original (theorem split_normals_opposite: normal d = normal f for the whole vector). "
               "Correspondence ties (A), (B), (C), (D) to cart_grid / tensor_grid / create_mdg on every hosting subdomain (3d->2d, 2d->1d, 1d->0d), with a stratum of grids whose "
               "nx, ny, nz are pairwise different and direct calls of _find_nodes_on_line along all axes; the geometric statements (centres, measures, outward normals, volume, "
               "containment) and all simplex cases are decided by the oracle only.")
ASSUMPTIONS = [
    "fracture networks are valid: fractures lie on interior grid lines / planes, no two fractures share a host face, every fracture has positive measure",
    "geometric comparisons use tolerance 1e-10 (relative to the domain size)",
]

TOL = 1e-10


# ------------------------------------------------------------------------------------------------ helpers
def _fl(x):
    return float(F(x))


def _frac_arrays(case):
    return [np.array([[_fl(x) for x in row] for row in f], dtype=float) for f in case["fracs"]]


def _snapped(case):
    """The fractures as the Cartesian generators snap them (nearest grid node), exact rationals."""
    out = []
    if case["kind"] != "cart":
        return [[[F(x) for x in row] for row in f] for f in case["fracs"]]
    if "xs" in case:  # tensor grids: fractures are generated on the nodes
        return [[[F(x) for x in row] for row in f] for f in case["fracs"]]
    h = [F(p) / n for p, n in zip(case["phys"], case["nx"])]
    for f in case["fracs"]:
        rows = []
        for d, row in enumerate(f):
            rows.append([h[d] * _round_half_even(F(x) / h[d]) for x in row])
        out.append(rows)
    return out


def _round_half_even(q):
    fl = q.numerator // q.denominator
    r = q - fl
    if r > F(1, 2) or (r == F(1, 2) and fl % 2 == 1):
        return fl + 1
    return fl


_BUILD_CACHE = {}


def _build(case):
    """The real mixed-dimensional grid of the case (the last one is kept: impl_run and oracle look at the same object, read-only)."""
    k = json.dumps(case, sort_keys=True)
    if k not in _BUILD_CACHE:
        _BUILD_CACHE.clear()
        try:
            _BUILD_CACHE[k] = ("ok", _build0(case))
        except Exception as e:
            _BUILD_CACHE[k] = ("exc", e)
    kind, val = _BUILD_CACHE[k]
    if kind == "exc":
        raise val
    return val


def _build0(case, tmpdir=None):
    """Build the mixed-dimensional grid with the real code (cart_grid / create_mdg)."""
    import porepy as pp
    from pathlib import Path

    dim = case["dim"]
    phys = [_fl(p) for p in case["phys"]]
    fr = _frac_arrays(case)
    keys = ["xmax", "ymax", "zmax"][:dim]
    box = {k: p for k, p in zip(keys, phys)}
    box.update({k.replace("max", "min"): 0.0 for k in keys})
    if case["kind"] == "cart" and "xs" in case:
        xs = [np.array([_fl(x) for x in c]) for c in case["xs"]]
        if case.get("entry") == "create_mdg":
            dom = pp.Domain(box)
            fo = [pp.LineFracture(f) if dim == 2 else pp.PlaneFracture(f) for f in fr]
            net = pp.create_fracture_network(fo, dom)
            margs = {"xyz"[d] + "_pts": xs[d] for d in range(dim)}
            return pp.create_mdg("tensor_grid", margs, net)
        return pp.meshing.tensor_grid(fr, *xs)
    if case["kind"] == "cart":
        nx = list(case["nx"])
        if case.get("entry") == "create_mdg":
            dom = pp.Domain(box)
            fo = [pp.LineFracture(f) if dim == 2 else pp.PlaneFracture(f) for f in fr]
            net = pp.create_fracture_network(fo, dom)
            margs = {"cell_size_" + "xyz"[d]: phys[d] / nx[d] for d in range(dim)}
            return pp.create_mdg("cartesian", margs, net)
        return pp.meshing.cart_grid(fr, nx, physdims=phys)
    dom = pp.Domain(box)
    fo = [pp.LineFracture(f) if dim == 2 else pp.PlaneFracture(f) for f in fr]
    net = pp.create_fracture_network(fo, dom)
    own = tmpdir is None
    d = tmpdir or tempfile.mkdtemp(prefix="c25_")
    try:
        return pp.create_mdg("simplex", {"cell_size": _fl(case["h"])}, net, file_name=Path(d) / "mesh.msh")
    finally:
        if own:
            shutil.rmtree(d, ignore_errors=True)


def _key(sd):
    return (int(sd.dim), tuple(sorted(set(int(i) for i in np.atleast_1d(sd.global_point_ind)))))


def _rows(cf):
    """cell_faces (faces x cells) -> per face sorted list of [cell, sign]."""
    m = cf.tocsr().copy()
    m.eliminate_zeros()
    m.sort_indices()
    out = []
    for f in range(m.shape[0]):
        sl = slice(m.indptr[f], m.indptr[f + 1])
        out.append([[int(c), int(s)] for c, s in zip(m.indices[sl], m.data[sl])])
    return out


def _raw_face_nodes(sd):
    """columns of face_nodes in STORED order (no sorting: duplicate_nodes rewrites the stored indices in place)"""
    m = sd.face_nodes
    assert m.getformat() == "csc"
    return [[int(i) for i in m.indices[m.indptr[f]:m.indptr[f + 1]]] for f in range(m.shape[1])]


def _cols_of(fc):
    """face_cells (low cells x host faces) -> per host face the list of low cells."""
    m = fc.tocsc().copy()
    m.sort_indices()
    out = []
    for f in range(m.shape[1]):
        out.append([int(i) for i, v in zip(m.indices[m.indptr[f]:m.indptr[f + 1]], m.data[m.indptr[f]:m.indptr[f + 1]]) if v])
    return out


# ------------------------------------------------------------------------------------------------ unsplit snapshot (model input)
_UNSPLIT_CACHE = {}


def _unsplit(case):
    k = json.dumps(case, sort_keys=True)
    if k not in _UNSPLIT_CACHE:
        if len(_UNSPLIT_CACHE) > 64:
            _UNSPLIT_CACHE.clear()
        _UNSPLIT_CACHE[k] = _unsplit0(case)
    return _UNSPLIT_CACHE[k]


def _unsplit0(case):
    """Independent build of the UNSPLIT grids: structured generator + _tag_faces + _assemble_mdg + compute_geometry
    (what subdomains_to_mdg does before split_fractures). Returns the list of hosts with their model input."""
    from porepy.fracs import structured, meshing

    phys = np.array([_fl(p) for p in case["phys"]])
    fr = _frac_arrays(case)
    if "xs" in case:
        xs = [np.array([_fl(x) for x in c]) for c in case["xs"]]
        subdomains = structured._tensor_grid_2d(fr, *xs) if case["dim"] == 2 else structured._tensor_grid_3d(fr, *xs)
    elif case["dim"] == 2:
        subdomains = structured._cart_grid_2d(fr, np.asarray(case["nx"]), physdims=phys)
    else:
        subdomains = structured._cart_grid_3d(fr, np.asarray(case["nx"]), physdims=phys)
    meshing._tag_faces(subdomains, False)
    mdg, pairs = meshing._assemble_mdg(subdomains)
    mdg.compute_geometry()
    hosts = []
    for sd in mdg.subdomains():
        if sd.dim < 1:
            continue
        neigh = [(pr[1], m) for pr, m in pairs.items() if pr[0] is sd and pr[1].dim < sd.dim]
        rows = _rows(sd.cell_faces)
        nF = sd.num_faces
        tags = {k: [bool(b) for b in sd.tags[k + "_faces"]] for k in ("fracture", "tip", "domain_boundary")}
        normals = [[F(float(x)) for x in sd.face_normals[:, f]] + [F(float(x)) for x in sd.face_centers[:, f]] + [F(float(sd.face_areas[f]))]
                   for f in range(nF)]  # everything _duplicate_specific_faces copies to the duplicate: normal, centre, area
        centers = [[F(float(x)) for x in sd.face_centers[:, f]] for f in range(nF)]
        ccent = [[F(float(x)) for x in sd.cell_centers[:, c]] for c in range(sd.num_cells)]
        left = [[0] * len(r) for r in rows]
        fcs = []
        for low, m in neigh:
            cols = _cols_of(m)
            assert all(len(c) <= 1 for c in cols), "face_cells column with more than one cell"
            pairs_lf = sorted((c[0], f) for f, c in enumerate(cols) if c)
            fcs.append({"key": _key(low), "nlow": int(low.num_cells), "lf": [[int(l), int(f)] for l, f in pairs_lf]})
            faces = sorted(f for _, f in pairs_lf)
            untagged = [f for f in faces if not (tags["fracture"][f] or tags["tip"][f] or tags["domain_boundary"][f])]
            if not untagged:
                continue
            f0 = untagged[0]
            for f in faces:
                for k, (c, _s) in enumerate(rows[f]):
                    d = sum((ccent[c][j] - centers[f0][j]) * normals[f0][j] for j in range(3))
                    left[f][k] = 1 if d <= 0 else 0
        # nodes that split_fractures hands to split_nodes: the nodes of the lower-dimensional neighbours, in the host's numbering
        gpi = [int(i) for i in np.atleast_1d(sd.global_point_ind)]
        where = {gl: loc for loc, gl in enumerate(gpi)}
        assert len(where) == len(gpi)
        split_nodes = sorted({where[int(i)] for low, _ in neigh for i in np.atleast_1d(low.global_point_ind)})
        hosts.append({"key": _key(sd), "nF": nF, "nC": int(sd.num_cells), "rows": rows, "left": left, "tags": tags, "normals": normals, "fcs": fcs,
                      "nN": int(sd.num_nodes), "fn": _raw_face_nodes(sd), "split_nodes": split_nodes, "gpi": gpi})
    hosts.sort(key=lambda h: h["key"])
    ops, impl = _struct_layer(case, subdomains, pairs, fr, phys)
    return {"hosts": hosts, "struct_ops": ops, "struct_impl": impl}


def _struct_layer(case, subdomains, pairs, fr, phys):
    """The index arithmetic of the structured generators: what the real code produced (node sets of the fracture / intersection
    grids, host faces of every fracture, direct calls of _find_nodes_on_line) and the ops that make the Lean model reproduce it."""
    import random
    from porepy.fracs import structured

    D = case["dim"]
    n = [int(v) for v in case["nx"]]
    top = subdomains[0][0]
    nodes = top.nodes

    def nearest(pt):
        pt = np.asarray(pt, dtype=float).reshape(-1)
        if pt.size == 2:
            pt = np.append(pt, 0.0)
        return int(np.argmin(np.sum((nodes - pt.reshape(3, 1)) ** 2, axis=0)))

    def axis_of(a, b):
        d = np.abs(nodes[:, a] - nodes[:, b])
        return int(np.argmax(d))

    ops, impl = [], []
    ny = n[1]
    if D == 2:
        for g in subdomains[1]:
            f = fr[int(g.frac_num)]
            s, e = nearest(f[:, 0]), nearest(f[:, 1])
            ops.append({"op": "line", "nx": n[0], "ny": ny, "axis": 0 if f[1, 0] == f[1, 1] else 1, "s": s, "e": e})
            impl.append(sorted(int(i) for i in np.atleast_1d(g.global_point_ind)))
    else:
        nxa = np.asarray(n, dtype=float)
        xs = [sorted(set(float(v) for v in nodes[d])) for d in range(3)]
        for g in subdomains[1]:
            f = fr[int(g.frac_num)]
            if "xs" in case:
                f_s = np.array([nodes[:, nearest(f[:, m])] for m in range(4)]).T
                tol = 1e-5 / nxa
            else:
                f_s = np.round(f * nxa[:, None] / phys[:, None]) * phys[:, None] / nxa[:, None]
                tol = 0.1 * phys / nxa
            o = 2 if np.allclose(f[2, 0], f[2]) else (1 if np.allclose(f[1, 0], f[1]) else 0)
            act = [d for d in range(3) if d != o]
            ops.append({"op": "plane", "n": n, "xs": [[frac(v) for v in c] for c in xs], "o": o, "p": frac(float(f_s[o, 0])), "tol": frac(float(tol[o])),
                        "P": [[frac(float(f_s[act[0], m])), frac(float(f_s[act[1], m]))] for m in range(4)]})
            m = pairs[(top, g)]
            impl.append({"faces": sorted(set(int(c) for c in m.tocsc().nonzero()[1])), "nodes": sorted(set(int(i) for i in g.global_point_ind))})
        for g in subdomains[2]:
            gp = sorted(int(i) for i in np.atleast_1d(g.global_point_ind))
            ops.append({"op": "line", "nx": n[0], "ny": ny, "axis": axis_of(gp[0], gp[-1]), "s": gp[-1], "e": gp[0]})
            impl.append(gp)
    # direct calls of _find_nodes_on_line along every axis (both orders of the end points)
    rl = random.Random(json.dumps(case, sort_keys=True))
    for axis in range(D):
        idx = [rl.randint(0, n[d]) for d in range(D)]
        a, b = sorted(rl.sample(range(n[axis] + 1), 2))
        ia, ib = list(idx), list(idx)
        ia[axis], ib[axis] = a, b
        lin = lambda t: t[0] + t[1] * (n[0] + 1) + (t[2] * (n[0] + 1) * (n[1] + 1) if D == 3 else 0)
        s, e = lin(ia), lin(ib)
        if rl.random() < 0.5:
            s, e = e, s
        real = structured._find_nodes_on_line(top, np.asarray(n), nodes[:, s].copy(), nodes[:, e].copy())
        ops.append({"op": "line", "nx": n[0], "ny": ny, "axis": axis, "s": s, "e": e})
        impl.append([int(v) for v in real])
    return ops, impl


# ------------------------------------------------------------------------------------------------ implementation runner
def _mortar_rows(mat):
    m = mat.tocsr().copy()
    m.eliminate_zeros()
    m.sort_indices()
    return [[int(j) for j in m.indices[m.indptr[r]:m.indptr[r + 1]]] for r in range(m.shape[0])]


def _new2old(sd, h):
    """old node index of every node of the split host (global_point_ind is carried along by duplicate_nodes)"""
    un_gpi = h["gpi"]
    where = {gl: loc for loc, gl in enumerate(un_gpi)}
    return [where[int(i)] for i in np.atleast_1d(sd.global_point_ind)]


def _args_call(case):
    import porepy as pp
    if case["entry"] == "cart_grid":
        kw = {} if case["phys_len"] is None else {"physdims": [1.0 + 0.5 * d for d in range(case["phys_len"])]}
        return pp.meshing.cart_grid([], [2] * case["ndim"], **kw)
    xs = [np.array([0.0, 0.5, 2.0]) for _ in range(1 + case["has_y"] + case["has_z"])] if case["has_y"] or not case["has_z"] else None
    if xs is None:  # z without y
        return pp.meshing.tensor_grid([], np.array([0.0, 0.5, 2.0]), None, np.array([0.0, 0.5, 2.0]))
    return pp.meshing.tensor_grid([], *xs)


def _args_expected(case):
    """independent statement of the documented argument handling"""
    if case["entry"] == "cart_grid":
        if case["phys_len"] is not None and case["phys_len"] != case["ndim"]:
            return {"err": "ValueError"}
        return {"dim": case["ndim"]} if case["ndim"] in (2, 3) else {"err": "ValueError"}
    if not case["has_y"]:
        return {"err": "NotImplementedError"}
    return {"dim": 3 if case["has_z"] else 2}


def impl_run(case):
    if case["kind"] == "args":
        try:
            return {"dim": int(_args_call(case).dim_max())}
        except Exception as e:
            return {"err": type(e).__name__}
    if case["kind"] != "cart":
        return {"oracle_only": True}
    try:
        mdg = _build(case)
    except Exception as e:  # the oracle reports this
        return {"build_raises": type(e).__name__}
    by_key = {_key(sd): sd for sd in mdg.subdomains()}
    out = []
    un = _unsplit(case)
    for h in un["hosts"]:
        sd = by_key[h["key"]]
        o = {"key": list(map(str, h["key"])), "nF": int(sd.num_faces), "nC": int(sd.num_cells), "inc": _rows(sd.cell_faces),
             "frac": [int(b) for b in sd.tags["fracture_faces"]], "tip": [int(b) for b in sd.tags["tip_faces"]],
             "dom": [int(b) for b in sd.tags["domain_boundary_faces"]],
             "pairs": [[int(a), int(b)] for a, b in zip(*np.asarray(sd.frac_pairs).reshape(2, -1))] if hasattr(sd, "frac_pairs") else [],
             "normals": [[frac(float(x)) for x in sd.face_normals[:, f]] + [frac(float(x)) for x in sd.face_centers[:, f]] + [frac(float(sd.face_areas[f]))]
                         for f in range(sd.num_faces)], "ifaces": [], "valid": True,
             "nodes": {"nN": int(sd.num_nodes), "face_nodes": _raw_face_nodes(sd),
                       "new2old": [int(i) for i in _new2old(sd, h)]}}
        for fcd in h["fcs"]:
            low = by_key[fcd["key"]]
            intf = mdg.subdomain_pair_to_interface((sd, low))
            fc = mdg.interface_data(intf)["face_cells"]
            cols = _cols_of(fc)
            P = _mortar_rows(intf.primary_to_mortar_int())
            S = _mortar_rows(intf.secondary_to_mortar_int())
            o["ifaces"].append({"fc": [c[0] if len(c) == 1 else (-1 if not c else c) for c in cols], "sides": int(intf.num_sides()),
                                "mcells": [[s[0] if len(s) == 1 else s, p[0] if len(p) == 1 else p] for s, p in zip(S, P)]})
        out.append(o)
    return {"hosts": out, "struct": un["struct_impl"]}


# ------------------------------------------------------------------------------------------------ model side
def model_ops(case):
    if case["kind"] == "args":
        if case["entry"] == "cart_grid":
            return [{"op": "cart_args", "ndim": case["ndim"], "phys": case["phys_len"]}]
        return [{"op": "tensor_args", "has_y": bool(case["has_y"]), "has_z": bool(case["has_z"])}]
    if case["kind"] != "cart":
        return []
    ops = []
    un = _unsplit(case)
    for h in un["hosts"]:
        ops.append({"op": "split", "nF": h["nF"],
                    "inc": [[[c, s, l] for (c, s), l in zip(r, lf)] for r, lf in zip(h["rows"], h["left"])],
                    "frac": [int(b) for b in h["tags"]["fracture"]], "tip": [int(b) for b in h["tags"]["tip"]],
                    "dom": [int(b) for b in h["tags"]["domain_boundary"]],
                    "normals": [[frac(x) for x in n] for n in h["normals"]],
                    "fcs": [f["lf"] for f in h["fcs"]]})
        for i, f in enumerate(h["fcs"]):
            ops.append({"op": "mortar", "i": i, "nlow": f["nlow"]})
        ops.append({"op": "nodes", "nN": h["nN"], "nC": h["nC"], "face_nodes": h["fn"], "split": h["split_nodes"]})
    return ops + un["struct_ops"]


def model_decode(outs, case):
    if case["kind"] == "args":
        return outs[0]
    if case["kind"] != "cart":
        return {"oracle_only": True}
    res, k = [], 0
    un = _unsplit(case)
    for h in un["hosts"]:
        o = dict(outs[k])
        k += 1
        o["key"] = list(map(str, h["key"]))
        o["nC"] = h["nC"]
        if "err" not in o:
            o["inc"] = [sorted(r) for r in o["inc"]]
            o["ifaces"] = []
            fcs = o.pop("fcs")
            for i, _ in enumerate(h["fcs"]):
                m = dict(outs[k])
                k += 1
                if "err" not in m:
                    m["fc"] = fcs[i]
                o["ifaces"].append(m)
        else:
            k += len(h["fcs"])
        o["nodes"] = outs[k]
        k += 1
        res.append(o)
    return {"hosts": res, "struct": list(outs[k:])}


def compare(impl, model, case):
    if case["kind"] == "args":
        return deep_compare(impl, model)
    if case["kind"] != "cart":
        return None
    if isinstance(impl, dict) and "build_raises" in impl:
        return None  # reported by the oracle (key build-raises)
    return deep_compare(impl, model)


# ------------------------------------------------------------------------------------------------ generator
def _rand_frac(rng, n, D, o=None):
    o = rng.randrange(D) if o is None else o
    if n[o] < 2:
        o = max(range(D), key=lambda d: n[d])
    fr = {"o": o, "k": rng.randint(1, n[o] - 1), "lo": {}, "hi": {}}
    for t in range(D):
        if t != o:
            a, b = sorted(rng.sample(range(n[t] + 1), 2))
            if rng.random() < 0.25:
                a = 0
            if rng.random() < 0.25:
                b = n[t]
            fr["lo"][t], fr["hi"][t] = a, b
    return fr


def _pattern_frac(rng, n, D, f1, pattern):
    """second fracture forming an X / T / L with f1 (falls back to something close if the grid is too small)"""
    o1 = f1["o"]
    o2 = rng.choice([t for t in range(D) if t != o1])
    lo1, hi1 = f1["lo"][o2], f1["hi"][o2]
    inner = [k for k in range(lo1 + 1, hi1) if 1 <= k <= n[o2] - 1]
    ends = [k for k in (lo1, hi1) if 1 <= k <= n[o2] - 1]
    if pattern == "L" and ends:
        k2 = rng.choice(ends)
    elif inner:
        k2 = rng.choice(inner)
    elif ends:
        k2 = rng.choice(ends)
    else:
        return _rand_frac(rng, n, D)
    f2 = {"o": o2, "k": k2, "lo": {}, "hi": {}}
    k1 = f1["k"]
    if pattern == "X":
        a, b = rng.randint(0, k1 - 1), rng.randint(k1 + 1, n[o1])
    elif rng.random() < 0.5:
        a, b = k1, rng.randint(k1 + 1, n[o1])
    else:
        a, b = rng.randint(0, k1 - 1), k1
    f2["lo"][o1], f2["hi"][o1] = a, b
    for t in range(D):
        if t not in (o1, o2):  # third axis (3-D): overlap f1's span
            l1, h1 = f1["lo"][t], f1["hi"][t]
            a = rng.randint(0, h1 - 1)
            b = rng.randint(max(a, l1) + 1, n[t])
            f2["lo"][t], f2["hi"][t] = a, b
    return f2


def _faces_of(fr, D):
    ts = [t for t in range(D) if t != fr["o"]]
    out = set()
    if D == 2:
        t = ts[0]
        for a in range(fr["lo"][t], fr["hi"][t]):
            out.add((fr["o"], fr["k"], a))
    else:
        for a in range(fr["lo"][ts[0]], fr["hi"][ts[0]]):
            for b in range(fr["lo"][ts[1]], fr["hi"][ts[1]]):
                out.add((fr["o"], fr["k"], a, b))
    return out


def _coords(fr, D, h, rng=None, n=None, xs=None):
    """vertex coordinates (exact rationals) of an index-space fracture; optional perturbation off the grid nodes"""
    ts = [t for t in range(D) if t != fr["o"]]
    if D == 2:
        t = ts[0]
        idx = [{t: fr["lo"][t], fr["o"]: fr["k"]}, {t: fr["hi"][t], fr["o"]: fr["k"]}]
    else:
        a, b = ts
        cyc = [(fr["lo"][a], fr["lo"][b]), (fr["hi"][a], fr["lo"][b]), (fr["hi"][a], fr["hi"][b]), (fr["lo"][a], fr["hi"][b])]
        idx = [{a: p, b: q, fr["o"]: fr["k"]} for p, q in cyc]
    pts = [[(xs[d][v[d]] if xs is not None else F(v[d]) * h[d]) for d in range(D)] for v in idx]
    if rng is not None:  # perturb: same shift of the constant coordinate for all vertices, tangential shifts per span end
        dn = F(rng.randint(-19, 19), 64) * h[fr["o"]]
        sh = {}
        for t in ts:
            for end in ("lo", "hi"):
                v = fr[end][t]
                d = F(rng.randint(-19, 19), 64) * h[t]
                if v == 0:
                    d = abs(d)
                if v == n[t]:
                    d = -abs(d)
                sh[(t, v)] = d
        for p, v in zip(pts, idx):
            p[fr["o"]] += dn
            for t in ts:
                p[t] += sh[(t, v[t])]
    return pts


def _to_case_fracs(ptsl, D):
    return [[[frac(p[d]) for p in pts] for d in range(D)] for pts in ptsl]


def _gen_cart(rng, tier, D):
    hi = 6 if D == 2 else 4
    if tier == "thorough" and rng.random() < 0.15:
        hi += 2 if D == 2 else 1
    n = [rng.randint(2, hi) for _ in range(D)]
    if D == 3 and rng.random() < 0.4:  # stratum: nx, ny, nz pairwise different (index strides of the three directions all differ)
        n = rng.choice([[2, 3, 4], [2, 3, 5], [3, 4, 5], [2, 4, 5], [2, 4, 3]])[:]
        rng.shuffle(n)
    if D == 2 and rng.random() < 0.4:
        while n[0] == n[1]:
            n[1] = rng.randint(2, hi)
    h = [F(rng.choice([1, 1, 1, 2, 3, 5]), rng.choice([1, 1, 2, 4, 8])) for _ in range(D)]
    nfr = rng.choice([1, 2, 2, 3, 3])
    pattern = rng.choice(["X", "T", "L", "rand", "rand", "rand", "single", "fullspan", "parallel", "coplanar", "star"])
    frs, faces = [], set()

    def add(f):
        ff = _faces_of(f, D)
        if not ff or ff & faces:
            return False
        frs.append(f)
        faces.update(ff)
        return True

    if pattern == "single":  # fractures of a single host face
        for _ in range(nfr):
            f = _rand_frac(rng, n, D)
            for t in f["lo"]:
                f["lo"][t] = rng.randint(0, n[t] - 1)
                f["hi"][t] = f["lo"][t] + 1
            add(f)
    elif pattern == "fullspan":  # a fracture that cuts the whole domain in two
        f = _rand_frac(rng, n, D)
        for t in f["lo"]:
            f["lo"][t], f["hi"][t] = 0, n[t]
        add(f)
    elif pattern in ("parallel", "coplanar"):
        f = _rand_frac(rng, n, D)
        add(f)
        g = {"o": f["o"], "k": f["k"], "lo": dict(f["lo"]), "hi": dict(f["hi"])}
        if pattern == "parallel":  # neighbouring grid planes: host cells with fracture faces on two sides
            g["k"] = f["k"] + 1 if f["k"] + 1 <= n[f["o"]] - 1 else f["k"] - 1
            if g["k"] >= 1:
                add(g)
        else:  # same plane, touching end to end
            t = rng.choice(sorted(f["lo"]))
            if f["hi"][t] < n[t]:
                g["lo"][t], g["hi"][t] = f["hi"][t], rng.randint(f["hi"][t] + 1, n[t])
                add(g)
    elif pattern == "star":  # a through-going fracture met by two fractures ending on it from both sides at the same place
        f = _rand_frac(rng, n, D)
        add(f)
        g1 = _pattern_frac(rng, n, D, f, "T")
        o1, k1 = f["o"], f["k"]
        if g1["o"] != o1 and o1 in g1["lo"]:
            g1["lo"][o1], g1["hi"][o1] = k1, rng.randint(k1 + 1, n[o1])
            g2 = {"o": g1["o"], "k": g1["k"], "lo": dict(g1["lo"]), "hi": dict(g1["hi"])}
            g2["lo"][o1], g2["hi"][o1] = rng.randint(0, k1 - 1), k1
            add(g1)
            add(g2)
    tries = 0
    while len(frs) < nfr and tries < 60:
        tries += 1
        if frs and pattern in ("X", "T", "L") and len(frs) == 1:
            f = _pattern_frac(rng, n, D, frs[0], pattern)
        else:
            f = _rand_frac(rng, n, D)
        add(f)
    rng.shuffle(frs)
    tensor = rng.random() < 0.2
    perturb = (not tensor) and rng.random() < 0.1
    xs = None
    if tensor:  # non-uniform node coordinates (pp.meshing.tensor_grid), starting at 0
        xs = []
        for d in range(D):
            c = [F(0)]
            for _ in range(n[d]):
                c.append(c[-1] + F(rng.choice([1, 1, 2, 3, 5]), rng.choice([1, 2, 4, 8])))
            xs.append(c)
    ptsl = [_coords(f, D, h, rng if perturb else None, n, xs) for f in frs]
    if D == 3:  # orientation / starting vertex of the rectangles
        for i, pts in enumerate(ptsl):
            r = rng.randrange(4)
            pts = pts[r:] + pts[:r]
            if rng.random() < 0.5:
                pts = pts[::-1]
            ptsl[i] = pts
    else:
        for i, pts in enumerate(ptsl):
            if rng.random() < 0.5:
                ptsl[i] = pts[::-1]
    case = {"kind": "cart", "dim": D, "nx": n, "phys": [frac(xs[d][-1] if tensor else n[d] * h[d]) for d in range(D)], "fracs": _to_case_fracs(ptsl, D),
            "entry": "tensor_grid" if tensor else ("cart_grid" if (perturb or rng.random() < 0.7) else "create_mdg")}
    case["stratum"] = pattern + ("+snap" if perturb else "") + ("+tensor" if tensor else "")
    if tensor:
        case["xs"] = [[frac(x) for x in c] for c in xs]
        if rng.random() < 0.3:
            case["entry"] = "create_mdg"
    return case


_SIMPLEX_2D = [
    # X, T, L, boundary-touching, oblique; coordinates in the unit square (dyadic)
    [[["1/4", "3/4"], ["1/2", "1/2"]], [["1/2", "1/2"], ["1/4", "3/4"]]],
    [[["1/4", "3/4"], ["1/2", "1/2"]], [["1/2", "1/2"], ["1/2", "7/8"]]],
    [[["1/4", "3/4"], ["1/2", "1/2"]], [["3/4", "3/4"], ["1/2", "7/8"]]],
    [[["0", "1/2"], ["1/2", "1/2"]], [["1/4", "3/4"], ["1/4", "3/4"]]],
    [[["1/8", "7/8"], ["1/4", "5/8"]]],
    [[["0", "1"], ["1/2", "1/2"]], [["1/2", "1/2"], ["0", "1/2"]]],
    [[["1/4", "3/4"], ["1/4", "3/4"]], [["1/4", "3/4"], ["3/4", "1/4"]], [["1/8", "7/8"], ["1/8", "1/8"]]],
]
_SIMPLEX_3D = [
    [[["1/4", "3/4", "3/4", "1/4"], ["1/2", "1/2", "1/2", "1/2"], ["1/4", "1/4", "3/4", "3/4"]]],
    [[["1/4", "3/4", "3/4", "1/4"], ["1/2", "1/2", "1/2", "1/2"], ["1/4", "1/4", "3/4", "3/4"]],
     [["1/2", "1/2", "1/2", "1/2"], ["1/4", "3/4", "3/4", "1/4"], ["1/4", "1/4", "3/4", "3/4"]]],
    [[["1/4", "3/4", "3/4", "1/4"], ["1/2", "1/2", "1/2", "1/2"], ["1/4", "1/4", "3/4", "3/4"]],
     [["1/2", "1/2", "1/2", "1/2"], ["1/2", "7/8", "7/8", "1/2"], ["1/4", "1/4", "3/4", "3/4"]]],
    [[["1/4", "3/4", "3/4", "1/4"], ["1/2", "1/2", "1/2", "1/2"], ["1/4", "1/4", "3/4", "3/4"]],
     [["1/2", "1/2", "1/2", "1/2"], ["1/4", "3/4", "3/4", "1/4"], ["1/4", "1/4", "3/4", "3/4"]],
     [["1/8", "7/8", "7/8", "1/8"], ["1/8", "1/8", "7/8", "7/8"], ["1/2", "1/2", "1/2", "1/2"]]],
    [[["0", "1", "1", "0"], ["1/2", "1/2", "1/2", "1/2"], ["0", "0", "1", "1"]]],
]


def _gen_simplex(rng, tier, D):
    fam = _SIMPLEX_2D if D == 2 else _SIMPLEX_3D
    fr = rng.choice(fam)
    if tier == "quick":
        h = "1/2" if D == 3 else rng.choice(["1/2", "3/8"])
    else:
        h = rng.choice(["1/2", "3/8", "1/4"]) if D == 3 else rng.choice(["1/2", "3/8", "1/4", "1/8"])
    # a random rigid symmetry of the unit cube (axis permutation + reflections) keeps coordinates dyadic
    perm = list(range(D))
    rng.shuffle(perm)
    refl = [rng.random() < 0.5 for _ in range(D)]
    out = []
    for f in fr:
        rows = [None] * D
        for d in range(D):
            rows[perm[d]] = [frac(1 - F(x)) if refl[d] else x for x in f[d]]
        out.append(rows)
    return {"kind": "simplex", "dim": D, "phys": ["1"] * D, "fracs": out, "h": h, "stratum": "simplex"}


def _gen_args(rng):
    if rng.random() < 0.6:
        ndim = rng.choice([1, 2, 2, 3, 3, 4])
        return {"kind": "args", "entry": "cart_grid", "ndim": ndim, "phys_len": rng.choice([None, ndim, ndim, ndim + 1, max(ndim - 1, 1)])}
    return {"kind": "args", "entry": "tensor_grid", "has_y": rng.random() < 0.7, "has_z": rng.random() < 0.5}


def gen_case(rng, tier):
    if rng.random() < 0.06:
        return _gen_args(rng)
    r = rng.random()
    if tier == "quick":  # gmsh cases are mostly left to the corpus (two of them) and the thorough tier
        if r < 0.04:
            return _gen_simplex(rng, tier, 2 if rng.random() < 0.6 else 3)
        return _gen_cart(rng, tier, 2 if r < 0.52 else 3)
    if r < 0.1:
        return _gen_simplex(rng, tier, 2 if rng.random() < 0.6 else 3)
    return _gen_cart(rng, tier, 2 if r < 0.55 else 3)


# ------------------------------------------------------------------------------------------------ oracle (the decider)
def _fail(key, what):
    return {"key": key, "what": what}


def _near_sets(pts_a, pts_b, tol):
    """for every column of pts_a the indices of the columns of pts_b within tol"""
    out = []
    for i in range(pts_a.shape[1]):
        d = np.max(np.abs(pts_b - pts_a[:, i:i + 1]), axis=0)
        out.append(np.nonzero(d <= tol)[0])
    return out


def _on_fracture(x, fr, D, tol):
    """(distance-ok, on-relative-boundary) of point x w.r.t. an axis-aligned-or-not segment (2-D) / planar convex polygon (3-D)."""
    P = np.array([[float(v) for v in row] for row in fr], dtype=float)  # D x nv
    if D == 2:
        P = np.vstack((P, np.zeros(P.shape[1])))
    x = np.asarray(x, dtype=float)[:3]
    if P.shape[1] == 2:
        a, b = P[:, 0], P[:, 1]
        t = b - a
        L = np.linalg.norm(t)
        s = np.dot(x - a, t) / L
        dist = np.linalg.norm(x - a - s * t / L)
        inside = dist <= tol and -tol <= s <= L + tol
        return inside, (abs(s) <= tol or abs(s - L) <= tol)
    c = P.mean(axis=1)
    nrm = np.cross(P[:, 1] - P[:, 0], P[:, 2] - P[:, 1])
    nrm = nrm / np.linalg.norm(nrm)
    if abs(np.dot(x - c, nrm)) > tol:
        return False, False
    on_bnd, inside = False, True
    nv = P.shape[1]
    for i in range(nv):
        a, b = P[:, i], P[:, (i + 1) % nv]
        e = b - a
        out = np.cross(e, nrm)  # in-plane normal of the edge (direction fixed below)
        out = out / np.linalg.norm(out)
        if np.dot(c - a, out) > 0:
            out = -out
        d = np.dot(x - a, out)
        if d > tol:
            inside = False
        if abs(d) <= tol:
            on_bnd = True
    return inside, on_bnd and inside


def _measure(fr, D):
    P = np.array([[float(v) for v in row] for row in fr], dtype=float)
    if P.shape[1] == 2:
        return float(np.linalg.norm(P[:, 1] - P[:, 0]))
    P3 = P if D == 3 else np.vstack((P, np.zeros(P.shape[1])))
    c = P3.mean(axis=1)
    tot = np.zeros(3)
    for i in range(P3.shape[1]):
        tot += np.cross(P3[:, i] - c, P3[:, (i + 1) % P3.shape[1]] - c)
    return float(np.linalg.norm(tot) / 2)


def _expected_faces_per_cell(sd):
    if "Triangle" in sd.name or "Tetrahedral" in sd.name:
        return sd.dim + 1
    return 2 * sd.dim


def _node_split_check(sd):
    """Every geometric node position on a fracture: the cells around it fall into connected components (connected through
    unsplit faces that contain the position); cells of one component must share ONE node index there, different components
    must use different indices (what split_nodes has to achieve). Returns None or a description."""
    if sd.dim < 1 or sd.num_cells == 0:
        return None
    pos = {}
    for n in range(sd.nodes.shape[1]):
        pos.setdefault(tuple(sd.nodes[:, n].tolist()), []).append(n)
    fn = sd.face_nodes.tocsc()
    cf = sd.cell_faces.tocsr()
    cfc = sd.cell_faces.tocsc()
    if fn.shape[0] != sd.nodes.shape[1] or sd.num_nodes != sd.nodes.shape[1]:
        return f"face_nodes has {fn.shape[0]} rows, nodes has {sd.nodes.shape[1]} columns, num_nodes is {sd.num_nodes}"
    on_frac = np.zeros(sd.nodes.shape[1], dtype=bool)
    for f in np.nonzero(sd.tags["fracture_faces"])[0]:
        on_frac[fn.indices[fn.indptr[f]:fn.indptr[f + 1]]] = True
    fnr = fn.tocsr()
    for key, idx in pos.items():
        if len(idx) == 1 and not on_frac[idx[0]]:
            continue
        faces = set()
        for n in idx:
            faces.update(fnr.indices[fnr.indptr[n]:fnr.indptr[n + 1]].tolist())
        cells = set()
        for f in faces:
            cells.update(cf.indices[cf.indptr[f]:cf.indptr[f + 1]].tolist())
        # node index used by every cell at this position
        used = {}
        for c in cells:
            ns = set()
            for f in cfc.indices[cfc.indptr[c]:cfc.indptr[c + 1]]:
                ns.update(set(fn.indices[fn.indptr[f]:fn.indptr[f + 1]].tolist()) & set(idx))
            if len(ns) != 1:
                return f"cell {c} uses node indices {sorted(ns)} at position {list(key)}"
            used[c] = ns.pop()
        parent = {c: c for c in cells}

        def find(a):
            while parent[a] != a:
                parent[a] = parent[parent[a]]
                a = parent[a]
            return a
        for f in faces:
            cs = cf.indices[cf.indptr[f]:cf.indptr[f + 1]]
            if cs.size == 2:
                parent[find(int(cs[0]))] = find(int(cs[1]))
        comp_node = {}
        for c in cells:
            r = find(c)
            if comp_node.setdefault(r, used[c]) != used[c]:
                return f"connected cells around position {list(key)} use different node indices"
        if len(set(comp_node.values())) != len(comp_node) or len(comp_node) != len(idx):
            return (f"position {list(key)}: {len(comp_node)} groups of cells separated by fracture faces, node indices {sorted(idx)} "
                    f"assigned as {sorted(comp_node.values())}")
    return None


def oracle(case):
    if case["kind"] == "args":
        want = _args_expected(case)
        try:
            mdg = _args_call(case)
        except Exception as e:
            got = {"err": type(e).__name__}
        else:
            got = {"dim": int(mdg.dim_max())}
            tops = mdg.subdomains(dim=got["dim"])
            if len(tops) != 1 or len(mdg.subdomains()) != 1 or mdg.num_interfaces() != 0:
                return _fail("args:unfractured-grid", f"{case}: an unfractured network gave {len(mdg.subdomains())} grids / {mdg.num_interfaces()} interfaces")
        if got != want:
            return _fail(f"args:{case['entry']}", f"{case}: entry point answered {got}, documented behaviour {want}")
        return None
    try:
        mdg = _build(case)
    except Exception as e:
        return _fail(f"build-raises:{type(e).__name__}", f"building the mixed-dimensional grid raised {type(e).__name__}: {str(e)[:200]}")
    try:
        return _oracle_mdg(mdg, case)
    except (IndexError, AssertionError) as e:  # inconsistent array sizes of the grid objects (only seen on mutated code)
        return _fail(f"grid-arrays-inconsistent:{type(e).__name__}", f"reading the mixed-dimensional grid failed: {type(e).__name__}: {str(e)[:200]}")


def _oracle_mdg(mdg, case):
    D = case["dim"]
    phys = [_fl(p) for p in case["phys"]]
    scale = max(phys)
    tol = TOL * scale
    fracs = _snapped(case)
    tops = mdg.subdomains(dim=D)
    if len(tops) != 1:
        return _fail("top-grid-count", f"{len(tops)} grids of dimension {D}")
    top = tops[0]
    # host volume = domain volume
    vol, dom = float(np.sum(top.cell_volumes)), float(np.prod(phys))
    if abs(vol - dom) > 1e-10 * dom:
        return _fail("host-volume", f"host volume {vol!r} differs from the domain volume {dom!r}")
    if case["kind"] == "cart" and top.num_cells != int(np.prod(case["nx"])):
        return _fail("cells-preserved:count", f"host has {top.num_cells} cells, the Cartesian grid {int(np.prod(case['nx']))}")
    # number of fracture grids
    fgrids = mdg.subdomains(dim=D - 1)
    if sorted(int(g.frac_num) for g in fgrids) != list(range(len(fracs))):
        return _fail("fracture-grid-count", f"fracture grids carry frac_num {sorted(int(g.frac_num) for g in fgrids)}, {len(fracs)} fractures were given")
    # incidence sanity of every grid: cells keep their faces, closed cells, faces have one or two cells with opposite signs
    for sd in mdg.subdomains():
        if sd.dim < 1:
            continue
        cf = sd.cell_faces.tocsc()
        if cf.shape != (sd.num_faces, sd.num_cells) or sd.face_normals.shape[1] != sd.num_faces or sd.face_centers.shape[1] != sd.num_faces \
                or sd.face_areas.size != sd.num_faces or any(sd.tags[k].size != sd.num_faces for k in ("fracture_faces", "tip_faces", "domain_boundary_faces")):
            return _fail("face-array-sizes", f"dim {sd.dim}: per-face arrays of inconsistent length (num_faces {sd.num_faces}, cell_faces {cf.shape})")
        want = _expected_faces_per_cell(sd)
        for c in range(sd.num_cells):
            sl = slice(cf.indptr[c], cf.indptr[c + 1])
            fs, sg = cf.indices[sl], cf.data[sl]
            if fs.size != want or len(set(fs.tolist())) != want:
                return _fail("cells-preserved:faces-per-cell", f"dim {sd.dim}: cell {c} has faces {fs.tolist()}, expected {want} distinct faces")
            tot = (sd.face_normals[:, fs] * sg).sum(axis=1)
            if np.max(np.abs(tot)) > 1e-9 * scale ** max(sd.dim - 1, 0):
                return _fail("cells-preserved:closed", f"dim {sd.dim}: the signed face normals of cell {c} do not add up to zero ({tot.tolist()})")
            outw = ((sd.face_centers[:, fs] - sd.cell_centers[:, [c]]) * sd.face_normals[:, fs]).sum(axis=0) * sg
            if np.any(outw <= 0):
                return _fail("outward-normal-direction", f"dim {sd.dim}: cell {c}: sign * normal does not point out of the cell for faces {fs[outw <= 0].tolist()}")
        csr = cf.tocsr()
        per_face = np.diff(csr.indptr)
        if np.any(per_face < 1) or np.any(per_face > 2):
            return _fail("face-cell-count", f"dim {sd.dim}: faces with {sorted(set(per_face.tolist()))} incident cells")
        two = np.nonzero(per_face == 2)[0]
        for f in two:
            if csr.data[csr.indptr[f]:csr.indptr[f + 1]].sum() != 0:
                return _fail("face-signs", f"dim {sd.dim}: interior face {f} has equal incidence signs")
    # lower-dimensional cells lie on their fracture and cover it
    for g in fgrids:
        fr = fracs[int(g.frac_num)]
        for name, pts in (("node", g.nodes), ("cell centre", g.cell_centers)):
            for i in range(pts.shape[1]):
                ok, _ = _on_fracture(pts[:, i], fr, D, 1e-9 * scale)
                if not ok:
                    return _fail("cell-off-fracture", f"{name} {i} of the grid of fracture {g.frac_num} at {pts[:, i].tolist()} does not lie on the fracture")
        m = _measure(fr, D)
        if abs(float(np.sum(g.cell_volumes)) - m) > 1e-9 * max(m, 1e-300):
            return _fail("fracture-measure", f"grid of fracture {g.frac_num} has measure {float(np.sum(g.cell_volumes))!r}, the fracture {m!r}")
    # interfaces
    coupled = {id(sd): np.zeros(sd.num_faces, dtype=bool) for sd in mdg.subdomains()}
    n_intf_of_low = {}
    for intf in mdg.interfaces():
        p, s = mdg.interface_to_subdomain_pair(intf)
        tag = f"{p.dim}d-{s.dim}d"
        if p.dim != s.dim + 1:
            return _fail("interface-codim", f"interface between dimensions {p.dim} and {s.dim}")
        n_intf_of_low[id(s)] = n_intf_of_low.get(id(s), 0) + 1
        fc = mdg.interface_data(intf)["face_cells"]
        if fc.shape != (s.num_cells, p.num_faces):
            return _fail("face-cells-shape", f"{tag}: face_cells has shape {fc.shape}, expected {(s.num_cells, p.num_faces)}")
        fcr = fc.tocsr()
        pcf = p.cell_faces.tocsr()
        # geometry helpers: nodes of p-cells / p-faces / s-cells
        pcn = p.cell_nodes().tocsc()
        pfn = p.face_nodes.tocsc()
        if s.dim > 0:
            scn = s.cell_nodes().tocsc()
        sides_seen = set()
        pair_of = {}
        for l in range(s.num_cells):
            faces = np.unique(fcr.indices[fcr.indptr[l]:fcr.indptr[l + 1]])
            # geometric expectation 1: host cells that have the lower-dimensional cell as a face
            if s.dim > 0:
                lv = s.nodes[:, scn.indices[scn.indptr[l]:scn.indptr[l + 1]]]
            else:
                lv = s.cell_centers[:, [l]]
            near = _near_sets(lv, p.nodes, 1e-9 * scale)
            adj = np.ones(p.num_cells, dtype=bool)
            for idx in near:
                adj &= np.asarray(pcn.tocsr()[idx, :].sum(axis=0)).ravel() > 0
            adj = set(np.nonzero(adj)[0].tolist())
            # geometric expectation 2: one side iff the host is a fracture (or intersection line) that ends there
            x = s.cell_centers[:, l]
            if p.dim == D:
                want = 2
            elif p.dim == D - 1:
                ok, onb = _on_fracture(x, fracs[int(p.frac_num)], D, 1e-9 * scale)
                want = 1 if onb else 2
            else:  # intersection line (3-D): an end point of the line?
                far = p.nodes[:, np.argmax(np.max(np.abs(p.nodes - p.nodes[:, [0]]), axis=0))]
                far2 = p.nodes[:, np.argmax(np.max(np.abs(p.nodes - far[:, None]), axis=0))]
                want = 1 if (np.max(np.abs(x - far)) <= 1e-9 * scale or np.max(np.abs(x - far2)) <= 1e-9 * scale) else 2
            if len(adj) != want:
                return _fail(f"adjacent-host-cells:{tag}", f"{tag}: cell {l} is a face of host cells {sorted(adj)}, expected {want} of them")
            if faces.size != want:
                return _fail(f"split-face-pairs:count:{tag}:{faces.size}-of-{want}",
                             f"{tag}: lower-dimensional cell {l} is coupled to host faces {faces.tolist()}, expected {want} (one per side)")
            sides_seen.add(want)
            cells_of = []
            for g in faces:
                cs = pcf.indices[pcf.indptr[g]:pcf.indptr[g + 1]]
                if cs.size != 1:
                    return _fail(f"split-face-pairs:incident:{tag}", f"{tag}: coupled host face {g} has incident cells {cs.tolist()} (exactly one expected)")
                cells_of.append(int(cs[0]))
                if coupled[id(p)][g]:
                    return _fail(f"face-coupled-twice:{tag}", f"{tag}: host face {g} is coupled to two lower-dimensional cells")
                coupled[id(p)][g] = True
                dc = float(np.max(np.abs(p.face_centers[:, g] - x)))
                if dc > tol:
                    return _fail(f"centre:{tag}", f"{tag}: host face {g} centre {p.face_centers[:, g].tolist()} vs cell {l} centre {x.tolist()}")
                if abs(float(p.face_areas[g]) - float(s.cell_volumes[l])) > TOL * max(scale ** s.dim, float(s.cell_volumes[l])):
                    return _fail(f"measure:{tag}", f"{tag}: host face {g} area {float(p.face_areas[g])!r} vs cell {l} volume {float(s.cell_volumes[l])!r}")
                fv = p.nodes[:, pfn.indices[pfn.indptr[g]:pfn.indptr[g + 1]]]
                if fv.shape[1] != lv.shape[1] or any(len(ix) == 0 for ix in _near_sets(fv, lv, 1e-9 * scale)) or any(len(ix) == 0 for ix in _near_sets(lv, fv, 1e-9 * scale)):
                    return _fail(f"face-nodes:{tag}", f"{tag}: nodes of host face {g} do not coincide with the nodes of cell {l}")
            if set(cells_of) != adj or len(set(cells_of)) != len(cells_of):
                return _fail(f"split-face-pairs:sides:{tag}", f"{tag}: faces {faces.tolist()} of cell {l} belong to host cells {cells_of}, geometric neighbours are {sorted(adj)}")
            if want == 2:
                g1, g2 = int(faces[0]), int(faces[1])
                o1 = p.face_normals[:, g1] * pcf[g1, cells_of[0]]
                o2 = p.face_normals[:, g2] * pcf[g2, cells_of[1]]
                if np.max(np.abs(o1 + o2)) > TOL * scale ** max(p.dim - 1, 0) or np.max(np.abs(o1)) == 0:
                    return _fail(f"normals-opposite:{tag}", f"{tag}: outward normals of faces {g1},{g2} of cell {l}: {o1.tolist()} and {o2.tolist()}")
                if np.max(np.abs(p.face_normals[:, g1] - p.face_normals[:, g2])) > TOL * scale ** max(p.dim - 1, 0):
                    return _fail(f"stored-normals-differ:{tag}", f"{tag}: stored normals of the two copies {g1},{g2} differ")
            pair_of[l] = [int(g) for g in faces]
        if len(sides_seen) != 1:
            return _fail(f"mixed-sides:{tag}", f"{tag}: some cells have one, some two sides")
        nside = sides_seen.pop()
        # mortar grid
        if intf.num_sides() != nside:
            return _fail(f"mortar-sides:{tag}", f"{tag}: mortar grid has {intf.num_sides()} sides, expected {nside}")
        if intf.num_cells != nside * s.num_cells:
            return _fail(f"mortar-size:{tag}", f"{tag}: mortar grid has {intf.num_cells} cells, expected {nside} x {s.num_cells}")
        for k, (sname, sg) in enumerate(intf.side_grids.items()):
            if sg.num_cells != s.num_cells:
                return _fail(f"mortar-side-count:{tag}", f"{tag}: mortar side {k} has {sg.num_cells} cells, the lower-dimensional grid {s.num_cells}")
            if np.max(np.abs(sg.cell_volumes - s.cell_volumes)) > TOL * scale ** s.dim or np.max(np.abs(sg.cell_centers - s.cell_centers)) > tol:
                return _fail(f"mortar-side-geometry:{tag}", f"{tag}: mortar side {k} cells differ from the lower-dimensional cells in size or centre")
        if np.max(np.abs(intf.cell_volumes - np.tile(s.cell_volumes, nside))) > TOL * scale ** s.dim:
            return _fail(f"mortar-volumes:{tag}", f"{tag}: mortar cell volumes differ from the lower-dimensional cell volumes")
        Pm, Sm = _mortar_rows(intf.primary_to_mortar_int()), _mortar_rows(intf.secondary_to_mortar_int())
        Pd, Sd = intf.primary_to_mortar_int().tocsr(), intf.secondary_to_mortar_int().tocsr()
        if len(Pm) != intf.num_cells or len(Sm) != intf.num_cells or Pd.shape[1] != p.num_faces or Sd.shape[1] != s.num_cells:
            return _fail(f"mortar-projection-shape:{tag}", f"{tag}: projection shapes {Pd.shape}, {Sd.shape}")
        used = []
        side_sign = [set() for _ in range(nside)]
        ref = None
        for m in range(intf.num_cells):
            l = m % s.num_cells
            if Sm[m] != [l] or len(Pm[m]) != 1 or Pm[m][0] not in pair_of[l] or abs(Pd[m, Pm[m][0]] - 1) > 1e-12 or abs(Sd[m, l] - 1) > 1e-12:
                return _fail(f"mortar-map:{tag}", f"{tag}: mortar cell {m} maps to lower cells {Sm[m]} / host faces {Pm[m]}, expected cell {l} and one of {pair_of[l]}")
            g = Pm[m][0]
            used.append(g)
            c = int(pcf.indices[pcf.indptr[g]])
            if ref is None:
                ref = (p.face_normals[:, g].copy(), p.face_centers[:, g].copy())
            sgn = float(np.dot(p.cell_centers[:, c] - ref[1], ref[0]))
            side_sign[m // s.num_cells].add(sgn > 0)
        if nside == 2:
            # documented convention of _init_projections: first all cells of side one on the ORIGINAL faces, then side two on the duplicates
            n = s.num_cells
            if any(used[l] >= used[n + l] for l in range(n)) or any(used[l] != min(pair_of[l]) for l in range(n)):
                return _fail(f"mortar-side-order:{tag}", f"{tag}: the first mortar side is not on the original (lower-numbered) faces: {used}")
        if len(set(used)) != len(used):
            return _fail(f"mortar-face-twice:{tag}", f"{tag}: a host face is used by two mortar cells: {used}")
        if nside == 2 and (len(side_sign[0]) != 1 or len(side_sign[1]) != 1 or side_sign[0] == side_sign[1]):
            return _fail(f"mortar-side-mixed:{tag}", f"{tag}: the host cells of one mortar side lie on both sides of the fracture")
    # tags mark exactly the coupled faces
    for sd in mdg.subdomains():
        if sd.dim < 1:
            continue
        t = np.asarray(sd.tags["fracture_faces"], dtype=bool)
        if t.size != sd.num_faces or np.any(t != coupled[id(sd)]):
            bad = np.nonzero(t != coupled[id(sd)][:t.size])[0].tolist() if t.size == sd.num_faces else "size"
            return _fail(f"tags:{sd.dim}d", f"dim {sd.dim}: fracture_faces tag differs from the set of coupled faces at faces {bad}")
        if np.any(t & np.asarray(sd.tags["tip_faces"], dtype=bool)):
            return _fail(f"tags-tip:{sd.dim}d", f"dim {sd.dim}: a coupled face is also tagged as tip")
    # nodes are split exactly along the fractures
    for sd in mdg.subdomains():
        r = _node_split_check(sd)
        if r:
            return _fail(f"node-split:{sd.dim}d", f"dim {sd.dim}: {r}")
    # every fracture grid is coupled to the host
    for g in fgrids:
        if n_intf_of_low.get(id(g), 0) != 1:
            return _fail("fracture-not-coupled", f"the grid of fracture {g.frac_num} has {n_intf_of_low.get(id(g), 0)} interfaces to higher-dimensional grids")
    return None


# ------------------------------------------------------------------------------------------------ bookkeeping
def nontrivial(case):
    if case["kind"] == "args":
        return True
    return len(case["fracs"]) >= 2 or any(F(x) == 0 or F(x) == F(p) for f in case["fracs"] for row, p in zip(f, case["phys"]) for x in row)


def shrink_candidates(case):
    if case["kind"] == "args":
        return
    fr = case["fracs"]
    if len(fr) > 1:
        for i in range(len(fr)):
            yield dict(case, fracs=fr[:i] + fr[i + 1:])
    if case["kind"] == "cart" and case.get("entry") == "create_mdg":
        yield dict(case, entry="tensor_grid" if "xs" in case else "cart_grid")


def stats(cases, impl_outs):
    st = {"cart2": 0, "cart3": 0, "simplex2": 0, "simplex3": 0, "create_mdg_entry": 0, "tensor": 0, "n_pairwise_different": 0, "n_fracs": {}, "hosts": 0, "interfaces": 0, "two_sided": 0, "one_sided": 0,
          "host_dims": {}}
    st["args"] = 0
    st["strata"] = {}
    for c, o in zip(cases, impl_outs):
        if c["kind"] == "args":
            st["args"] += 1
            continue
        k = c.get("stratum", "corpus")
        st["strata"][k] = st["strata"].get(k, 0) + 1
        st[("cart" if c["kind"] == "cart" else "simplex") + str(c["dim"])] += 1
        st["create_mdg_entry"] += c.get("entry") == "create_mdg"
        st["tensor"] += "xs" in c
        st["n_pairwise_different"] += c["kind"] == "cart" and len(set(c["nx"])) == len(c["nx"])
        k = str(len(c["fracs"]))
        st["n_fracs"][k] = st["n_fracs"].get(k, 0) + 1
        if isinstance(o, dict) and "hosts" in o:
            st["struct_checks"] = st.get("struct_checks", 0) + len(o["struct"])
            for h in o["hosts"]:
                st["hosts"] += 1
                d = h["key"][0]
                st["host_dims"][d] = st["host_dims"].get(d, 0) + 1
                for i in h.get("ifaces", []):
                    st["interfaces"] += 1
                    st["two_sided" if i["sides"] == 2 else "one_sided"] += 1
    return st
