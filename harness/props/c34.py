"""C34 Point-set uniquification and set membership are correct.

Real code: porepy.utils.array_operations.{uniquify_point_set, _unique_points_in_cluster, ismember_columns,
intersect_sets} and porepy.fracs.utils.uniquify_points.  Lean model: lean/PorepyVerif/C34/Model.lean.
"""
import math
from fractions import Fraction

import numpy as np

from harness.common import frac, err_kind, deep_compare

PID = "C34"
THEOREMS = [
    "PorepyVerif.C34.separated_of_margins",
    "PorepyVerif.C34.separated_of_check",
    "PorepyVerif.C34.uniq_first_member",
    "PorepyVerif.C34.uniq_order_first_occurrence",
    "PorepyVerif.C34.uniq_points",
    "PorepyVerif.C34.uniq_maps_consistent",
    "PorepyVerif.C34.uniq_one_per_cluster",
    "PorepyVerif.C34.uniq_old2new_new2old",
    "PorepyVerif.C34.uniq_old2new_eq_iff",
    "PorepyVerif.C34.uniquifyPoints_edges",
    "PorepyVerif.C34.ismember_eq_brute",
    "PorepyVerif.C34.sortCol_eq_iff_perm",
    "PorepyVerif.C34.ismember_spec",
    "PorepyVerif.C34.intersect_spec",
    "PorepyVerif.C34.intersect_unique_match",
    "PorepyVerif.C34.anchor_rule_splits_cluster",
    "PorepyVerif.C34.uniquify_eq_greedy_within_norm_clusters",
    "PorepyVerif.C34.anchor_eq_chain_iff",
    "PorepyVerif.C34.uniquify_anchor_eq_chain",
    "PorepyVerif.C34.anchor_correct_of_agree",
]
LEAN_MODULES = ["PorepyVerif.C34.Props"]
AUDIT = "PorepyVerif/C34/Audit.lean"
DRIVER = "PorepyVerif/C34/Driver.lean"
N = {"quick": 500, "thorough": 10000}
KEY_F4 = "uniquify-norm-anchor-splits-cluster"
RULE = ("four case kinds. uniquify (45%) / uniquify_points (15%): 0-9 clusters of 1-4 points in dimension 1-3, cluster diameter < 0.3*tol, "
        "points of different clusters > 3*tol apart (checked in exact arithmetic, rejected otherwise), cluster centres on spheres whose "
        "radii differ by a few tol (norm pre-clustering boundaries are straddled on purpose, incl. the F4 pattern), exact duplicates, shuffled order, "
        "tol from 1e-10..0.3, also integer grids with many repeats; a stratum (15%) of distinct clusters with exactly equal norms at distance between tol and sqrt(tol), tol in 1e-3..1e-10;  uniquify_points adds 0-8 edges with 0-2 tag rows. "
        "ismember (25%): integer arrays with 1-3 rows (or 1-d), 0-9 columns from a small range so that twins, permuted twins and repeated columns in b are frequent, both sort modes. "
        "intersect (15%): two point sets drawn from common centres (same margins), 0-8 points each, repeated points inside a and inside b (multiplicities). "
        "non-trivial = at least two points/columns and at least one merge/match; distinct = distinct cases")
TRUSTED = [
    "modelled, not verified: np.argsort on the float norms (model: stable insertion sort on exact squared norms; under the separation hypothesis the result does not depend on tie order), "
    "the float evaluation of abs(norm_a - norm_b) > tol (model: exact rational test on squared norms, tol >= 0), numba compilation",
    "modelled, not verified: np.unique(axis=1, return_inverse) / np.isin / the argsort+searchsorted index trick inside ismember_columns are modelled by position in the sorted distinct columns "
    "and first-position search; np.argsort there is not stable, so returned indices are compared after mapping each to the first equal column of b",
    "modelled, not verified: scipy KDTree.query_ball_tree is modelled by its brute-force meaning (distance <= tol); inner lists are compared sorted",
    "unique_cols[:, k] and new_2_old[k] are always written together in _unique_points_in_cluster; the model keeps them as one list of (index, point) slots",
]
EXPLANATION = ("FULL: model = norm sort, cluster walk (rule parameter: anchor = current code, chain = repaired), in-cluster greedy search with first-occurrence replacement, "
               "scatter of old_2_new, final reordering; ismember via np.unique positions; intersect via brute force; uniquify_points edge update. "
               "Theorems are proved for the chain rule (the property); the anchor rule provably fails on the recorded witness (finding F4, open).")
ASSUMPTIONS = ["generated point sets keep margins: no pair of points with distance in [0.3*tol, 3*tol] (so float rounding cannot flip a comparison that matters)",
               "tol >= 0"]

TOLS = [1e-3, 1e-8, 1e-2, 1e-5, 2.0 ** -10, 0.25, 1e-9, 0.3, 1e-1]


# ------------------------------------------------------------------------------------------------ exact helpers
def F(x):
    return Fraction(x)


def d2(p, q):
    return sum((F(a) - F(b)) ** 2 for a, b in zip(p, q))


def cols_of(case, name="points"):
    """list of columns, each a list of python floats"""
    return [[float(Fraction(v)) for v in col] for col in case[name]]


def arr(cols, dim):
    a = np.zeros((dim, len(cols)), dtype=float)
    for j, c in enumerate(cols):
        a[:, j] = c
    return a


def margins_ok(cols, tol, labels=None):
    """exact check: every pair is either closer than 0.3 tol or farther than 3 tol; with labels: and agrees with them"""
    t2 = F(tol) ** 2
    lo, hi = t2 * Fraction(9, 100), t2 * 9
    for i in range(len(cols)):
        for j in range(i):
            d = d2(cols[i], cols[j])
            if lo <= d <= hi:
                return False
            if labels is not None and ((d < lo) != (labels[i] == labels[j])):
                return False
    return True


# ------------------------------------------------------------------------------------------------ generators
def _direction(rng, dim):
    if dim == 1:
        return [rng.choice([-1.0, 1.0])]
    if rng.random() < 0.4:  # axis aligned
        v = [0.0] * dim
        v[rng.randrange(dim)] = rng.choice([-1.0, 1.0])
        return v
    while True:
        v = [rng.gauss(0, 1) for _ in range(dim)]
        n = math.sqrt(sum(x * x for x in v))
        if n > 1e-3:
            return [x / n for x in v]


def _clustered(rng, dim, tol, nclus, tier, f4=False):
    """clustered point set: list of columns + labels (not shuffled yet)"""
    big = 4 if tier == "quick" else 6
    for _ in range(200):
        R = rng.choice([0.0, 1.0, 1.0, 1.0, 7.5, 100.0]) if tol <= 1e-2 else rng.choice([0.0, 1.0, 5.0, 20.0])
        if R > 0 and tol < 1e-8 * R * 100:
            R = 1.0
        centres = []
        for k in range(nclus):
            u = _direction(rng, dim)
            # radii differ by a few tol: that is where the norm pre-clustering decides
            span = 3 if dim > 1 else max(3, 2 * nclus)  # a line has little room: spread the radii further
            delta = rng.choice([rng.uniform(-span, span), rng.uniform(-span, span), rng.uniform(-1.3, 1.3), rng.choice([-1, 1]) * rng.uniform(0.7, 1.3), 0.0]) * tol
            r = R + delta if R > 0 else abs(delta) + rng.uniform(0, 4) * tol
            centres.append([r * x for x in u])
        cols, labels = [], []
        for k, c in enumerate(centres):
            m = rng.choice([1, 1, 2, 2, 3, big])
            for _ in range(m):
                if rng.random() < 0.25 and labels and labels[-1] == k:
                    cols.append(list(cols[-1]))  # exact duplicate
                else:
                    if rng.random() < 0.5:  # radial offset: members of one cluster get different norms
                        n = math.sqrt(sum(x * x for x in c)) or 1.0
                        s = rng.uniform(-0.14, 0.14) * tol
                        off = [s * x / n for x in c] if any(c) else [s] + [0.0] * (dim - 1)
                    else:
                        u = _direction(rng, dim)
                        s = rng.uniform(0, 0.14) * tol
                        off = [s * x for x in u]
                    cols.append([a + b for a, b in zip(c, off)])
                labels.append(k)
        if f4 and nclus >= 2:
            # force the F4 pattern: a point of another cluster whose norm is between (n2 - tol) and (n1 - tol) for two members n1 < n2 of cluster 0
            c = centres[0]
            n = math.sqrt(sum(x * x for x in c))
            if n > 3 * tol:
                p1 = [x * (1 - 0.04 * tol / n) for x in c]
                p2 = [x * (1 + 0.06 * tol / n) for x in c]
                u = _direction(rng, dim)
                if dim == 1:
                    u = [-c[0] / n]
                r0 = n - tol * rng.uniform(0.90, 0.99)
                p0 = [r0 * x for x in u]
                keep = [i for i, l in enumerate(labels) if l not in (0, 1)]
                cols = [cols[i] for i in keep] + [p1, p2, p0]
                labels = [labels[i] for i in keep] + [0, 0, 1]
        if margins_ok(cols, tol, labels):
            return cols, labels
    return [], []


SQRT_BAND_TOLS = [1e-3, 1e-4, 1e-5, 1e-6, 1e-8, 1e-10]


def _sqrt_band(rng, tier):
    """distinct clusters with EQUAL norms whose distance lies between tol and sqrt(tol) (stratified over tol):
    a comparison of the squared distance with tol instead of tol**2 would merge them"""
    tol = rng.choice(SQRT_BAND_TOLS)
    dim = rng.choice([1, 2, 3])
    for _ in range(50):
        lo, hi = math.log(3.5 * tol), math.log(0.9 * math.sqrt(tol))
        d = math.exp(rng.uniform(lo, hi))  # log-uniform in (3.5 tol, 0.9 sqrt(tol))
        if dim == 1:
            centres = [[d / 2], [-d / 2]]  # norms equal exactly
        else:
            R = rng.choice([0.0, 1.0, 1.0, 3.0])
            ax = rng.randrange(1, dim)
            c1, c2 = [R] + [0.0] * (dim - 1), [R] + [0.0] * (dim - 1)
            c1[ax], c2[ax] = d / 2, -d / 2  # mirror images: norms equal exactly
            centres = [c1, c2]
            if rng.random() < 0.4:  # a third cluster on the same sphere, mirrored in the first coordinate or another axis
                c3 = list(c1)
                if R > 0:
                    c3[0] = -R
                else:
                    c3 = [d / 2] + [0.0] * (dim - 1)
                centres.append(c3)
        cols, labels = [], []
        for k, c in enumerate(centres):
            for m_ in range(rng.choice([1, 1, 2, 3])):
                if m_ == 0 or rng.random() < 0.3:  # the first member sits exactly on the centre: norms of the clusters are EQUAL
                    cols.append(list(c))
                else:
                    u = _direction(rng, dim)
                    s_ = rng.uniform(0, 0.14) * tol
                    cols.append([a + s_ * b for a, b in zip(c, u)])
                labels.append(k)
        if margins_ok(cols, tol, labels):
            perm = list(range(len(cols)))
            rng.shuffle(perm)
            return dim, tol, [cols[i] for i in perm]
    return dim, tol, []


def _gen_points(rng, tier):
    dim = rng.choice([1, 2, 2, 3])
    mode = rng.random()
    if 0.15 <= mode < 0.30:
        return _sqrt_band(rng, tier)
    if mode < 0.15:  # integer grid, many repeats (docstring: equals np.unique for tol < 0.5)
        tol = rng.choice([0.3, 0.25, 1e-5, 1e-1])
        n = rng.randint(0, 12 if tier == "quick" else 30)
        side = rng.choice([2, 3, 5])
        cols = [[float(rng.randrange(-side, side + 1)) for _ in range(dim)] for _ in range(n)]
        return dim, tol, cols
    tol = rng.choice(TOLS)
    nclus = rng.choice([0, 1, 2, 3, 3, 4, 5, 6, 9 if tier == "thorough" else 7])
    cols, labels = _clustered(rng, dim, tol, nclus, tier, f4=(mode > 0.85))
    perm = list(range(len(cols)))
    rng.shuffle(perm)
    return dim, tol, [cols[i] for i in perm]


def gen_case(rng, tier):
    r = rng.random()
    if r < 0.45:
        dim, tol, cols = _gen_points(rng, tier)
        return {"kind": "uniquify", "dim": dim, "tol": frac(tol), "points": [[frac(x) for x in c] for c in cols]}
    if r < 0.60:
        dim, tol, cols = _gen_points(rng, tier)
        n = len(cols)
        ne = rng.randint(0, 8) if n else 0
        ntag = rng.choice([0, 1, 2])
        edges = [[rng.randrange(n), rng.randrange(n)] + [rng.randrange(5) for _ in range(ntag)] for _ in range(ne)]
        return {"kind": "uniquify_points", "dim": dim, "tol": frac(tol), "points": [[frac(x) for x in c] for c in cols], "edges": edges, "ntag": ntag}
    if r < 0.85:
        ndim1 = rng.random() < 0.2
        nd = 1 if ndim1 else rng.choice([1, 2, 2, 3])
        hi = rng.choice([2, 3, 4])
        mx = 9 if tier == "quick" else 20
        na, nb = rng.choice([0, 1, rng.randint(2, mx)]), rng.choice([0, 1, rng.randint(2, mx), rng.randint(2, mx)])
        a = [[rng.randrange(-1, hi) for _ in range(nd)] for _ in range(na)]
        b = [[rng.randrange(-1, hi) for _ in range(nd)] for _ in range(nb)]
        # make sure twins / permuted twins exist
        for _ in range(rng.randint(0, 3)):
            if a and b:
                col = list(rng.choice(a))
                if rng.random() < 0.5:
                    rng.shuffle(col)
                b[rng.randrange(nb)] = col
        return {"kind": "ismember", "nd": nd, "ndim1": ndim1, "sort": rng.random() < 0.5, "a": a, "b": b}
    dim = rng.choice([1, 2, 3])
    tol = rng.choice(TOLS)
    nclus = rng.randint(0, 6)
    cols, labels = _clustered(rng, dim, tol, nclus, tier)
    idx = list(range(len(cols)))
    rng.shuffle(idx)
    a, b = [], []
    for i in idx:
        w = rng.random()
        if w < 0.45:
            a.append(cols[i])
        elif w < 0.9:
            b.append(cols[i])
        else:
            a.append(cols[i])
            b.append(cols[i])
    for lst in (a, b):  # repeated points inside one set (multiplicities)
        if lst and rng.random() < 0.35:
            for _ in range(rng.randint(1, 3)):
                lst.insert(rng.randrange(len(lst) + 1), list(rng.choice(lst)))
    if rng.random() < 0.1:
        a = []
    if rng.random() < 0.1:
        b = []
    return {"kind": "intersect", "dim": dim, "tol": frac(tol), "a": [[frac(x) for x in c] for c in a], "b": [[frac(x) for x in c] for c in b]}


# ------------------------------------------------------------------------------------------------ real code
def _uniq_real(case):
    from porepy.utils.array_operations import uniquify_point_set
    cols = cols_of(case)
    p = arr(cols, case["dim"])
    up, n2o, o2n = uniquify_point_set(p, float(Fraction(case["tol"])))
    return p, up, n2o, o2n


def _int_arr(cols, nd, ndim1):
    if ndim1:
        return np.array([c[0] for c in cols], dtype=np.int64)
    a = np.zeros((nd, len(cols)), dtype=np.int64)
    for j, c in enumerate(cols):
        a[:, j] = c
    return a


def _key(col, sort):
    return tuple(sorted(col)) if sort else tuple(col)


def impl_run(case):
    k = case["kind"]
    try:
        if k == "uniquify":
            p, up, n2o, o2n = _uniq_real(case)
            return {"pts": [[frac(x) for x in up[:, j]] for j in range(up.shape[1])], "new_2_old": [int(i) for i in n2o], "old_2_new": [int(i) for i in o2n]}
        if k == "uniquify_points":
            import porepy as pp
            p = arr(cols_of(case), case["dim"])
            e = np.array(case["edges"], dtype=np.int64).T.reshape((2 + case["ntag"], -1))
            up, eu, dele = pp.fracs.utils.uniquify_points(p, e, float(Fraction(case["tol"])))
            return {"pts": [[frac(x) for x in up[:, j]] for j in range(up.shape[1])], "edges": [[int(x) for x in eu[:, j]] for j in range(eu.shape[1])], "deleted": [int(i) for i in dele]}
        if k == "ismember":
            from porepy.utils.array_operations import ismember_columns
            sort = case["sort"] and not case["ndim1"]
            a, b = _int_arr(case["a"], case["nd"], case["ndim1"]), _int_arr(case["b"], case["nd"], case["ndim1"])
            ismem, ia = ismember_columns(a, b, sort=case["sort"])
            kb = [_key(c, sort) for c in case["b"]]
            canon = [kb.index(kb[int(j)]) if 0 <= int(j) < len(kb) else -1 - int(j) for j in ia]  # first equal column of b
            return {"ismem": [bool(x) for x in ismem], "ia": canon}
        if k == "intersect":
            from porepy.utils.array_operations import intersect_sets
            a, b = arr(cols_of(case, "a"), case["dim"]), arr(cols_of(case, "b"), case["dim"])
            ia, ib, ainb, inter = intersect_sets(a, b, float(Fraction(case["tol"])))
            return {"ia": [int(i) for i in ia], "ib": [int(i) for i in ib], "a_in_b": [bool(x) for x in ainb], "intersection": [sorted(int(j) for j in l) for l in inter]}
    except Exception as e:
        return err_kind(e)
    raise ValueError(k)


# ------------------------------------------------------------------------------------------------ Lean model
def model_ops(case):
    k = case["kind"]
    if k == "uniquify":
        return [{"op": "uniquify", "tol": case["tol"], "points": case["points"], "with_anchor": True}]
    if k == "uniquify_points":
        return [{"op": "uniquify_points", "tol": case["tol"], "points": case["points"], "edges": case["edges"]}]
    if k == "ismember":
        return [{"op": "ismember", "a": case["a"], "b": case["b"], "sort": bool(case["sort"] and not case["ndim1"])}]
    return [{"op": "intersect", "tol": case["tol"], "a": case["a"], "b": case["b"]}]


def model_decode(outs, case):
    o = outs[0]
    if case["kind"] == "uniquify" and isinstance(o, dict) and "anchor" in o:
        # the oracle labels F4 cases with a python port of the anchor algorithm; tie that port to the Lean model
        # (anchor result and the decidable agreement condition) on EVERY uniquify case, F4 cases included
        cols = cols_of(case)
        n2o, o2n, agree = _anchor_port(cols, Fraction(case["tol"]))
        want = {"pts": [[frac(x) for x in cols[i]] for i in n2o], "new_2_old": n2o, "old_2_new": o2n}
        d = deep_compare(want, o["anchor"])
        if d or bool(o["agree"]) != agree:
            raise RuntimeError(f"python port of the anchor rule disagrees with the Lean model: {d or 'agreement flag'} on {case}")
        if agree and o["anchor"] != {k: o[k] for k in ("pts", "new_2_old", "old_2_new")}:
            raise RuntimeError("Lean model: rules agree but results differ (contradicts uniquify_anchor_eq_chain)")
        o = {k: o[k] for k in ("pts", "new_2_old", "old_2_new")}
    return o


def compare(impl, model, case):
    return deep_compare(impl, model)


# ------------------------------------------------------------------------------------------------ oracle
def _brute_clusters(cols, tol):
    """labels by connected components of the relation dist < tol (exact); also says whether the relation is transitive"""
    n = len(cols)
    t2 = F(tol) ** 2
    near = [[d2(cols[i], cols[j]) < t2 for j in range(n)] for i in range(n)]
    lab = [-1] * n
    nxt = 0
    for i in range(n):
        if lab[i] >= 0:
            continue
        lab[i] = nxt
        stack = [i]
        while stack:
            u = stack.pop()
            for v in range(n):
                if near[u][v] and lab[v] < 0:
                    lab[v] = nxt
                    stack.append(v)
        nxt += 1
    transitive = all(near[i][j] == (lab[i] == lab[j]) for i in range(n) for j in range(n))
    return lab, transitive


def _expected_from_labels(lab):
    """first members in order of first occurrence, and the map point -> position of its cluster"""
    firsts, pos = [], {}
    for i, l in enumerate(lab):
        if l not in pos:
            pos[l] = len(firsts)
            firsts.append(i)
    return firsts, [pos[l] for l in lab]


def _anchor_clusters(p, tol):
    """the norm pre-clustering exactly as the code evaluates it in binary64: cluster id of every point"""
    norms = np.sqrt(np.sum(p ** 2, axis=0))
    order = np.argsort(norms, kind="stable")
    cid = [0] * p.shape[1]
    cur, ref = 0, norms[order[0]]
    for i in order:
        if abs(ref - norms[i]) > tol:
            cur += 1
            ref = norms[i]
        cid[i] = cur
    return cid, norms


def _norm_far(t2, a, b):
    """abs(sqrt(a) - sqrt(b)) > tol on exact squared norms (the rational test of the model)"""
    lo, hi = min(a, b), max(a, b)
    u = hi - lo - t2
    return u > 0 and u * u > 4 * t2 * lo


def _greedy_groups(cols, t2, groups):
    """greedy first-representative clustering inside each group (order given), then reordering by first occurrence"""
    n = len(cols)
    slots, A = [], {}
    for g in groups:
        off, S = len(slots), []
        for i in g:
            k = next((k for k, s_ in enumerate(S) if d2(cols[i], cols[s_]) < t2), None)
            if k is None:
                S.append(i)
                A[i] = off + len(S) - 1
            else:
                A[i] = off + k
                if i < S[k]:
                    S[k] = i
        slots += S
    ordering = sorted(range(len(slots)), key=lambda k: slots[k])
    rank = {k: r for r, k in enumerate(ordering)}
    return [slots[k] for k in ordering], [rank[A[i]] for i in range(n)]


def _anchor_port(cols, tol):
    """what the current code computes, in exact arithmetic (theorem uniquify_eq_greedy_within_norm_clusters, rule = anchor):
    returns (new_2_old, old_2_new, agree) with agree = the decidable condition `anchorAgrees` of the model"""
    n = len(cols)
    if n == 0:
        return [], [], True
    t2 = F(tol) ** 2
    nr = [sum(F(x) ** 2 for x in c) for c in cols]
    order = sorted(range(n), key=lambda i: nr[i])  # stable
    groups, ra, rp, agree = [[]], nr[order[0]], nr[order[0]], True
    for i in order:
        fa, fp = _norm_far(t2, ra, nr[i]), _norm_far(t2, rp, nr[i])
        agree = agree and fa == fp
        if fa:
            groups.append([])
            ra = nr[i]
        rp = nr[i]
        groups[-1].append(i)
    n2o, o2n = _greedy_groups(cols, t2, groups)
    return n2o, o2n, agree


def _anchor_port_float(cols, p, tol):
    """the same algorithm with the norm clusters evaluated in binary64 exactly as the code does (knife-edge safe)"""
    cid, norms = _anchor_clusters(p, tol)
    order = [int(i) for i in np.argsort(norms, kind="stable")]
    groups = {}
    for i in order:
        groups.setdefault(cid[i], []).append(i)
    return _greedy_groups(cols, F(tol) ** 2, [groups[k] for k in sorted(groups)])


def _uniq_oracle(case):
    """returns (failure | None, expected firsts, expected old_2_new, real o2n)"""
    cols = cols_of(case)
    tol = float(Fraction(case["tol"]))
    p, up, n2o, o2n = _uniq_real(case)
    n = len(cols)
    n2o, o2n = [int(i) for i in n2o], [int(i) for i in o2n]
    lab, transitive = _brute_clusters(cols, tol)
    if not transitive:
        raise RuntimeError("generator produced a point set that is not a union of separated clusters")
    firsts, pos = _expected_from_labels(lab)
    got_pts = [[F(float(x)) for x in up[:, j]] for j in range(up.shape[1])] if up.ndim == 2 else None
    ok = (n2o == firsts and o2n == pos and up.shape == (case["dim"], len(firsts)) and got_pts == [[F(x) for x in cols[i]] for i in firsts])
    if ok:
        return None, firsts, pos, o2n
    # wrong result. Is it exactly what the anchor rule computes (finding F4)?  Classified by the characterisation
    # of the model: greedy clustering within each ANCHOR norm cluster; by theorem uniquify_anchor_eq_chain this
    # can differ from the correct result only where the two rules take different decisions.
    if n > 0 and len(o2n) == n:
        a_n2o, a_o2n, agree = _anchor_port(cols, Fraction(case["tol"]))
        f_n2o, f_o2n = _anchor_port_float(cols, p, tol)
        if agree and (a_n2o, a_o2n) != (firsts, pos):
            raise RuntimeError("anchor port differs from brute force although the rules agree (contradicts the theorems)")
        explained = any((n2o, o2n) == r and got_pts == [[F(x) for x in cols[i]] for i in r[0]]
                        for r in ((a_n2o, a_o2n), (f_n2o, f_o2n)) if r != (firsts, pos))
        if explained:
            cid, norms = _anchor_clusters(p, tol)
            i, j = next((i, j) for i in range(n) for j in range(i) if lab[i] == lab[j] and o2n[i] != o2n[j])
            return ({"what": f"uniquify_point_set(tol={tol}) returns {len(n2o)} unique points for {len(firsts)} clusters: points {j} and {i} are {math.sqrt(float(d2(cols[i], cols[j]))):.3g} apart "
                             f"but land in different norm clusters because the cluster is anchored on the smaller norm of a far-away point", "key": KEY_F4}, firsts, pos, o2n)
    what = (f"uniquify_point_set(tol={tol}) on {n} points: new_2_old={n2o} expected {firsts}; old_2_new={o2n} expected {pos}"
            + ("" if got_pts == [[F(x) for x in cols[i]] for i in n2o if i < n] else "; returned points are not the input columns at new_2_old"))
    key = "uniquify-new2old-wrong" if n2o != firsts else ("uniquify-old2new-wrong" if o2n != pos else "uniquify-points-wrong")
    return {"what": what, "key": key}, firsts, pos, o2n


def oracle(case):
    k = case["kind"]
    if k == "uniquify":
        return _uniq_oracle(case)[0]
    if k == "uniquify_points":
        import porepy as pp
        fail, firsts, pos, _ = _uniq_oracle(case)
        if fail is not None and fail["key"] != KEY_F4:
            return fail
        cols = cols_of(case)
        p = arr(cols, case["dim"])
        e = np.array(case["edges"], dtype=np.int64).T.reshape((2 + case["ntag"], -1))
        up, eu, dele = pp.fracs.utils.uniquify_points(p, e, float(Fraction(case["tol"])))
        exp_e = [[pos[ed[0]], pos[ed[1]]] + ed[2:] for ed in case["edges"]]
        exp_del = [i for i, ed in enumerate(exp_e) if ed[0] == ed[1]]
        exp_keep = [ed for ed in exp_e if ed[0] != ed[1]]
        got_e = [[int(x) for x in eu[:, j]] for j in range(eu.shape[1])]
        got_p = [[F(float(x)) for x in up[:, j]] for j in range(up.shape[1])]
        if got_e == exp_keep and [int(i) for i in dele] == exp_del and got_p == [[F(x) for x in cols[i]] for i in firsts]:
            return None
        if fail is not None:  # the underlying point uniquification shows the recorded defect; the edges inherit it
            return {"what": "uniquify_points inherits: " + fail["what"], "key": KEY_F4}
        return {"what": f"uniquify_points: edges {got_e} deleted {[int(i) for i in dele]}, expected {exp_keep} deleted {exp_del}", "key": "uniquify_points-edges-wrong"}
    if k == "ismember":
        from porepy.utils.array_operations import ismember_columns
        sort = case["sort"] and not case["ndim1"]
        a, b = _int_arr(case["a"], case["nd"], case["ndim1"]), _int_arr(case["b"], case["nd"], case["ndim1"])
        try:
            ismem, ia = ismember_columns(a, b, sort=case["sort"])
        except Exception as e:
            return {"what": f"ismember_columns raised {type(e).__name__}: {e}", "key": "ismember-raises"}
        ka, kb = [_key(c, sort) for c in case["a"]], [_key(c, sort) for c in case["b"]]
        want = [any(x == y for y in kb) for x in ka]  # brute force
        if [bool(x) for x in ismem] != want:
            return {"what": f"ismember_columns(sort={case['sort']}) mask {[bool(x) for x in ismem]}, brute force {want}", "key": "ismember-mask-wrong"}
        members = [x for x, w in zip(ka, want) if w]
        ia = [int(j) for j in ia]
        if len(ia) != len(members) or any(not (0 <= j < len(kb)) or kb[j] != x for j, x in zip(ia, members)):
            return {"what": f"ismember_columns(sort={case['sort']}) indices {ia} do not point to twins of the member columns", "key": "ismember-index-wrong"}
        return None
    if k == "intersect":
        from porepy.utils.array_operations import intersect_sets
        ca, cb = cols_of(case, "a"), cols_of(case, "b")
        tol = float(Fraction(case["tol"]))
        try:
            ia, ib, ainb, inter = intersect_sets(arr(ca, case["dim"]), arr(cb, case["dim"]), tol)
        except Exception as e:
            return {"what": f"intersect_sets raised {type(e).__name__}: {e}", "key": "intersect-raises"}
        t2 = F(tol) ** 2
        want = [[j for j, q in enumerate(cb) if d2(pt, q) <= t2] for pt in ca]
        got = [sorted(int(j) for j in l) for l in inter]
        if got != want:
            return {"what": f"intersect_sets intersection {got}, brute force {want}", "key": "intersect-pairs-wrong"}
        if [int(i) for i in ia] != [i for i, l in enumerate(want) if l] or [bool(x) for x in ainb] != [bool(l) for l in want]:
            return {"what": f"intersect_sets ia={list(ia)} a_in_b={list(ainb)} inconsistent with brute force {want}", "key": "intersect-ia-wrong"}
        if [int(j) for j in ib] != sorted({j for l in want for j in l}):
            return {"what": f"intersect_sets ib={list(ib)} inconsistent with brute force {want}", "key": "intersect-ib-wrong"}
        return None
    raise ValueError(k)


# ------------------------------------------------------------------------------------------------ evidence hooks
def nontrivial(case):
    k = case["kind"]
    if k in ("uniquify", "uniquify_points"):
        cols = cols_of(case)
        if len(cols) < 2:
            return False
        lab, _ = _brute_clusters(cols, float(Fraction(case["tol"])))
        return len(set(lab)) < len(lab)
    if k == "ismember":
        sort = case["sort"] and not case["ndim1"]
        kb = {_key(c, sort) for c in case["b"]}
        return len(case["a"]) >= 2 and any(_key(c, sort) in kb for c in case["a"])
    return len(case["a"]) >= 1 and len(case["b"]) >= 1


def shrink_candidates(case):
    k = case["kind"]
    if k in ("uniquify", "uniquify_points"):
        pts = case["points"]
        for i in range(len(pts)):
            c = dict(case, points=pts[:i] + pts[i + 1:])
            if k == "uniquify_points":
                c["edges"] = [[(v - (v > i)) if r < 2 else v for r, v in enumerate(e)] for e in case["edges"] if e[0] != i and e[1] != i]
            yield c
        if k == "uniquify_points":
            for i in range(len(case["edges"])):
                yield dict(case, edges=case["edges"][:i] + case["edges"][i + 1:])
    else:
        for name in ("a", "b"):
            for i in range(len(case[name])):
                yield dict(case, **{name: case[name][:i] + case[name][i + 1:]})


def _is_sqrt_band(c, t):
    """two points of different clusters with equal squared norms at a distance in (tol, sqrt(tol))"""
    if Fraction(c["tol"]) != Fraction(t):
        return False
    cols = cols_of(c)
    nr = [sum(F(x) ** 2 for x in col) for col in cols]
    t2 = F(t) ** 2
    return any(nr[i] == nr[j] and t2 < d2(cols[i], cols[j]) < F(t) for i in range(len(cols)) for j in range(i))


def stats(cases, impl_outs):
    kinds = {}
    for c in cases:
        kinds[c["kind"]] = kinds.get(c["kind"], 0) + 1
    uq = [c for c in cases if c["kind"] in ("uniquify", "uniquify_points")]
    straddle = f4 = 0
    sizes = {}
    for c in uq:
        cols = cols_of(c)
        n = len(cols)
        sizes[str(min(n, 20))] = sizes.get(str(min(n, 20)), 0) + 1
        if n:
            tol = float(Fraction(c["tol"]))
            cid, _ = _anchor_clusters(arr(cols, c["dim"]), tol)
            lab, _ = _brute_clusters(cols, tol)
            if any(lab[i] != lab[j] and cid[i] == cid[j] for i in range(n) for j in range(i)):
                straddle += 1  # norm cluster contains points of several true clusters
            if any(lab[i] == lab[j] and cid[i] != cid[j] for i in range(n) for j in range(i)):
                f4 += 1
    return {"kinds": kinds, "point_set_sizes": sizes, "dims": {str(d): sum(1 for c in cases if c.get("dim") == d) for d in (1, 2, 3)},
            "norm_cluster_mixes_true_clusters": straddle, "true_cluster_split_by_anchor_rule(F4 pattern)": f4,
            "ismember_sort": sum(1 for c in cases if c["kind"] == "ismember" and c["sort"]), "ismember_1d": sum(1 for c in cases if c["kind"] == "ismember" and c["ndim1"]),
            "sqrt_band_equal_norm_cases_by_tol": {str(t): sum(1 for c in uq if _is_sqrt_band(c, t)) for t in SQRT_BAND_TOLS},
            "intersect_dups_inside_a": sum(1 for c in cases if c["kind"] == "intersect" and len({tuple(x) for x in c["a"]}) < len(c["a"])),
            "intersect_dups_inside_b": sum(1 for c in cases if c["kind"] == "intersect" and len({tuple(x) for x in c["b"]}) < len(c["b"])),
            "impl_errors": sum(1 for o in impl_outs if isinstance(o, dict) and "err" in o)}
