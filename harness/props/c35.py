"""C35 Sparse-matrix utilities match dense reference semantics.

One case = one call of one utility.  `impl_run` calls the real porepy function and returns the raw
compressed arrays + the dense reading; `model_ops` sends the same arrays to the Lean model
(PorepyVerif/C35/Model.lean); `oracle` compares the real function with the equivalent dense numpy
operation, independently of the model.

csc matrices travel to the model as the csr reading of their transpose (same three arrays, shape
swapped): "lines" below means rows for csr and columns for csc, "minor" the other dimension.
"""
import numpy as np
import scipy.sparse as sps
from fractions import Fraction
from harness.common import frac, err_kind, deep_compare

PID = "C35"
THEOREMS = [
    "PorepyVerif.C35.expand_index_pointers_eq_ranges",
    "PorepyVerif.C35.expand_index_pointers_broadcast",
    "PorepyVerif.C35.rldecode_eq_repeat",
    "PorepyVerif.C35.rlencode_eq_runs",
    "PorepyVerif.C35.rleSpec_characterisation",
    "PorepyVerif.C35.rldecode_rlencode",
    "PorepyVerif.C35.stack_mat_eq_vstack",
    "PorepyVerif.C35.stack_diag_eq_block_diag",
    "PorepyVerif.C35.slice_eq_dense_index",
    "PorepyVerif.C35.whereTrue_spec",
    "PorepyVerif.C35.slice_indices_eq",
    "PorepyVerif.C35.slice_indices_array_ind",
    "PorepyVerif.C35.slice_indices_int_eq",
    "PorepyVerif.C35.zero_rows_eq_dense",
    "PorepyVerif.C35.merge_eq_row_replacement",
    "PorepyVerif.C35.replaceRows_spec",
    "PorepyVerif.C35.from_sparse_blocks_eq_block_diag",
    "PorepyVerif.C35.from_sparse_blocks_empty",
    "PorepyVerif.C35.from_dense_blocks_eq_block_diag",
    "PorepyVerif.C35.from_dense_blocks_size_error",
    "PorepyVerif.C35.block_diag_matrix_eq_block_diag",
    "PorepyVerif.C35.kron_identity_dense",
    "PorepyVerif.C35.kron_one_dense",
    "PorepyVerif.C35.expand_indices_nd_eq",
    "PorepyVerif.C35.expand_indices_add_increment_eq",
    "PorepyVerif.C35.block_diag_index_square",
    "PorepyVerif.C35.block_diag_index_eq_coordinates",
    "PorepyVerif.C35.csc_eq_transposed_reading",
    "PorepyVerif.C35.transpose_transpose",
    "PorepyVerif.C35.zero_columns_eq_dense",
    "PorepyVerif.C35.slice_columns_eq_dense_index",
    "PorepyVerif.C35.merge_columns_eq_replacement",
    "PorepyVerif.C35.stack_mat_csc_eq_hstack",
    "PorepyVerif.C35.stack_diag_csc_eq_block_diag",
    "PorepyVerif.C35.csc_from_sparse_blocks_eq_block_diag",
    "PorepyVerif.C35.csc_from_dense_blocks_eq_block_diag",
    "PorepyVerif.C35.slice_mask_eq_dense_mask",
    "PorepyVerif.C35.slice_indices_mask_eq",
    "PorepyVerif.C35.sparse_kronecker_product_dense",
    "PorepyVerif.C35.optimized_storage_spec",
    "PorepyVerif.C35.copy_eq",
    "PorepyVerif.C35.row_col_data_rebuilds_dense",
    "PorepyVerif.C35.slice_then_zero_dense",
]
LEAN_MODULES = ["PorepyVerif.C35.Props"]
AUDIT = "PorepyVerif/C35/Audit.lean"
DRIVER = "PorepyVerif/C35/Driver.lean"
N = {"quick": 2000, "thorough": 60000}
RULE = ("one call of one utility per case (function drawn from 26 kinds, see input_distribution; explicit strata: 1x1 / single line, wide/tall, no stored entry, decreasing or repeated-same indices, values of scale 2^+-60, reversed and fully permuted line sets, chained calls); matrices: csr or csc, 0-6 lines x 0-5 "
        "minor entries, 30% empty lines, styles canonical / unsorted indices / duplicate indices / full / nearly empty, 15% explicit "
        "zeros, values small dyadic rationals (binary64 exact); line sets: sorted, unsorted, repeated (where the code allows it), empty, "
        "boolean masks, scalars; counts with zeros; blocks of size zero; ~6% documented-error inputs (wrong format, shape mismatch, "
        "non-unique lines, wrong data size, length mismatch). non-trivial = no error expected; distinct = distinct (function, input)")
TRUSTED = [
    "modelled, not verified: numpy primitives (cumsum, fancy indexing, boolean masks, np.insert with sorted positions, np.repeat, np.tile/reshape, argsort), "
    "scipy constructors csr_matrix((data, indices, indptr)) (no reordering), scipy fancy line indexing B[sort_ind] inside merge_matrices (modelled by sliceLines), "
    "scipy asformat / tocsr / tocsc / kron (format conversions are performed by scipy on the harness side before the model is called; "
    "sparse_kronecker_product is pure scipy and is compared with the model's Kronecker reference on dense output only)",
    "csc functions are DEFINED in the model as the csr function on the reading with the same arrays (Csc.ofRead . f . Csc.read) - that the code really runs the same array "
    "manipulations for both formats, and assembles the shape as the model does, is checked by correspondence (raw arrays, shapes and Csc.toDense vs toarray()) and oracle",
    "slice assignment i[a:b] = ... over consecutive slices in block_diag_index(m) is modelled as concatenation",
]
EXPLANATION = (
    "FULL for the row-wise reading. Model = Csr{nrows,ncols,indptr,indices,data} with toDense (duplicates summed, unsorted indices allowed) and one function per "
    "utility written on the arrays the way the code is (cumsum / scatter / fancy indexing / np.insert / np.repeat); every theorem holds for ALL inputs satisfying the "
    "decidable predicate Csr.WF (evaluated by the driver on every generated matrix). PROVED (toDense (f A ..) = dense reference, plus well-formedness of the result): "
    "expand_index_pointers (= concatenated ranges, with broadcasting and the ValueError), rldecode (= np.repeat), rlencode (= maximal runs) and the round trip "
    "rldecode(rlencode(A)) = A, zero_rows/zero_columns (dense zeroing, structure untouched), slice_sparse_matrix (unsorted / repeated / empty index lists), "
    "slice_indices (both outputs, array / scalar form), merge_matrices (= A[lines,:] = B for every duplicate-free line list, sorted or not, incl. the argsort path), "
    "stack_mat, stack_diag (incl. the B.shape == (0, 0) shortcut as coded now), cs?_matrix_from_sparse_blocks (any number of blocks, zero-size blocks), "
    "cs?_matrix_from_dense_blocks (incl. block_size 1 and num_blocks 0, and the ValueError), block_diag_matrix, block_diag_index(m) and block_diag_index(m, n) "
    "(= coordinates of the block-diagonal entries, zero sizes allowed), expand_indices_nd (F and C order), expand_indices_add_increment, and the Kronecker reference "
    "kron(A, I_nd) in compressed form (= dense Kronecker product; nd = 1 is the identity). "
    "CSC SIDE (proved): Csc.toDense is scipy's column-wise semantics written down directly; csc_eq_transposed_reading proves it is the transpose of the row-wise reading of the "
    "same arrays (and transpose_transpose the involution), and every format-taking function has its csc theorem as the transposed statement of the csr theorem: "
    "zero_columns, slice A[:, ind], merge_matrices A[:, lines] = B, csc_matrix_from_sparse_blocks / _dense_blocks; for stacking the transposes are eliminated "
    "(stack_mat csc = hstack row by row, stack_diag csc = the same dense block diagonal). The driver runs the Csc functions for csc inputs and returns Csc.toDense "
    "(dense_std), which is compared with scipy's toarray(). Also proved: boolean-mask slicing (= A[mask, :]) and the mask form of slice_indices incl. its IndexError, "
    "sparse_kronecker_product for every nd (nd = 1 unchanged, nd = 0 empty), optimized_compressed_storage (format rule and unchanged dense matrix). "
    "CORRESPONDENCE ONLY (model + differential test + oracle, no theorem): the format-string / shape ValueError guards of zero_*, merge_matrices, stack_* (in the driver); "
    "scipy's own conversions and kron (asformat, tocsr/tocsc, sps.kron are black boxes: sparse_kronecker_product and optimized_compressed_storage are compared on dense "
    "output with proved reference models kronI / denseToCsr; a csc input of sparse_kronecker_product goes through the transposed reading in the harness); "
    "the IndexError corner of rldecode/block_diag_index for count vectors longer than the values. "
    "ORACLE ONLY (no model): sparse_dia_from_sparse_blocks. "
    "Correspondence compares the raw arrays (indptr, indices, data) AND the dense reading exactly, index outputs exactly, exceptions by class. "
    "No open finding: the stack_diag defect found here (B without lines but non-zero minor dimension) was repaired in /repo (962d765f1, fixes/C35-stack-diag-empty-B.diff); "
    "regression inputs of it and of the two earlier repairs (rldecode zero counts, merge_matrices unsorted lines) are in corpus/C35. "
    "Also proved: copy (same arrays), sparse_array_to_row_col_data (triplets rebuild the dense matrix, remove_nz drops exactly the zeros), chained calls (slice then zero). "
    "The driver evaluates every decidable theorem hypothesis (Csr.WF of each input, line indices in range, mask length, merge checks) on every case; the harness fails if one is false on a non-error case."
)
ASSUMPTIONS = [
    "matrix values are exact in binary64 (dyadic generator) and no arithmetic other than copying/zeroing/summing duplicates happens, so rational model and float code agree exactly",
    "line indices passed to the utilities are non-negative and in range (numpy's negative-index wrap-around is outside the model)",
]

FMTS = ("csr", "csc")


# ----------------------------------------------------------------------------- generators
def _val(rng, scale=1):
    if rng.random() < 0.15:
        return "0"
    return frac(scale * Fraction(rng.choice([-1, 1]) * rng.randint(1, 24), rng.choice([1, 1, 2, 4, 8])))


def gen_mat(rng, fmt=None, major=None, minor=None):
    """random compressed matrix as a JSON dict; major = number of lines (rows for csr, columns for csc)"""
    fmt = fmt or rng.choice(FMTS)
    stratum = rng.random()
    if stratum < 0.06:      # stratum: 1 x 1 / single line / single minor entry
        dmaj, dmin = rng.choice([(1, 1), (1, rng.randint(1, 5)), (rng.randint(1, 6), 1)])
    elif stratum < 0.10:    # stratum: wide or tall (many more lines than minor entries and vice versa)
        dmaj, dmin = rng.choice([(rng.randint(8, 12), rng.randint(1, 2)), (rng.randint(1, 2), rng.randint(8, 12))])
    else:
        dmaj, dmin = rng.choice([0, 1, 1, 2, 3, 3, 4, 5, 6]), rng.choice([0, 1, 2, 3, 3, 4, 5])
    nmaj = major if major is not None else dmaj
    nmin = minor if minor is not None else dmin
    style = rng.choice(["canon", "canon", "unsorted", "unsorted", "dups", "full", "sparse", "empty", "reversed", "samecol"])
    # stratum: extreme scale - the whole matrix is scaled by 2^+-60 (exact in binary64; duplicates are summed at one scale only)
    scale = Fraction(2) ** rng.choice([-60, 60]) if rng.random() < 0.05 else 1
    indptr, indices, data = [0], [], []
    for _ in range(nmaj):
        if nmin == 0 or style == "empty" or rng.random() < (0.7 if style == "sparse" else 0.3):
            cols = []          # stratum "empty": a matrix without any stored entry
        elif style == "reversed":
            cols = sorted(rng.sample(range(nmin), rng.randint(1, nmin)), reverse=True)   # stratum: strictly decreasing indices
        elif style == "samecol":
            cols = [rng.randrange(nmin)] * rng.randint(2, 4)                             # stratum: one index stored several times
        elif style == "canon":
            cols = sorted(rng.sample(range(nmin), rng.randint(1, nmin)))
        elif style == "unsorted":
            cols = rng.sample(range(nmin), rng.randint(1, nmin))
        elif style == "dups":
            cols = [rng.randrange(nmin) for _ in range(rng.randint(1, nmin + 2))]
        elif style == "full":
            cols = list(range(nmin))
        else:
            cols = [rng.randrange(nmin)]
        indices += cols
        data += [_val(rng, scale) for _ in cols]
        indptr.append(len(indices))
    shape = [nmaj, nmin] if fmt == "csr" else [nmin, nmaj]
    return {"fmt": fmt, "shape": shape, "indptr": indptr, "indices": indices, "data": data}


def major(m):
    return m["shape"][0] if m["fmt"] == "csr" else m["shape"][1]


def minor(m):
    return m["shape"][1] if m["fmt"] == "csr" else m["shape"][0]


def gen_lines(rng, n, repeat_ok=True):
    """index set into range(n): sorted / unsorted / repeated / empty / all"""
    if n == 0:
        return []
    kind = rng.choice(["sorted", "unsorted", "unsorted", "repeat", "empty", "all", "single", "reversed", "permutation"])
    if kind == "reversed":      # stratum: all lines in decreasing order
        return list(range(n - 1, -1, -1))
    if kind == "permutation":   # stratum: a random permutation of all lines
        return rng.sample(range(n), n)
    if kind == "empty":
        return []
    if kind == "all":
        return list(range(n))
    if kind == "single":
        return [rng.randrange(n)]
    if kind == "repeat" and repeat_ok:
        return [rng.randrange(n) for _ in range(rng.randint(1, n + 2))]
    s = rng.sample(range(n), rng.randint(1, n))
    return sorted(s) if kind == "sorted" else s


def gen_counts(rng, k, hi=3):
    return [rng.choice([0, 0, 1, 1, 2, 3][: hi + 3]) for _ in range(k)]


KINDS = [
    ("zero", 8), ("slice", 8), ("slice_mask", 3), ("slice_int", 2), ("slice_indices", 4), ("slice_indices_mask", 2),
    ("slice_indices_int", 2), ("merge", 12), ("stack_mat", 6), ("stack_diag", 6), ("from_sparse_blocks", 7),
    ("from_dense_blocks", 5), ("rlencode", 6), ("rldecode", 6), ("eip", 8), ("bdi", 6), ("bdi_sq", 3), ("bdm", 3),
    ("kron", 4), ("nd", 3), ("incr", 2), ("opt", 1), ("extras", 2), ("copy", 1), ("triplets", 3), ("slice_zero", 3),
]
_KW = [k for k, w in KINDS for _ in range(w)]


def gen_case(rng, tier):
    fn = rng.choice(_KW)
    bad = rng.random() < 0.06
    if fn == "zero":
        which = rng.choice(["rows", "cols"])
        want = "csr" if which == "rows" else "csc"
        A = gen_mat(rng, fmt=(rng.choice(FMTS) if bad else want))
        return {"fn": fn, "which": which, "A": A, "lines": gen_lines(rng, major(A))}
    if fn == "slice":
        A = gen_mat(rng)
        return {"fn": fn, "A": A, "ind": gen_lines(rng, major(A))}
    if fn in ("slice_mask", "slice_indices_mask"):
        A = gen_mat(rng)
        n = major(A)
        mask = [rng.random() < 0.5 for _ in range(n)]
        if fn == "slice_indices_mask" and (bad or rng.random() < 0.25):
            mask = mask + [True] if rng.random() < 0.5 or n == 0 else mask[:-1]
        return {"fn": fn, "A": A, "mask": mask}
    if fn in ("slice_int", "slice_indices_int"):
        A = gen_mat(rng, major=rng.randint(1, 6))
        return {"fn": fn, "A": A, "i": rng.randrange(major(A)), "np": rng.random() < 0.5}
    if fn == "slice_indices":
        A = gen_mat(rng)
        return {"fn": fn, "A": A, "ind": gen_lines(rng, major(A))}
    if fn == "merge":
        A = gen_mat(rng)
        lines = gen_lines(rng, major(A), repeat_ok=False)
        B = gen_mat(rng, fmt=A["fmt"], major=len(lines), minor=minor(A))
        fmt = A["fmt"]
        if bad:
            what = rng.choice(["fmt", "fmtB", "minor", "count", "dup"])
            if what == "fmt":
                fmt = "csc" if fmt == "csr" else "csr"
            elif what == "fmtB":
                B = gen_mat(rng, fmt=("csc" if fmt == "csr" else "csr"), major=minor(A), minor=len(lines))
            elif what == "minor":
                B = gen_mat(rng, fmt=fmt, major=len(lines), minor=minor(A) + 1)
            elif what == "count":
                B = gen_mat(rng, fmt=fmt, major=len(lines) + 1, minor=minor(A))
            elif len(lines) >= 1:
                lines = lines + [lines[0]]
                B = gen_mat(rng, fmt=fmt, major=len(lines), minor=minor(A))
        return {"fn": fn, "A": A, "B": B, "lines": lines, "fmt": fmt}
    if fn in ("stack_mat", "stack_diag"):
        A = gen_mat(rng)
        if fn == "stack_mat":
            B = gen_mat(rng, fmt=A["fmt"], minor=minor(A), major=rng.choice([0, 0, 1, 2, 3]))
        else:
            B = gen_mat(rng, fmt=A["fmt"], major=rng.choice([0, 0, 1, 2, 3]))
        if bad:
            what = rng.choice(["fmt", "minor"])
            if what == "fmt":
                B = gen_mat(rng, fmt=("csc" if A["fmt"] == "csr" else "csr"))
            elif fn == "stack_mat":
                B = gen_mat(rng, fmt=A["fmt"], minor=minor(A) + 1, major=rng.choice([0, 1, 2]))
        return {"fn": fn, "A": A, "B": B}
    if fn == "from_sparse_blocks":
        fmt = rng.choice(FMTS)
        k = rng.choice([0, 1, 1, 2, 2, 3, 4]) if bad or rng.random() < 0.3 else rng.choice([2, 2, 3, 4])
        blocks = []
        for _ in range(k):
            b = gen_mat(rng, fmt=(fmt if rng.random() < 0.75 else rng.choice(FMTS)))
            if rng.random() < 0.1:
                b["as_coo"] = True
            blocks.append(b)
        return {"fn": fn, "fmt": fmt, "blocks": blocks}
    if fn == "from_dense_blocks":
        bs = rng.choice([1, 1, 2, 2, 3, 4])
        nb = rng.choice([0, 1, 2, 3, 4])
        n = bs * bs * nb
        if bad:
            what = rng.choice(["size", "bs0"])
            if what == "size":
                n = max(0, n + rng.choice([-1, 1, bs]))
            else:
                bs, n = 0, 0
        return {"fn": fn, "fmt": rng.choice(FMTS), "data": [_val(rng) for _ in range(n)], "block_size": bs, "num_blocks": nb}
    if fn == "rlencode":
        nr = rng.choice([1, 1, 2, 3])
        nc = rng.choice([0, 1, 2, 3, 5, 8, 12]) if bad or rng.random() < 0.2 else rng.choice([1, 2, 3, 5, 8, 12])
        cols = []
        for c in range(nc):
            if c and rng.random() < 0.55:
                cols.append(list(cols[-1]))
            else:
                cols.append([rng.randint(-1, 1) for _ in range(nr)])
        return {"fn": fn, "nrows": nr, "cols": cols}
    if fn == "rldecode":
        k = rng.choice([0, 1, 2, 3, 4, 6])
        w = rng.choice([0, 0, 0, 1, 2])  # 0: 1-d array, else 2-d with w columns (decoded along axis 0)
        a = [[rng.randint(-3, 9) for _ in range(max(w, 1))] for _ in range(k)]
        n = gen_counts(rng, k)
        if rng.random() < 0.1:
            n = [0] * k
        if rng.random() < 0.08 and k:
            n[rng.randrange(k)] = -rng.randint(1, 2)
        if bad:
            n = n + [1] if rng.random() < 0.5 or not n else n[:-1]
        return {"fn": fn, "a": a, "w": w, "n": n}
    if fn == "eip":
        k = rng.choice([0, 1, 1, 2, 3, 4, 6])
        lo = [rng.randint(-3, 8) for _ in range(k)]
        hi = [l + rng.choice([-2, -1, 0, 0, 1, 1, 2, 3, 4]) for l in lo]
        mode = rng.random()
        if mode < 0.12:
            lo = [rng.randint(-3, 8)]
        elif mode < 0.24:
            hi = [rng.randint(-3, 10)]
        elif bad and k >= 2:
            hi = hi[:-1] if len(hi) > 2 or rng.random() < 0.5 else hi + [3, 4]
        return {"fn": fn, "lo": lo, "hi": hi}
    if fn == "bdi":
        k = rng.choice([0, 1, 2, 3, 4])
        m, n = gen_counts(rng, k), gen_counts(rng, k)
        if bad:
            n = n + [1] if rng.random() < 0.5 or not n else n[:-1]
        return {"fn": fn, "m": m, "n": n}
    if fn == "bdi_sq":
        return {"fn": fn, "m": gen_counts(rng, rng.choice([0, 1, 2, 3, 4]))}
    if fn == "bdm":
        sz = gen_counts(rng, rng.choice([0, 1, 2, 3, 4]))
        return {"fn": fn, "sz": sz, "vals": [_val(rng) for _ in range(sum(s * s for s in sz))]}
    if fn == "kron":
        return {"fn": fn, "A": gen_mat(rng), "nd": rng.choice([0, 1, 1, 2, 2, 3])}
    if fn == "nd":
        k = rng.choice([0, 1, 2, 3, 5])
        return {"fn": fn, "ind": [rng.randint(0, 9) for _ in range(k)], "nd": rng.choice([0, 1, 2, 3]), "order": rng.choice(["F", "C"])}
    if fn == "incr":
        k = rng.choice([0, 1, 2, 3, 5])
        return {"fn": fn, "x": [rng.randint(-3, 9) for _ in range(k)], "n": rng.choice([0, 1, 2, 3]), "increment": rng.randint(-5, 200)}
    if fn == "opt":
        return {"fn": fn, "A": gen_mat(rng), "src": rng.choice(["csr", "csc", "coo"])}
    if fn == "copy":
        return {"fn": fn, "A": gen_mat(rng)}
    if fn == "triplets":
        return {"fn": fn, "A": gen_mat(rng), "remove_nz": rng.random() < 0.5}
    if fn == "slice_zero":   # stratum: repeated operations (the output of one utility is the input of the next)
        A = gen_mat(rng)
        ind = gen_lines(rng, major(A))
        return {"fn": fn, "A": A, "ind": ind, "lines": gen_lines(rng, len(ind))}
    return {"fn": "extras", "A": gen_mat(rng), "diag": [[_val(rng) for _ in range(rng.randint(0, 3))] for _ in range(rng.randint(0, 3))]}


# ----------------------------------------------------------------------------- conversions
def to_scipy(m):
    cls = sps.csr_matrix if m["fmt"] == "csr" else sps.csc_matrix
    M = cls((np.array([float(Fraction(v)) for v in m["data"]], dtype=float), np.array(m["indices"], dtype=np.int32),
             np.array(m["indptr"], dtype=np.int32)), shape=tuple(m["shape"]))
    return M


def from_scipy(M):
    """JSON dict of a scipy csr/csc matrix (raw arrays)"""
    return {"fmt": M.format, "shape": [int(M.shape[0]), int(M.shape[1])], "indptr": [int(x) for x in M.indptr],
            "indices": [int(x) for x in M.indices], "data": [frac(x) for x in M.data]}


def reading(m):
    return {"nrows": major(m), "ncols": minor(m), "indptr": m["indptr"], "indices": m["indices"], "data": m["data"]}


def dense_of(m):
    """exact dense matrix (Fractions) of a JSON matrix, ordinary orientation, computed from the arrays directly"""
    r, c = m["shape"]
    D = [[Fraction(0)] * c for _ in range(r)]
    for i in range(major(m)):
        for k in range(m["indptr"][i], m["indptr"][i + 1]):
            j = m["indices"][k]
            if m["fmt"] == "csr":
                D[i][j] += Fraction(m["data"][k])
            else:
                D[j][i] += Fraction(m["data"][k])
    return D


def np_dense(m):
    return np.array([[float(x) for x in row] for row in dense_of(m)], dtype=float).reshape(tuple(m["shape"]))


def _wf(M):
    """the python twin of Csr.wfb (stricter than scipy's check_format, which accepts a decreasing indptr)"""
    try:
        nmaj, nmin = (M.shape if M.format == "csr" else M.shape[::-1])
        ip = [int(x) for x in M.indptr]
        ix = [int(x) for x in M.indices]
        if len(ip) != nmaj + 1 or ip[0] != 0 or any(a > b for a, b in zip(ip, ip[1:])):
            return False
        if ip[-1] != len(ix) or len(ix) != len(M.data) or any(not (0 <= c < nmin) for c in ix):
            return False
        M.check_format(full_check=True)
        return True
    except Exception:
        return False


def canon(M):
    """canonical output of a compressed result: raw arrays + dense reading (line-wise).
    A result that violates scipy's own format invariants is never densified (scipy's C code reads out of bounds)."""
    nmaj, nmin = (M.shape if M.format == "csr" else M.shape[::-1])
    out = {"fmt": M.format, "nrows": int(nmaj), "ncols": int(nmin), "indptr": [int(x) for x in M.indptr],
           "indices": [int(x) for x in M.indices], "data": [frac(x) for x in M.data], "wf_out": _wf(M)}
    if not out["wf_out"]:
        out["dense"] = out["dense_std"] = "malformed result"
        return out
    D = M.toarray()
    out["dense_std"] = [[frac(x) for x in row] for row in D]
    if M.format == "csc":
        D = D.T
    out["dense"] = [[frac(x) for x in row] for row in D]
    return out


def _ia(l):
    return np.array(l, dtype=int)


def _block_for(b, fmt):
    M = to_scipy(b)
    if b.get("as_coo"):
        M = M.tocoo()
    return M


# ----------------------------------------------------------------------------- real code
def call_impl(case):
    """runs the real function; returns python-level results (matrices as scipy objects)"""
    from porepy.numerics.linalg import matrix_operations as mo
    from porepy.utils import array_operations as ao
    fn = case["fn"]
    if fn == "zero":
        A = to_scipy(case["A"])
        (mo.zero_rows if case["which"] == "rows" else mo.zero_columns)(A, _ia(case["lines"]))
        return A
    if fn == "slice":
        return mo.slice_sparse_matrix(to_scipy(case["A"]), _ia(case["ind"]))
    if fn == "slice_mask":
        return mo.slice_sparse_matrix(to_scipy(case["A"]), np.array(case["mask"], dtype=bool))
    if fn == "slice_int":
        return mo.slice_sparse_matrix(to_scipy(case["A"]), int(case["i"]))
    if fn == "slice_indices":
        return mo.slice_indices(to_scipy(case["A"]), _ia(case["ind"]), True)
    if fn == "slice_indices_mask":
        return mo.slice_indices(to_scipy(case["A"]), np.array(case["mask"], dtype=bool), True)
    if fn == "slice_indices_int":
        i = np.int64(case["i"]) if case["np"] else int(case["i"])
        A = to_scipy(case["A"])
        ind, sl = mo.slice_indices(A, i, True)
        ind2 = mo.slice_indices(A, i)
        assert np.array_equal(ind, ind2)
        return ind, sl
    if fn == "merge":
        A, B = to_scipy(case["A"]), to_scipy(case["B"])
        mo.merge_matrices(A, B, _ia(case["lines"]), case["fmt"])
        return A
    if fn == "stack_mat":
        A, B = to_scipy(case["A"]), to_scipy(case["B"])
        mo.stack_mat(A, B)
        return A
    if fn == "stack_diag":
        return mo.stack_diag(to_scipy(case["A"]), to_scipy(case["B"]))
    if fn == "from_sparse_blocks":
        f = mo.csr_matrix_from_sparse_blocks if case["fmt"] == "csr" else mo.csc_matrix_from_sparse_blocks
        return f([_block_for(b, case["fmt"]) for b in case["blocks"]])
    if fn == "from_dense_blocks":
        f = mo.csr_matrix_from_dense_blocks if case["fmt"] == "csr" else mo.csc_matrix_from_dense_blocks
        return f(np.array([float(Fraction(v)) for v in case["data"]], dtype=float), case["block_size"], case["num_blocks"])
    if fn == "rlencode":
        A = np.array(case["cols"], dtype=int).reshape(len(case["cols"]), case["nrows"]).T
        return mo.rlencode(A)
    if fn == "rldecode":
        a = np.array(case["a"], dtype=int).reshape(len(case["a"]), max(case["w"], 1))
        if case["w"] == 0:
            a = a[:, 0]
        return mo.rldecode(a, _ia(case["n"]))
    if fn == "eip":
        return ao.expand_index_pointers(_ia(case["lo"]), _ia(case["hi"]))
    if fn == "bdi":
        return mo.block_diag_index(_ia(case["m"]), _ia(case["n"]))
    if fn == "bdi_sq":
        return mo.block_diag_index(_ia(case["m"]))
    if fn == "bdm":
        return mo.block_diag_matrix(np.array([float(Fraction(v)) for v in case["vals"]], dtype=float), _ia(case["sz"]))
    if fn == "kron":
        return mo.sparse_kronecker_product(to_scipy(case["A"]), case["nd"])
    if fn == "nd":
        return ao.expand_indices_nd(_ia(case["ind"]), case["nd"], case["order"])
    if fn == "incr":
        return ao.expand_indices_add_increment(_ia(case["x"]), case["n"], case["increment"])
    if fn == "opt":
        return mo.optimized_compressed_storage(_src(case))
    if fn == "copy":
        return mo.copy(to_scipy(case["A"]))
    if fn == "triplets":
        return mo.sparse_array_to_row_col_data(to_scipy(case["A"]), case["remove_nz"])
    if fn == "slice_zero":
        S = mo.slice_sparse_matrix(to_scipy(case["A"]), _ia(case["ind"]))
        (mo.zero_rows if S.format == "csr" else mo.zero_columns)(S, _ia(case["lines"]))
        return S
    return None


def _src(case):
    A = to_scipy(case["A"])
    return A.asformat(case["src"])


def _ints(a):
    return [int(x) for x in np.asarray(a).ravel()]


def impl_run(case):
    fn = case["fn"]
    if fn == "extras":
        return {}
    try:
        r = call_impl(case)
    except Exception as e:
        return err_kind(e)
    if fn in ("zero", "slice", "slice_mask", "slice_int", "merge", "stack_mat", "stack_diag", "from_sparse_blocks", "from_dense_blocks", "bdm", "copy", "slice_zero"):
        return canon(r)
    if fn == "triplets":
        i, j, v = r
        if case["A"]["fmt"] == "csc":
            i, j = j, i
        D = np_dense(case["A"]) if case["A"]["fmt"] == "csr" else np_dense(case["A"]).T
        R = np.zeros(D.shape)
        np.add.at(R, (np.asarray(i, dtype=int), np.asarray(j, dtype=int)), v)
        return {"line": _ints(i), "minor": _ints(j), "data": [frac(x) for x in v], "dense": [[frac(x) for x in row] for row in R]}
    if fn in ("slice_indices", "slice_indices_mask"):
        return {"indices": _ints(r[0]), "array_ind": _ints(r[1])}
    if fn == "slice_indices_int":
        return {"indices": _ints(r[0]), "start": int(r[1].start), "stop": int(r[1].stop)}
    if fn == "rlencode":
        return {"vals": [[int(x) for x in col] for col in r[0].T], "num": _ints(r[1])}
    if fn == "rldecode":
        out = np.asarray(r)
        return {"out": [[int(x) for x in np.atleast_1d(row)] for row in out]}
    if fn in ("eip", "nd", "incr"):
        return {"out": _ints(r)}
    if fn == "bdi":
        return {"i": _ints(r[0]), "j": _ints(r[1])}
    if fn == "bdi_sq":
        return {"i": _ints(r)}
    if fn == "kron":
        if r.format in FMTS and not _wf(r):
            return {"dense": "malformed result", "wf_out": False}
        D = r.toarray()
        sh = r.shape
        if case["A"]["fmt"] == "csc":
            D, sh = D.T, sh[::-1]
        return {"dense": [[frac(x) for x in row] for row in D], "nrows": int(sh[0]), "ncols": int(sh[1]), "wf_out": _wf(r)}
    if fn == "opt":
        return {"fmt": r.format, "dense_std": [[frac(x) for x in row] for row in r.toarray()] if _wf(r) else "malformed result"}
    raise AssertionError(fn)


# ----------------------------------------------------------------------------- model
def model_ops(case):
    fn = case["fn"]
    if fn == "extras":
        return []
    if fn == "zero":
        return [{"op": "zero", "A": reading(case["A"]), "fmt": case["A"]["fmt"], "want": "csr" if case["which"] == "rows" else "csc", "lines": case["lines"]}]
    if fn == "slice":
        return [{"op": "slice", "A": reading(case["A"]), "fmt": case["A"]["fmt"], "ind": case["ind"]}]
    if fn == "slice_mask":
        return [{"op": "slice_mask", "A": reading(case["A"]), "fmt": case["A"]["fmt"], "mask": case["mask"]}]
    if fn == "slice_int":
        return [{"op": "slice", "A": reading(case["A"]), "fmt": case["A"]["fmt"], "ind": [case["i"]]}]
    if fn == "slice_indices":
        return [{"op": "slice_indices", "A": reading(case["A"]), "ind": case["ind"]}]
    if fn == "slice_indices_mask":
        return [{"op": "slice_indices_mask", "A": reading(case["A"]), "mask": case["mask"]}]
    if fn == "slice_indices_int":
        return [{"op": "slice_indices_int", "A": reading(case["A"]), "i": case["i"]}]
    if fn == "merge":
        return [{"op": "merge", "A": reading(case["A"]), "B": reading(case["B"]), "lines": case["lines"],
                 "fmtA": case["A"]["fmt"], "fmtB": case["B"]["fmt"], "fmt": case["fmt"]}]
    if fn in ("stack_mat", "stack_diag"):
        return [{"op": fn, "A": reading(case["A"]), "B": reading(case["B"]), "fmtA": case["A"]["fmt"], "fmtB": case["B"]["fmt"]}]
    if fn == "from_sparse_blocks":
        # blocks in another format are converted by scipy's asformat (as the code does) before the model sees them
        bl = []
        for b in case["blocks"]:
            M = _block_for(b, case["fmt"])
            if M.format != case["fmt"]:
                M = M.asformat(case["fmt"])
            bl.append(reading(from_scipy(M)))
        return [{"op": fn, "blocks": bl, "fmt": case["fmt"]}]
    if fn == "from_dense_blocks":
        return [{"op": fn, "data": case["data"], "block_size": case["block_size"], "num_blocks": case["num_blocks"], "fmt": case["fmt"]}]
    if fn == "rlencode":
        return [{"op": fn, "cols": case["cols"]}]
    if fn == "rldecode":
        return [{"op": fn, "a": case["a"], "n": case["n"]}]
    if fn == "eip":
        return [{"op": fn, "lo": case["lo"], "hi": case["hi"]}]
    if fn == "bdi":
        return [{"op": fn, "m": case["m"], "n": case["n"]}]
    if fn == "bdi_sq":
        return [{"op": fn, "m": case["m"]}]
    if fn == "bdm":
        return [{"op": fn, "vals": case["vals"], "sz": case["sz"]}]
    if fn == "kron":
        return [{"op": fn, "A": reading(case["A"]), "nd": case["nd"]}]
    if fn == "nd":
        return [{"op": fn, "ind": case["ind"], "nd": case["nd"], "orderF": case["order"] == "F"}]
    if fn == "incr":
        return [{"op": fn, "x": case["x"], "n": case["n"], "increment": case["increment"]}]
    if fn == "copy":
        return [{"op": fn, "A": reading(case["A"]), "fmt": case["A"]["fmt"]}]
    if fn == "triplets":
        return [{"op": fn, "A": reading(case["A"]), "remove_nz": case["remove_nz"]}]
    if fn == "slice_zero":
        return [{"op": fn, "A": reading(case["A"]), "fmt": case["A"]["fmt"], "ind": case["ind"], "lines": case["lines"]}]
    if fn == "opt":
        # scipy converts the source (csr / csc / coo) to csr for the model; the model decides the format and keeps the dense matrix
        return [{"op": fn, "A": reading(from_scipy(_src(case).tocsr()))}]
    raise AssertionError(fn)


def model_decode(outs, case):
    return outs[0] if outs else {}


_SKIP = {"fmt", "wf_in"}


def compare(impl, model, case):
    if isinstance(impl, dict) and "harness_exc" in impl:
        return f"harness exception in impl_run: {impl['harness_exc']}"
    if isinstance(model, dict) and "wf_in" in model and not all(model["wf_in"]):
        return "an input violates a theorem hypothesis (Csr.WF, line indices in range, mask length) as evaluated by the driver - harness defect"
    if isinstance(impl, dict) and isinstance(model, dict) and "err" not in impl and "err" not in model:
        a = {k: v for k, v in impl.items() if k not in _SKIP}
        b = {k: v for k, v in model.items() if k not in _SKIP}
        if case["fn"] == "rlencode" and case["nrows"] != 1 and not case["cols"]:
            pass
        return deep_compare(a, b, case["fn"])
    return deep_compare(impl, model, case["fn"])


# ----------------------------------------------------------------------------- oracle
def _bd(blocks):
    """dense block diagonal of numpy 2-d arrays, built by hand"""
    R = sum(b.shape[0] for b in blocks)
    C = sum(b.shape[1] for b in blocks)
    D = np.zeros((R, C))
    r = c = 0
    for b in blocks:
        D[r:r + b.shape[0], c:c + b.shape[1]] = b
        r += b.shape[0]
        c += b.shape[1]
    return D


def _same(M, D):
    """sparse/dense result M equals dense reference D exactly (shape and values); a malformed sparse result is never densified"""
    if sps.issparse(M):
        if M.format in FMTS and not _wf(M):
            return False
        X = M.toarray()
    else:
        X = np.asarray(M)
    return X.shape == tuple(D.shape) and np.array_equal(X, D)


def _fail(key, what, case):
    return {"key": key, "what": f"{what}; case fn={case['fn']}"}


def _expect_error(case):
    """documented error of the real function for this input, or None"""
    fn = case["fn"]
    if fn == "zero":
        want = "csr" if case["which"] == "rows" else "csc"
        return "ValueError" if case["A"]["fmt"] != want else None
    if fn == "merge":
        A, B, l = case["A"], case["B"], case["lines"]
        if A["fmt"] != case["fmt"] or B["fmt"] != case["fmt"]:
            return "ValueError"
        if minor(A) != minor(B) or len(l) != major(B) or len(set(l)) != len(l):
            return "ValueError"
        return None
    if fn == "stack_mat":
        A, B = case["A"], case["B"]
        return "ValueError" if A["fmt"] != B["fmt"] or minor(A) != minor(B) else None
    if fn == "stack_diag":
        return "ValueError" if case["A"]["fmt"] != case["B"]["fmt"] else None
    if fn == "from_sparse_blocks":
        return "ValueError" if not case["blocks"] else None  # as sps.block_diag([]) / np.concatenate([])
    if fn == "from_dense_blocks":
        if len(case["data"]) != case["block_size"] ** 2 * case["num_blocks"]:
            return "ValueError"
        return "ZeroDivisionError" if case["block_size"] == 0 else None
    if fn == "rlencode":
        return "IndexError" if not case["cols"] else None
    if fn in ("rldecode", "bdi"):
        a, b = (case["a"], case["n"]) if fn == "rldecode" else (case["m"], case["n"])
        # A[flatnonzero(n > 0)[...]]: a positive count beyond the end of A is an out-of-bounds index
        return "IndexError" if any(c > 0 for c in b[len(a):]) else None
    if fn == "slice_indices_mask":
        return "IndexError" if len(case["mask"]) != major(case["A"]) else None
    if fn == "eip":
        lo, hi = case["lo"], case["hi"]
        return "ValueError" if len(lo) != len(hi) and len(lo) != 1 and len(hi) != 1 else None
    return None


def oracle(case):
    fn = case["fn"]
    if fn == "extras":
        return _oracle_extras(case)
    want_err = _expect_error(case)
    try:
        r = call_impl(case)
    except Exception as e:
        if want_err == type(e).__name__:
            return None
        return _fail(f"{fn}-unexpected-{type(e).__name__}", f"{fn} raised {type(e).__name__}: {e} (expected {want_err or 'a result'})", case)
    if want_err:
        return _fail(f"{fn}-missing-{want_err}", f"{fn} returned a result where {want_err} is documented", case)

    if fn == "zero":
        A = case["A"]
        D = np_dense(A)
        if case["which"] == "rows":
            D[case["lines"], :] = 0
        else:
            D[:, case["lines"]] = 0
        if not _same(r, D):
            return _fail("zero-differs-from-dense", f"zero_{case['which']} != dense assignment of 0 to lines {case['lines']}", case)
        if r.format != A["fmt"] or _ints(r.indptr) != A["indptr"] or _ints(r.indices) != A["indices"]:
            return _fail("zero-changes-structure", "zero_rows/zero_columns changed the sparsity structure", case)
        return None
    if fn in ("slice", "slice_mask", "slice_int"):
        A = case["A"]
        D = np_dense(A)
        ind = _ia(case["ind"]) if fn == "slice" else (np.array(case["mask"], dtype=bool) if fn == "slice_mask" else [case["i"]])
        ref = D[ind, :] if A["fmt"] == "csr" else D[:, ind]
        if r.format != A["fmt"] or not _same(r, ref):
            return _fail("slice-differs-from-dense", f"slice_sparse_matrix != dense fancy indexing with {case.get('ind', case.get('mask', case.get('i')))}", case)
        return None
    if fn in ("slice_indices", "slice_indices_mask", "slice_indices_int"):
        A = case["A"]
        if fn == "slice_indices":
            ind = case["ind"]
        elif fn == "slice_indices_mask":
            ind = [k for k, b in enumerate(case["mask"]) if b]
        else:
            ind = [case["i"]]
        want_ai = [k for i in ind for k in range(A["indptr"][i], A["indptr"][i + 1])]
        want_idx = [A["indices"][k] for k in want_ai]
        got_idx = _ints(r[0])
        got_ai = list(range(int(r[1].start), int(r[1].stop))) if isinstance(r[1], slice) else _ints(r[1])
        if got_idx != want_idx or got_ai != want_ai:
            return _fail("slice_indices-differs", f"slice_indices returned {got_idx},{got_ai}; the stored entries of lines {ind} are {want_idx},{want_ai}", case)
        # dense reading: the entries addressed by array_ind rebuild exactly the selected lines
        D = np_dense(A) if A["fmt"] == "csr" else np_dense(A).T
        rows = np.zeros((len(ind), minor(A)))
        pos = 0
        data = [float(Fraction(v)) for v in A["data"]]
        for q, i in enumerate(ind):
            for _ in range(A["indptr"][i + 1] - A["indptr"][i]):
                rows[q, got_idx[pos]] += data[got_ai[pos]]
                pos += 1
        if not np.array_equal(rows, D[ind, :].reshape(len(ind), minor(A))):
            return _fail("slice_indices-differs", "entries addressed by slice_indices do not rebuild the dense lines", case)
        return None
    if fn == "merge":
        A, B = case["A"], case["B"]
        D, E = np_dense(A), np_dense(B)
        if A["fmt"] == "csr":
            D[case["lines"], :] = E
        else:
            D[:, case["lines"]] = E
        if r.format != A["fmt"] or not _same(r, D) or not _wf(r):
            srt = case["lines"] == sorted(case["lines"])
            return _fail("merge-differs-from-dense-" + ("sorted" if srt else "unsorted"), f"merge_matrices != dense line replacement A[{case['lines']}] = B", case)
        return None
    if fn == "stack_mat":
        A, B = case["A"], case["B"]
        ref = np.vstack((np_dense(A), np_dense(B))) if A["fmt"] == "csr" else np.hstack((np_dense(A), np_dense(B)))
        if r.format != A["fmt"] or not _same(r, ref) or not _wf(r):
            return _fail("stack_mat-differs-from-dense", f"stack_mat != np.{'v' if A['fmt'] == 'csr' else 'h'}stack: shape {r.shape} vs {ref.shape}", case)
        return None
    if fn == "stack_diag":
        A, B = case["A"], case["B"]
        ref = _bd([np_dense(A), np_dense(B)])
        if r.format != A["fmt"] or not _same(r, ref) or not _wf(r):
            if major(B) == 0 and minor(B) > 0 and r.shape != ref.shape and _same(r, np_dense(A)):
                return _fail("stack_diag-empty-B-shape", f"stack_diag(A, B) with B of shape {tuple(B['shape'])} returns A unchanged, shape {r.shape}, "
                             f"where the dense block diagonal has shape {ref.shape}", case)
            return _fail("stack_diag-differs-from-dense", f"stack_diag != dense [[A,0],[0,B]]: shape {r.shape} vs {ref.shape}", case)
        return None
    if fn == "from_sparse_blocks":
        ref = _bd([np_dense(b) for b in case["blocks"]])
        if r.format != case["fmt"] or not _same(r, ref) or not _wf(r):
            return _fail("from_sparse_blocks-differs-from-dense", f"cs{case['fmt'][2]}_matrix_from_sparse_blocks != dense block diagonal (format {r.format}, shape {r.shape} vs {ref.shape})", case)
        return None
    if fn == "from_dense_blocks":
        bs, nb = case["block_size"], case["num_blocks"]
        d = np.array([float(Fraction(v)) for v in case["data"]], dtype=float).reshape(nb, bs, bs)
        ref = _bd([d[k] if case["fmt"] == "csr" else d[k].T for k in range(nb)]).reshape(nb * bs, nb * bs)
        if r.format != case["fmt"] or not _same(r, ref) or not _wf(r):
            return _fail("from_dense_blocks-differs-from-dense", f"cs{case['fmt'][2]}_matrix_from_dense_blocks != dense block diagonal", case)
        return None
    if fn == "rlencode":
        cols = [tuple(c) for c in case["cols"]]
        runs = []
        for c in cols:
            if runs and runs[-1][0] == c:
                runs[-1][1] += 1
            else:
                runs.append([c, 1])
        got_vals = [tuple(int(x) for x in col) for col in r[0].T]
        got_num = _ints(r[1])
        if got_vals != [v for v, _ in runs] or got_num != [n for _, n in runs]:
            return _fail("rlencode-differs", f"rlencode gave values {got_vals} counts {got_num}; maximal runs are {runs}", case)
        A = np.array(case["cols"], dtype=int).reshape(len(cols), case["nrows"]).T
        if not np.array_equal(np.repeat(r[0], r[1], axis=1), A):
            return _fail("rlencode-roundtrip", "np.repeat(*rlencode(A), axis=1) != A", case)
        from porepy.numerics.linalg import matrix_operations as mo
        back = mo.rldecode(r[0].T, r[1]).T
        if not np.array_equal(back, A):
            return _fail("rldecode-rlencode-roundtrip", "rldecode(rlencode(A)) != A", case)
        return None
    if fn == "rldecode":
        a = np.array(case["a"], dtype=int).reshape(len(case["a"]), max(case["w"], 1))
        if case["w"] == 0:
            a = a[:, 0]
        if len(case["a"]) != len(case["n"]):
            return None  # malformed input that the code happens to accept (no positive count beyond the end of A): no dense reference exists
        ref = np.repeat(a, np.maximum(_ia(case["n"]), 0), axis=0)
        got = np.asarray(r)
        if got.shape != ref.shape or not np.array_equal(got, ref):
            return _fail("rldecode-differs-from-repeat", f"rldecode(A, {case['n']}) = {got.tolist()} but np.repeat gives {ref.tolist()}", case)
        return None
    if fn == "eip":
        lo, hi = list(case["lo"]), list(case["hi"])
        if len(lo) == 1:
            lo = lo * len(hi)
        if len(hi) == 1:
            hi = hi * len(lo)
        ref = [x for l, h in zip(lo, hi) for x in range(l, h)]
        if _ints(r) != ref:
            return _fail("eip-differs", f"expand_index_pointers({case['lo']}, {case['hi']}) = {_ints(r)}, concatenated ranges are {ref}", case)
        return None
    if fn in ("bdi", "bdi_sq"):
        m = case["m"]
        n = case["n"] if fn == "bdi" else m
        if len(m) != len(n):
            return None  # malformed input that the code happens to accept: no dense reference exists
        wi, wj, ro, co = [], [], 0, 0
        for mk, nk in zip(m, n):
            for c in range(nk):
                for q in range(mk):
                    wi.append(ro + q)
                    wj.append(co + c)
            ro += mk
            co += nk
        if fn == "bdi_sq":
            if _ints(r) != wi:
                return _fail("bdi_sq-differs", f"block_diag_index({m}) = {_ints(r)}, row coordinates of the blocks are {wi}", case)
            return None
        gi, gj = _ints(r[0]), _ints(r[1])
        if gi != wi or gj != wj:
            return _fail("bdi-differs", f"block_diag_index({m}, {n}) = {gi},{gj}; block coordinates are {wi},{wj}", case)
        mask = np.zeros((sum(m), sum(n)))
        mask[gi, gj] += 1
        if not np.array_equal(mask, _bd([np.ones((a, b)) for a, b in zip(m, n)]).reshape(sum(m), sum(n))):
            return _fail("bdi-differs", "block_diag_index does not address each entry of the block diagonal exactly once", case)
        return None
    if fn == "bdm":
        sz = case["sz"]
        vals = [float(Fraction(v)) for v in case["vals"]]
        blocks, p = [], 0
        for s in sz:
            blocks.append(np.array(vals[p:p + s * s], dtype=float).reshape(s, s))
            p += s * s
        ref = _bd(blocks).reshape(sum(sz), sum(sz))
        if not _same(r, ref) or not _wf(r):
            return _fail("bdm-differs-from-dense", f"block_diag_matrix(vals, {sz}) != dense block diagonal", case)
        return None
    if fn == "kron":
        D = np_dense(case["A"])
        nd = case["nd"]
        ref = D if nd == 1 else np.kron(D, np.eye(nd))
        ref = ref.reshape(D.shape[0] * nd, D.shape[1] * nd)
        if not _same(r, ref) or (nd != 1 and r.format != "csc"):
            return _fail("kron-differs-from-dense", f"sparse_kronecker_product(A, {nd}) != np.kron(A, eye({nd}))", case)
        return None
    if fn == "nd":
        ind, nd = case["ind"], case["nd"]
        if nd == 1:
            ref = list(ind)
        elif case["order"] == "F":
            ref = [nd * i + d for i in ind for d in range(nd)]
        else:
            ref = [nd * i + d for d in range(nd) for i in ind]
        if _ints(r) != ref:
            return _fail("nd-differs", f"expand_indices_nd({ind}, {nd}, {case['order']}) = {_ints(r)} != {ref}", case)
        # link with the Kronecker expansion: lines nd*i+d of kron(M, I) are the lines of kron(M[ind], I)
        if nd >= 1 and case["order"] == "F" and ind:
            M = np.arange(10 * 3, dtype=float).reshape(10, 3)
            K = np.kron(M, np.eye(nd))
            if not np.array_equal(K[_ints(r), :], np.kron(M[ind, :], np.eye(nd))):
                return _fail("nd-differs", "rows expand_indices_nd(ind) of kron(M, I) != kron(M[ind], I)", case)
        return None
    if fn == "incr":
        ref = [v + case["increment"] * d for v in case["x"] for d in range(case["n"])]
        if _ints(r) != ref:
            return _fail("incr-differs", f"expand_indices_add_increment = {_ints(r)} != {ref}", case)
        return None
    if fn == "copy":
        A = case["A"]
        if r.format != A["fmt"] or _ints(r.indices) != A["indices"] or _ints(r.indptr) != A["indptr"] or not _same(r, np_dense(A)):
            return _fail("copy-differs", "copy(A) changed format, index order or values", case)
        return None
    if fn == "triplets":
        D = np_dense(case["A"])
        i, j, v = r
        R = np.zeros(D.shape)
        np.add.at(R, (np.asarray(i, dtype=int), np.asarray(j, dtype=int)), v)
        if not np.array_equal(R, D) or (case["remove_nz"] and np.any(np.asarray(v) == 0)):
            return _fail("row_col_data-differs", f"sparse_array_to_row_col_data(remove_nz={case['remove_nz']}) does not rebuild A / keeps zeros", case)
        return None
    if fn == "slice_zero":
        A = case["A"]
        D = np_dense(A)
        if A["fmt"] == "csr":
            ref = D[_ia(case["ind"]), :]
            ref[case["lines"], :] = 0
        else:
            ref = D[:, _ia(case["ind"])]
            ref[:, case["lines"]] = 0
        if not _same(r, ref):
            return _fail("slice_zero-differs-from-dense", "zero_* applied to slice_sparse_matrix(A, ind) != dense slicing followed by dense zeroing", case)
        return None
    if fn == "opt":
        D = np_dense(case["A"])
        want = "csc" if D.shape[0] > D.shape[1] else "csr"
        if r.format != want or not _same(r, _src(case).toarray()):
            return _fail("opt-differs", f"optimized_compressed_storage: format {r.format} (want {want}) or values changed", case)
        return None
    raise AssertionError(fn)


def _oracle_extras(case):
    """copy, sparse_array_to_row_col_data, sparse_dia_from_sparse_blocks, diagonal reading (oracle only, no model)"""
    from porepy.numerics.linalg import matrix_operations as mo
    A = to_scipy(case["A"])
    D = np_dense(case["A"])
    C = mo.copy(A)
    if C.format != A.format or _ints(C.indices) != case["A"]["indices"] or _ints(C.indptr) != case["A"]["indptr"] or not _same(C, D):
        return _fail("copy-differs", "copy(A) changed format, index order or values", case)
    for rem in (False, True):
        i, j, v = mo.sparse_array_to_row_col_data(A, rem)
        R = np.zeros(D.shape)
        np.add.at(R, (i, j), v)
        if not np.array_equal(R, D) or (rem and np.any(v == 0)):
            return _fail("row_col_data-differs", f"sparse_array_to_row_col_data(remove_nz={rem}) does not rebuild A", case)
    blocks = [np.array([float(Fraction(x)) for x in b], dtype=float) for b in case["diag"]]
    if blocks:
        S = mo.sparse_dia_from_sparse_blocks([sps.dia_matrix((b, 0), shape=(b.size, b.size)) for b in blocks])
        ref = np.diag(np.concatenate(blocks)) if sum(b.size for b in blocks) else np.zeros((0, 0))
        if not _same(S, ref):
            return _fail("dia_blocks-differs", "sparse_dia_from_sparse_blocks != np.diag(concatenated diagonals)", case)
    return None


# ----------------------------------------------------------------------------- evidence
def nontrivial(case):
    return _expect_error(case) is None


def stats(cases, impl_outs):
    by_fn, errs = {}, 0
    feat = {"csr": 0, "csc": 0, "empty_lines": 0, "zero_size": 0, "unsorted_indices": 0, "duplicate_indices": 0, "explicit_zeros": 0,
            "unsorted_line_sets": 0, "repeated_line_sets": 0, "empty_line_sets": 0, "zero_counts": 0, "stack_diag_B_without_lines": 0,
            "size_1x1": 0, "single_line": 0, "wide_or_tall": 0, "no_stored_entry": 0, "decreasing_indices": 0, "extreme_scale_values": 0,
            "reversed_line_sets": 0, "full_permutation_line_sets": 0, "chained_calls": 0}
    for c, o in zip(cases, impl_outs):
        by_fn[c["fn"]] = by_fn.get(c["fn"], 0) + 1
        if isinstance(o, dict) and "err" in o:
            errs += 1
        mats = [c[k] for k in ("A", "B") if k in c] + list(c.get("blocks", []))
        for m in mats:
            feat[m["fmt"]] += 1
            ip = m["indptr"]
            feat["empty_lines"] += any(ip[i] == ip[i + 1] for i in range(len(ip) - 1))
            feat["zero_size"] += 0 in m["shape"]
            segs = [m["indices"][ip[i]:ip[i + 1]] for i in range(len(ip) - 1)]
            feat["unsorted_indices"] += any(s != sorted(s) for s in segs)
            feat["duplicate_indices"] += any(len(set(s)) != len(s) for s in segs)
            feat["explicit_zeros"] += "0" in m["data"]
            feat["size_1x1"] += m["shape"] == [1, 1]
            feat["single_line"] += len(ip) == 2
            feat["wide_or_tall"] += max(m["shape"]) >= 8
            feat["no_stored_entry"] += not m["indices"] and 0 not in m["shape"]
            feat["decreasing_indices"] += any(len(s) > 1 and all(a > b for a, b in zip(s, s[1:])) for s in segs)
            feat["extreme_scale_values"] += any(abs(Fraction(v)) >= 2 ** 50 or 0 < abs(Fraction(v)) <= Fraction(1, 2 ** 50) for v in m["data"])
        for k in ("lines", "ind"):
            if k in c:
                l = c[k]
                feat["unsorted_line_sets"] += l != sorted(l)
                feat["repeated_line_sets"] += len(set(l)) != len(l)
                feat["empty_line_sets"] += not l
                feat["reversed_line_sets"] += len(l) > 1 and l == sorted(l, reverse=True)
                feat["full_permutation_line_sets"] += len(l) > 1 and sorted(l) == list(range(len(l))) and l != sorted(l)
        for k in ("n", "m", "sz"):
            if k in c and isinstance(c[k], list):
                feat["zero_counts"] += 0 in c[k]
        feat["chained_calls"] += c["fn"] == "slice_zero"
        if c["fn"] == "stack_diag" and major(c["B"]) == 0:
            feat["stack_diag_B_without_lines"] += 1
    return {"by_function": by_fn, "error_outcomes": errs, "features": feat}
