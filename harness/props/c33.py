"""C33 Tessellation overlaps partition cell measures.

1-D (`line_tessellation`, `match_1d`): Lean model + theorems, correspondence of the overlap triples and of the three
matching matrices, direct oracle with exact rational interval arithmetic.
2-D (`triangulations`, `match_2d`, `surface_tessellations`) and `match_grids_along_1d_mortar`: oracle only (no Lean
model): the statement of the 1-D theorems (non-negative, row/column sums = cell measures, stochastic scaled matrices)
checked on the real code, plus an independent exact computation of every pairwise overlap (Sutherland-Hodgman clipping
over Fractions in 2-D, interval intersection along the fracture for the mortar matching).
"""
import json
import math
from fractions import Fraction as F

import numpy as np

from harness.common import frac, err_kind, deep_compare, close

PID = "C33"
THEOREMS = [
    "PorepyVerif.C33.line_tess_nonneg",
    "PorepyVerif.C33.line_tess_indices",
    "PorepyVerif.C33.line_tess_entry_spec",
    "PorepyVerif.C33.line_tess_rowsum",
    "PorepyVerif.C33.line_tess_colsum",
    "PorepyVerif.C33.match_avg_rows_one",
    "PorepyVerif.C33.match_int_cols_one",
    "PorepyVerif.C33.common_area_nonneg",
    "PorepyVerif.C33.tri_tess_pos",
    "PorepyVerif.C33.tri_tess_indices",
    "PorepyVerif.C33.tri_tess_entry",
    "PorepyVerif.C33.tri_tess_rowsum_eq",
    "PorepyVerif.C33.tri_tess_colsum_eq",
    "PorepyVerif.C33.clip_area2_nonneg",
    "PorepyVerif.C33.common_area_eq_clip",
    "PorepyVerif.C33.clip_split",
    "PorepyVerif.C33.bsp_overlaps_sum",
    "PorepyVerif.C33.bsp_overlaps_sum_all",
    "PorepyVerif.C33.match2d_avg_rows_one_of_rowsum",
    "PorepyVerif.C33.match2d_int_cols_one_of_colsum",
    "PorepyVerif.C33.match1d_of_hyp",
    "PorepyVerif.C33.line_tess_rowsum_anyorder",
    "PorepyVerif.C33.line_tess_colsum_anyorder",
    "PorepyVerif.C33.match1d_other_rows",
    "PorepyVerif.C33.match2d_avg_rows_one_of_check",
    "PorepyVerif.C33.match2d_int_cols_one_of_check",
    "PorepyVerif.C33.match2d_entry_spec",
]
LEAN_MODULES = ["PorepyVerif.C33.Props"]
LEAN_DIRS = ["C44"]  # the 2-D model reuses the clipping functions and the convexity theorem of the C44 model
AUDIT = "PorepyVerif/C33/Audit.lean"
DRIVER = "PorepyVerif/C33/Driver.lean"
N = {"quick": 150, "thorough": 2500}
RULE = ("kinds: 1d (60%): two node sets on a common line, embedded in 3-D along a Pythagorean integer direction (|d| integer, "
        "both signs, axis-aligned included) from a rational origin; node parameters dyadic (sizes 2^-10..2^5, 'very uneven') or "
        "non-dyadic rationals; 1-12 cells; interior nodes shared between the two sets with probability 1/2; single-cell sets; "
        "identical sets; node numbering and cell order permuted in 1/4 of the cases (custom pp.Grid, else pp.TensorGrid as "
        "match_grids_along_1d_mortar builds it); 12% 'loose' inputs that are not tessellations of the same segment "
        "(different end points / arbitrary intervals) for the correspondence only. "
        "tri2d (20%): two pp.StructuredTriangleGrid of the same rectangle (1-5 x 1-5 squares each, equal resolutions and "
        "unperturbed grids included, interior nodes moved by up to 0.2 h), optionally rotated into a rational plane of 3-D: "
        "triangulations + match_2d, both also computed by the Lean model (correspondence). surf (10%): surface_tessellations on two or three rectangle partitions (tensor node sets) or on the "
        "triangle sets or on one or two random convex polygons per set (pairwise overlaps only), with and without return_simplexes; every piece "
        "must lie in the cells it is mapped to and the pieces of a pair of cells must add up to the exact overlap. mortar (10%): two Cartesian 2-D grids with one horizontal fracture, "
        "different resolutions and independent monotone piecewise-linear x-maps: match_grids_along_1d_mortar. "
        "err2d (8%): match_2d as called with a Cartesian new/old grid, grids in different planes, or scaling in {averaged, integrated, None, 'foo', 'Averaged', ''} "
        "(ValueError branches, compared with match2dEntry). Extra strata: 1-D extreme scale (coordinates ~2^14), unknown scaling string and a repeated call on every "
        "1-D case, the driver evaluates hyp1d (1-D) and rowsOk/colsOk (2-D) on every well-formed case; tri2d with clockwise triangles / permuted numbering and one-square grids. "
        "non-trivial = both tessellations have >= 2 cells and are not identical; distinct = distinct cases")
TRUSTED = [
    "modelled, not verified: segments_3d's direction / collinearity tests (tolerance 1e-8) are taken as 'the two cells are collinear' "
    "(true by construction of the inputs); only its collinear branch (max/min test, argsort of the four end points, middle two, 'end to end' test |difference| < 1e-8 -> one point) is modelled, "
    "in the arc-length parameter of the coordinate start[mask][0] the code sorts by",
    "modelled, not verified: Grid.cell_nodes / compute_geometry (cell_volumes = distance of the two nodes), scipy coo->csr summation of duplicates",
    "2-D: triangulations / match_2d are modelled (exact rationals; the code rounds in binary64: weights compared with 1e-12 area, reported pairs "
    "compared above 1e-10 area because a numerically zero overlap may or may not pass `area > 0`); modelled, not verified: match_2d's projection to "
    "the plane (the model receives the projected coordinates recorded from the real call) and Grid.cell_volumes of the planar grids (model: shoelace area)",
    "surface_tessellations (shapely) and match_grids_along_1d_mortar are NOT modelled in Lean: oracle only "
    "(exact Sutherland-Hodgman clipping over Fractions / interval intersection as independent reference)",
    "the C44 model's clipping functions (shClip2, halfPlanes, area2) and its theorem sh2_convex1 are imported (LEAN_DIRS = C44)",
    "line_tessellation's normalisation (commit effe5a4eb: origin = min corner, scale = largest bounding-box side of both tessellations) is not a "
    "separate model function: lengths are invariant under it and its only effect, the tolerance 1e-8 of segments_3d becoming RELATIVE, is passed to the "
    "model as ptol = 1e-8 * scale * L / |d_k| (computed by the harness from the case, exact rational); near-tolerance cases straddle that relative band",
    "binary64 rounding of the normalisation, sqrt and of the division by cell volumes (weights compared with 1e-12 relative)",
]
EXPLANATION = ("FULL in 1-D: model = double loop of line_tessellation over the collinear branch of segments_3d + the three scaling branches of "
               "match_1d + coo->dense; theorems: non-negativity (any cell lists), entry = length of the interval intersection, row/column sums = cell "
               "measures, averaged rows / integrated columns sum to one, for strictly increasing node lists with common end points whose cells are at least "
               "the tolerance of segments_3d long and whose nodes coincide or are at least that tolerance apart (decidable hypotheses gapInc / sepNodes; a "
               "counterexample without them is in Props.lean: shorter overlaps are reported with weight 0). "
               "2-D (deepening): the model mirrors _convex_polygons_common_area (Sutherland-Hodgman clipping + shoelace; clipping functions of the C44 model), "
               "the double loop of triangulations (bounding-box filter, area > 0) and the scaling of match_2d, and is run on the very coordinates the code "
               "sees (plane coordinates for triangulations, the recorded projected coordinates inside match_2d). Proved for all inputs: overlaps positive / "
               "non-negative, dense entries = commonArea, clipping a convex ccw polygon keeps the shoelace area non-negative, SPLIT (the two sides of a line "
               "add up, for any vertex list) and hence: the overlaps of any polygon with the cells of a binary space partition sum to its area; "
               "match_2d rows/columns sum to one given the row/column sums. NOT proved: that the shoelace area of the clipped polygon only depends on the "
               "point set (order / redundancy of half-planes, symmetry, soundness of the bounding-box filter), which is what separates the BSP theorem "
               "from 'two arbitrary triangulations'; that gap is covered by the oracle (sums = measures, exact reference clipping) on the real code. "
               "Deepening B: every hypothesis of the 1-D theorems (hyp1d) and the 2-D tessellation condition (rowsOk/colsOk) are decidable and evaluated by the "
               "driver on every well-formed case (match1d_of_hyp, match2d_*_of_check); rows/columns are proved for any numbering of the cells "
               "(line_tess_*_anyorder); match_1d with an unknown scaling (no else branch: raw lengths) and the ValueError branches of match_2d are modelled "
               "(match1d_other_rows, match2d_entry_spec). "
               "surface_tessellations and match_grids_along_1d_mortar: oracle only. The three defects found here earlier are repaired in /repo "
               "(954bf8e45, 8582bd2b5, 107a27baf); their cases are replayed from the corpus.")
ASSUMPTIONS = [
    "1-D cells are longer than the tolerance 1e-8 of segments_3d in every non-constant coordinate and coordinates are moderate (<= 2^8), "
    "so that the float collinearity tests of segments_3d succeed for collinear inputs",
    "2-D: triangles are non-degenerate (positive area); sums are compared with tolerance 1e-9 * domain area",
]

_DIRS = [(1, 0, 0), (0, 1, 0), (0, 0, 1), (3, 4, 0), (0, 3, 4), (4, 0, 3), (1, 2, 2), (2, 1, 2), (2, 3, 6), (6, 2, 3), (1, 4, 8),
         (4, 4, 7), (2, 6, 9), (6, 6, 7), (8, 1, 4)]


# ------------------------------------------------------------------------------------------------ generator
def _node_set(rng, lo, hi, n, shared, dyadic):
    """n+1 strictly increasing rationals from lo to hi; interior nodes drawn from `shared` with probability 1/2."""
    pts = {lo, hi}
    tries = 0
    while len(pts) < n + 1 and tries < 200:
        tries += 1
        if shared and rng.random() < 0.5:
            x = rng.choice(shared)
        elif dyadic:
            den = rng.choice([1, 2, 4, 16, 256, 1024])
            x = lo + F(rng.randint(1, max(1, int((hi - lo) * den) - 1)), den)
        else:
            den = rng.choice([3, 5, 7, 10, 12, 60])
            x = lo + F(rng.randint(1, max(1, int((hi - lo) * den) - 1)), den)
        if lo < x < hi:
            pts.add(x)
    return sorted(pts)


def _gen_1d(rng, tier):
    dyadic = rng.random() < 0.6
    d = list(rng.choice(_DIRS))
    d = [c * rng.choice([1, -1]) for c in d]
    L = math.isqrt(sum(c * c for c in d))
    if dyadic:
        origin = [F(rng.randint(-32, 32), rng.choice([1, 2, 8])) for _ in range(3)]
        lo = F(rng.randint(-16, 16), rng.choice([1, 4]))
        length = rng.choice([F(1, 4), F(1), F(2), F(5), F(16), F(32)])
    else:
        origin = [F(rng.randint(-9, 9), rng.choice([1, 3, 5])) for _ in range(3)]
        lo = F(rng.randint(-6, 6), rng.choice([1, 3]))
        length = rng.choice([F(1), F(2), F(7, 3), F(5)])
    big = dyadic and rng.random() < 0.1
    if big:  # stratum: extreme scale (coordinates ~ 2^14, cells from 2^-10 to 2^10)
        origin = [F(rng.randint(-4096, 4096)) for _ in range(3)]
        lo, length = F(rng.randint(-512, 512)), F(1024)
    hi = lo + length
    nmax = 12 if tier == "thorough" else 8
    na = rng.choice([1, 2, 3, rng.randint(2, nmax), rng.randint(1, nmax)])
    nb = rng.choice([1, 2, 4, rng.randint(2, nmax), rng.randint(1, nmax), rng.randint(1, nmax)])
    ta = _node_set(rng, lo, hi, na, [], dyadic)
    if rng.random() < 0.08:
        tb = list(ta)
    else:
        tb = _node_set(rng, lo, hi, nb, ta[1:-1], dyadic)
    loose = rng.random() < 0.12
    near = False
    if dyadic and not loose and rng.random() < 0.15 and len(ta) > 2:
        # nodes of b next to nodes of a, closer / farther than the tolerance of segments_3d
        near = True
        # offsets (powers of two) on both sides of the now scale-relative tolerance: 1e-8 * scale / |d_k| in the node parameter
        r_t = F(1e-8) * max(abs(c) for c in d) * length / abs([c for c in d if c != 0][0])
        below = F(1, 2 ** 40)
        while below * 4 <= r_t:
            below *= 2          # r_t/4 < below <= r_t/2
        above = below * 8       # 2 r_t < above <= 4 r_t
        tb = sorted(set([lo, hi] + [x + rng.choice([1, -1]) * rng.choice([below, above]) for x in rng.sample(ta[1:-1], rng.randint(1, len(ta) - 2))]
                        + [x for x in tb[1:-1] if rng.random() < 0.5]))
        # cells of b must stay longer than the tolerance (ASSUMPTIONS): drop a node that is next to the previous one
        kept = [tb[0]]
        for x in tb[1:-1]:
            if x - kept[-1] >= F(1, 2 ** 12):
                kept.append(x)
        tb = kept + [tb[-1]]

    def grid(t):
        n = len(t)
        cells = [[i, i + 1] for i in range(n - 1)]
        nodes = list(t)
        if rng.random() < 0.25:
            perm = list(range(n))
            rng.shuffle(perm)  # perm[k] = new index of sorted node k
            nodes = [None] * n
            for k, p in enumerate(perm):
                nodes[p] = t[k]
            cells = [[perm[i], perm[i + 1]] for i in range(n - 1)]  # [node with incidence -1, node with +1]
            rng.shuffle(cells)
        return {"nodes": [frac(x) for x in nodes], "cells": cells}

    ga, gb = grid(ta), grid(tb)
    if loose:
        # not a pair of tessellations of one segment: shift / rescale b's nodes, or arbitrary intervals
        r = rng.random()
        tb2 = [F(x) for x in gb["nodes"]]
        if r < 0.5:
            sh = rng.choice([F(1, 2), F(-1, 4), length, -length, F(1, 8)])
            tb2 = [x + sh for x in tb2]
        else:
            k = rng.randint(2, 6)
            pool = [lo + length * F(i, 8) for i in range(-2, 11)]
            tb2 = [rng.choice(pool) for _ in range(2 * k)]
            cells = []
            for i in range(k):
                if tb2[2 * i] == tb2[2 * i + 1]:
                    tb2[2 * i + 1] += length / 8
                cells.append([2 * i, 2 * i + 1])
            gb = {"nodes": None, "cells": cells}
        gb["nodes"] = [frac(x) for x in tb2]
    case = {"kind": "1d", "dir": d, "len": L, "origin": [frac(x) for x in origin], "a": ga, "b": gb, "dyadic": dyadic, "loose": loose, "near": near, "big": big}
    # tolerance of the unscaled matrix: keep it away from every overlap length (no float/rational tie)
    ws = [w for row in _overlaps_1d(case) for w in row]
    exact = _exact_norm(case)
    for tol in rng.sample([F(1, 10000), F(1, 8), F(1, 2), F(1), F(3)], 5):
        if all(abs(w - tol) > F(1, 10 ** 6) or (exact and w == tol) for w in ws):
            break
    else:
        tol = F(1, 10 ** 7)
    pos = [w for w in ws if w > 0]
    if exact and pos and rng.random() < 0.6:
        tol = rng.choice(pos)  # exact tie `weight == tol` (binary64 exact): strict comparison in match_1d
    case["tol"] = frac(tol)
    return case


def _gen_tri(rng, tier):
    m = 5 if tier == "thorough" else 4
    Lx, Ly = rng.choice([1, 2, 3]), rng.choice([1, 2])
    grids = []
    ngr = 2
    for g in range(ngr):
        nx, ny = rng.randint(1, m), rng.randint(1, m)
        pert = rng.choice([0, 0, 1, 2, 3])  # displacement up to pert/16 of the mesh size
        disp = [[rng.randint(-pert, pert), rng.randint(-pert, pert)] for _ in range((nx + 1) * (ny + 1))]
        grids.append({"nx": nx, "ny": ny, "disp16": disp})
    if rng.random() < 0.12:
        grids[1] = json.loads(json.dumps(grids[0]))
    rot = rng.choice([0, 0, 1, 2, 3])
    if rng.random() < 0.1:  # stratum: smallest grids (one square = two triangles each)
        grids = [{"nx": 1, "ny": 1, "disp16": [[0, 0]] * 4}, {"nx": rng.choice([1, 2]), "ny": 1, "disp16": [[0, 0]] * (4 if grids[1]["nx"] == 0 else 6)}]
        grids[1]["disp16"] = [[0, 0]] * ((grids[1]["nx"] + 1) * 2)
    case = {"kind": "tri2d", "Lx": Lx, "Ly": Ly, "grids": grids, "rot": rot}
    if rng.random() < 0.35:  # stratum: clockwise triangles and permuted triangle numbering in the direct call of triangulations
        case["flip"] = [rng.random() < 0.5 for _ in range(2)]
        case["tperm"] = rng.randint(1, 10 ** 6)
    return case


def _gen_surf(rng, tier):
    if rng.random() < 0.55:
        nsets = rng.choice([2, 2, 3])
        Lx, Ly = rng.choice([1, 2, 4]), rng.choice([1, 3])
        sets = []
        for _ in range(nsets):
            xs = _node_set(rng, F(0), F(Lx), rng.randint(1, 4), [F(Lx, 2), F(Lx, 4)], rng.random() < 0.7)
            ys = _node_set(rng, F(0), F(Ly), rng.randint(1, 3), [F(Ly, 3)], rng.random() < 0.7)
            sets.append({"xs": [frac(x) for x in xs], "ys": [frac(y) for y in ys]})
        return {"kind": "surf", "shape": "rect", "sets": sets, "simplex": rng.random() < 0.4}
    if rng.random() < 0.25:
        # a few convex polygons per set (not tessellations of one domain; as in porepy's own tests): pairwise overlaps only
        def hull(pts):
            pts = sorted(set(pts))
            def half(ps):
                h = []
                for q in ps:
                    while len(h) >= 2 and (h[-1][0] - h[-2][0]) * (q[1] - h[-2][1]) - (h[-1][1] - h[-2][1]) * (q[0] - h[-2][0]) <= 0:
                        h.pop()
                    h.append(q)
                return h
            lo, up = half(pts), half(pts[::-1])
            return lo[:-1] + up[:-1]
        sets = []
        for _ in range(2):
            polys = []
            for _ in range(rng.randint(1, 2)):
                while True:
                    h = hull([(F(rng.randint(0, 16), 8), F(rng.randint(0, 16), 8)) for _ in range(rng.randint(3, 5))])
                    if len(h) >= 3:
                        break
                polys.append([[frac(x) for x, _ in h], [frac(y) for _, y in h]])
            sets.append(polys)
        return {"kind": "surf", "shape": "polys", "sets": sets, "simplex": rng.random() < 0.5}
    c = _gen_tri(rng, "quick")
    c.update(kind="surf", shape="tri", simplex=rng.random() < 0.4, rot=0)
    return c


def _gen_mortar(rng, tier):
    def side():
        nx = rng.randint(1, 6)
        ny = 2 * rng.randint(1, 2)
        # monotone piecewise-linear map of [0,1]: images of the uniform grid lines
        k = nx
        cuts = sorted(rng.sample(range(1, 64), k - 1)) if k > 1 else []
        if rng.random() < 0.3:
            cuts = [round(64 * i / k) for i in range(1, k)]
            cuts = sorted(set(cuts))
            if len(cuts) != k - 1:
                cuts = sorted(rng.sample(range(1, 64), k - 1))
        return {"nx": nx, "ny": ny, "xmap64": [0] + cuts + [64]}
    old, new = side(), side()
    if rng.random() < 0.1:
        new = json.loads(json.dumps(old))
    return {"kind": "mortar", "old": old, "new": new}


def gen_case(rng, tier):
    r = rng.random()
    if r < 0.55:
        return _gen_1d(rng, tier)
    if r < 0.75:
        return _gen_tri(rng, tier)
    if r < 0.84:
        return _gen_surf(rng, tier)
    if r < 0.92:
        return _gen_mortar(rng, tier)
    return _gen_err2d(rng, tier)


# ------------------------------------------------------------------------------------------------ 1-D helpers
def _sigma(case):
    return 1 if [c for c in case["dir"] if c != 0][0] > 0 else -1


def _ptol(case):
    """tolerance 1e-8 of segments_3d in arc-length units.  Since /repo commit effe5a4eb line_tessellation first moves both
    tessellations to origin = min corner and divides by scale = largest side of their common bounding box, so the tolerance
    (compared with a difference of the first non-constant NORMALISED coordinate) is relative: 1e-8 * scale * L / |d_k|."""
    dk = abs([c for c in case["dir"] if c != 0][0])
    ts = [F(x) for w in ("a", "b") for c in case[w]["cells"] for x in (case[w]["nodes"][c[0]], case[w]["nodes"][c[1]])]
    scale = max(abs(c) for c in case["dir"]) * (max(ts) - min(ts)) if ts else F(1)
    if not scale > 0:
        scale = F(1)
    return F(1e-8) * scale * case["len"] / dk


def _exact_norm(case):
    """line_tessellation's normalisation is exact in binary64 (dyadic nodes, scale a power of two): only then a tie
    `weight == tol` of match_1d's unscaled branch is decided identically by the code and by exact arithmetic"""
    if not case["dyadic"] or case.get("near") or case["loose"]:
        return False
    ts = [F(x) for w in ("a", "b") for x in case[w]["nodes"]]
    sc = max(abs(c) for c in case["dir"]) * (max(ts) - min(ts))
    return sc > 0 and sc.numerator & (sc.numerator - 1) == 0 and sc.denominator & (sc.denominator - 1) == 0


def _cells_param(case, which):
    """cells as pairs of signed arc-length parameters, in the order and orientation of the grid's cells"""
    g = case[which]
    s = _sigma(case) * case["len"]
    t = [F(x) * s for x in g["nodes"]]
    return [(t[c[0]], t[c[1]]) for c in g["cells"]]


def _overlaps_1d(case):
    """independent reference: exact length of the intersection of every pair of cells (arc length)"""
    ca, cb = _cells_param(case, "a"), _cells_param(case, "b")
    return [[max(F(0), min(max(c), max(d)) - max(min(c), min(d))) for d in cb] for c in ca]


def _grid_1d(case, which):
    import porepy as pp
    import scipy.sparse as sps
    g = case[which]
    t = [F(x) for x in g["nodes"]]
    o = [F(x) for x in case["origin"]]
    d = case["dir"]
    xyz = np.array([[float(o[k] + ti * d[k]) for ti in t] for k in range(3)])
    n = len(t)
    cells = g["cells"]
    if cells == [[i, i + 1] for i in range(n - 1)]:
        gr = pp.TensorGrid(np.arange(n).astype(float))  # as match_grids_along_1d_mortar.create_1d_from_nodes does
        gr.nodes = xyz
    else:
        nc = len(cells)
        fn = sps.identity(n, format="csc", dtype=bool)
        rows = np.array([x for c in cells for x in c], dtype=int)
        cols = np.repeat(np.arange(nc), 2)
        data = np.tile(np.array([-1, 1]), nc)
        cf = sps.csc_matrix((data, (rows, cols)), shape=(n, nc))
        gr = pp.Grid(1, xyz, fn, cf, "c33-1d")
    gr.compute_geometry()
    return gr


def _lines(g):
    cn = g.cell_nodes()
    return cn.indices.reshape((2, -1), order="F")


_memo = {}


def _run_1d(case):
    key = json.dumps(case, sort_keys=True)
    if key in _memo:
        return _memo[key]
    import porepy as pp
    ga, gb = _grid_1d(case, "a"), _grid_1d(case, "b")
    tol = float(F(case["tol"]))
    out = {}
    try:
        T = pp.intersections.line_tessellation(ga.nodes, gb.nodes, _lines(ga), _lines(gb))
        out["triples"] = [[int(i), int(j), float(w)] for i, j, w in T]
    except Exception as e:
        out["triples"] = err_kind(e)
    for name, sc in (("avg", "averaged"), ("int", "integrated"), ("none", None), ("other", "no-such-scaling")):
        try:
            out[name] = pp.match_grids.match_1d(ga, gb, tol, sc).toarray().tolist()
        except Exception as e:
            out[name] = err_kind(e)
    try:  # repeated call on the same grids: same answer (nothing is cached or modified)
        out["repeat_same"] = pp.match_grids.match_1d(ga, gb, tol, "averaged").toarray().tolist() == out["avg"]
    except Exception:
        out["repeat_same"] = False
    out["vol_a"] = [float(v) for v in ga.cell_volumes]
    out["vol_b"] = [float(v) for v in gb.cell_volumes]
    if len(_memo) > 4000:
        _memo.clear()
    _memo[key] = out
    return out


# ------------------------------------------------------------------------------------------------ 2-D helpers
_ROTS = [
    None,
    (np.array([[1, 2, 2], [2, 1, -2], [2, -2, 1]]) / 3.0, np.array([0.5, -1.0, 2.0])),
    (np.array([[2, 3, 6], [3, -6, 2], [6, 2, -3]]) / 7.0, np.array([-2.0, 0.25, 1.0])),
    (np.array([[0, 0, 1], [1, 0, 0], [0, 1, 0]]) * 1.0, np.array([1.0, 1.0, 1.0])),
]


def _tri_grid(case, k, rot=None):
    import porepy as pp
    gd = case["grids"][k]
    nx, ny = gd["nx"], gd["ny"]
    Lx, Ly = case["Lx"], case["Ly"]
    g = pp.StructuredTriangleGrid(np.array([nx, ny]), np.array([float(Lx), float(Ly)]))
    x = g.nodes.copy()
    hx, hy = F(Lx, nx), F(Ly, ny)
    for n in range(x.shape[1]):
        ix, iy = n % (nx + 1), n // (nx + 1)
        if 0 < ix < nx and 0 < iy < ny:
            dx, dy = gd["disp16"][n]
            x[0, n] = float(ix * hx + F(dx, 16) * hx)
            x[1, n] = float(iy * hy + F(dy, 16) * hy)
        else:
            x[0, n] = float(ix * hx)
            x[1, n] = float(iy * hy)
    flat = x[:2].copy()
    if rot is not None:
        R, sh = rot
        x = R @ x + sh.reshape(3, 1)
    g.nodes = x
    g.compute_geometry()
    return g, flat


def _tris(g):
    return g.cell_nodes().tocsc().indices.reshape((3, -1), order="F")


def _tris_direct(case, k, t):
    """triangle array for the direct call of triangulations: optionally clockwise vertex order / permuted numbering"""
    if "flip" not in case:
        return t
    import random as _r
    r = _r.Random(case["tperm"] + k)
    t = t.copy()
    if case["flip"][k]:
        for c in range(t.shape[1]):
            if r.random() < 0.6:
                t[:, c] = t[::-1, c]
    perm = list(range(t.shape[1]))
    r.shuffle(perm)
    return t[:, perm]


def _poly_area(p):
    """shoelace over Fractions; p = list of (x, y)"""
    s = F(0)
    for i in range(len(p)):
        x1, y1 = p[i]
        x2, y2 = p[(i + 1) % len(p)]
        s += x1 * y2 - x2 * y1
    return abs(s) / 2


def _clip(subject, clipper):
    """Sutherland-Hodgman: intersection of two convex polygons (lists of Fraction pairs); exact."""
    def orient(p):
        s = F(0)
        for i in range(len(p)):
            s += p[i][0] * p[(i + 1) % len(p)][1] - p[(i + 1) % len(p)][0] * p[i][1]
        return s
    if orient(clipper) < 0:
        clipper = clipper[::-1]
    out = list(subject)
    for i in range(len(clipper)):
        a, b = clipper[i], clipper[(i + 1) % len(clipper)]
        inp, out = out, []
        if not inp:
            break
        side = lambda p: (b[0] - a[0]) * (p[1] - a[1]) - (b[1] - a[1]) * (p[0] - a[0])
        for k in range(len(inp)):
            p, q = inp[k], inp[(k + 1) % len(inp)]
            sp, sq = side(p), side(q)
            if sp >= 0:
                out.append(p)
            if (sp > 0 and sq < 0) or (sp < 0 and sq > 0):
                t = sp / (sp - sq)
                out.append((p[0] + t * (q[0] - p[0]), p[1] + t * (q[1] - p[1])))
    return out


def _fpoly(cols):
    return [(F(float(x)), F(float(y))) for x, y in zip(cols[0], cols[1])]


def _exact_overlap_matrix(polys_a, polys_b):
    W = np.zeros((len(polys_a), len(polys_b)))
    bb = lambda p: (min(x for x, _ in p), max(x for x, _ in p), min(y for _, y in p), max(y for _, y in p))
    ba, bbx = [bb(p) for p in polys_a], [bb(p) for p in polys_b]
    for i, p in enumerate(polys_a):
        for j, q in enumerate(polys_b):
            if ba[i][0] >= bbx[j][1] or bbx[j][0] >= ba[i][1] or ba[i][2] >= bbx[j][3] or bbx[j][2] >= ba[i][3]:
                continue
            c = _clip(p, q)
            if len(c) >= 3:
                W[i, j] = float(_poly_area(c))
    return W


# ------------------------------------------------------------------------------------------------ impl_run / model
_tmemo = {}


def _run_tri(case):
    """real code on a tri2d case: triangulations on the plane coordinates, match_2d on the (possibly rotated) grids with the
    arguments of its inner triangulations call recorded (these projected coordinates are what the model is run on)."""
    key = json.dumps(case, sort_keys=True)
    if key in _tmemo:
        return _tmemo[key]
    import porepy as pp
    rot = _ROTS[case.get("rot", 0)]
    (ga, fa), (gb, fb) = _tri_grid(case, 0, rot), _tri_grid(case, 1, rot)
    ta, tb = _tris_direct(case, 0, _tris(ga)), _tris_direct(case, 1, _tris(gb))
    area = float(case["Lx"] * case["Ly"])
    out = {"flat": (fa, fb, ta, tb), "area": area}
    try:
        out["triples"] = [[int(i), int(j), float(w)] for i, j, w in pp.intersections.triangulations(fa, fb, ta, tb)]
    except Exception as e:
        out["triples"] = err_kind(e)
    captured = []
    orig = pp.intersections.triangulations

    def spy(p1, p2, t1, t2):
        captured.append((np.array(p1), np.array(p2), np.array(t1), np.array(t2)))
        return orig(p1, p2, t1, t2)

    pp.intersections.triangulations = spy
    try:
        for name, sc, tol in (("avg", "averaged", 1e-6), ("int", "integrated", 1e-6), ("none", None, 1e-6 * area)):
            try:
                out[name] = pp.match_grids.match_2d(ga, gb, tol, sc).toarray().tolist()
            except Exception as e:
                out[name] = err_kind(e)
    finally:
        pp.intersections.triangulations = orig
    out["proj"] = captured[0] if captured else None
    if len(_tmemo) > 2000:
        _tmemo.clear()
    _tmemo[key] = out
    return out


def _tri_op(p1, p2, t1, t2, tol, want):
    return {"op": "tri2d", "want": want, "p1": [[frac(x), frac(y)] for x, y in zip(p1[0], p1[1])], "t1": [[int(v) for v in t1[:, k]] for k in range(t1.shape[1])],
            "p2": [[frac(x), frac(y)] for x, y in zip(p2[0], p2[1])], "t2": [[int(v) for v in t2[:, k]] for k in range(t2.shape[1])], "tol": frac(tol)}


def impl_run(case):
    if case["kind"] == "tri2d":
        r = _run_tri(case)
        out = {"kind": "tri2d"}
        T = r["triples"]
        out["triples"] = T if isinstance(T, dict) else [[i, j, frac(w)] for i, j, w in T]
        for k in ("avg", "int", "none"):
            out[k] = r[k] if isinstance(r[k], dict) else [[frac(x) for x in row] for row in r[k]]
        return out
    if case["kind"] == "1d":
        r = _run_1d(case)
        out = {"kind": "1d"}
        T = r["triples"]
        out["triples"] = T if isinstance(T, dict) else [[i, j, frac(w)] for i, j, w in T]
        for k in ("avg", "int", "none", "other"):
            out[k] = r[k] if isinstance(r[k], dict) else [[frac(x) for x in row] for row in r[k]]
        return out
    if case["kind"] == "err2d":
        return _run_err2d(case)
    o = oracle(case)
    return {"kind": case["kind"], "oracle": "ok" if o is None else o["key"]}


def model_ops(case):
    if case["kind"] == "tri2d":
        r = _run_tri(case)
        tol = 1e-6 * r["area"]
        ops = [_tri_op(*r["flat"], tol, "triples")]
        if r["proj"] is not None:
            p1, p2, t1, t2 = r["proj"]
            ops.append(_tri_op(p1[:2], p2[:2], t1, t2, tol, "matrices"))
        return ops
    if case["kind"] == "err2d":
        return [_err2d_op(case)]
    if case["kind"] != "1d":
        return []
    ca, cb = _cells_param(case, "a"), _cells_param(case, "b")
    op = {"op": "match1d", "c1": [[frac(s), frac(e)] for s, e in ca], "c2": [[frac(s), frac(e)] for s, e in cb], "tol": case["tol"], "ptol": frac(_ptol(case))}
    if not case["loose"]:
        # sorted node lists in the signed arc-length parameter: the driver evaluates the hypotheses of the theorems on them
        sg = _sigma(case) * case["len"]
        for nm, which in (("na", "a"), ("nb", "b")):
            op[nm] = [frac(x) for x in sorted(F(x) * sg for x in case[which]["nodes"])]
    return [op]


def model_decode(outs, case):
    if case["kind"] == "tri2d":
        o = {"kind": "tri2d", "triples": outs[0].get("triples", outs[0]), "rowsOk": outs[0].get("rowsOk"), "colsOk": outs[0].get("colsOk")}
        src = outs[1] if len(outs) > 1 else {}
        for k in ("avg", "int", "none"):
            o[k] = src.get(k)
        return o
    if case["kind"] == "err2d":
        return {"kind": "err2d", "result": outs[0]}
    if case["kind"] != "1d":
        return {"kind": case["kind"], "model": "none (oracle only)"}
    o = dict(outs[0])
    o["kind"] = "1d"
    return o


def _compare_tri(impl, model, case):
    """2-D: the model computes over exact rationals what the code computes in binary64; overlaps of (numerically) zero area
    may or may not pass the `area > 0` filter, so reported pairs are compared above a threshold and weights with tolerance."""
    if "harness_exc" in impl:
        return "impl_run crashed: " + impl["harness_exc"]
    area = float(case["Lx"] * case["Ly"])
    ti, tm = impl["triples"], model["triples"]
    if isinstance(ti, dict) or isinstance(tm, dict):
        return None if ti == tm else f"triples: {ti} vs {tm}"
    if model.get("rowsOk") is not True or model.get("colsOk") is not True:
        return (f"model: the decidable tessellation condition rowsOk/colsOk (hypothesis of match2d_*_of_check) is "
                f"{model.get('rowsOk')}/{model.get('colsOk')} on two triangulations of one rectangle (exact rationals)")
    thr = 1e-10 * area
    si = [(t[0], t[1]) for t in ti if float(F(t[2])) > thr]
    sm = [(t[0], t[1]) for t in tm if float(F(t[2])) > thr]
    if si != sm:
        return f"triangulations: reported pairs (overlap > 1e-10 area) differ: impl-only {sorted(set(si) - set(sm))[:5]}, model-only {sorted(set(sm) - set(si))[:5]}"
    di = {(t[0], t[1]): float(F(t[2])) for t in ti}
    dm = {(t[0], t[1]): float(F(t[2])) for t in tm}
    for k in set(di) | set(dm):
        if abs(di.get(k, 0.0) - dm.get(k, 0.0)) > 1e-12 * area:
            return f"triangulations: overlap of pair {k}: impl {di.get(k, 0.0)!r} vs model {dm.get(k, 0.0)!r}"
    for k in ("avg", "int"):
        if isinstance(impl[k], dict) or model[k] is None:
            return f"match_2d({k}): impl {impl[k]} / model {model[k]}"
        d = deep_compare(impl[k], model[k], "match_2d." + k, tol=1e-9)
        if d:
            return d
    if isinstance(impl["none"], dict) or model["none"] is None:
        return f"match_2d(None): impl {impl['none']} / model {model['none']}"
    # unscaled: entries may differ only where the overlap is within rounding of the tolerance
    Ni, Nm = np.array([[float(F(x)) for x in row] for row in impl["none"]]), np.array([[float(F(x)) for x in row] for row in model["none"]])
    if Ni.shape != Nm.shape:
        return f"match_2d(None): shape {Ni.shape} vs {Nm.shape}"
    tol = 1e-6 * area
    for i, j in zip(*np.nonzero(Ni != Nm)):
        if abs(dm.get((int(i), int(j)), 0.0) - tol) > 1e-9 * area:
            return f"match_2d(None): entry ({i},{j}) impl {Ni[i, j]} vs model {Nm[i, j]}"
    return None


def compare(impl, model, case):
    if case["kind"] == "tri2d":
        return _compare_tri(impl, model, case)
    if case["kind"] == "err2d":
        if "harness_exc" in impl:
            return "impl_run crashed: " + impl["harness_exc"]
        a, b = impl["result"], model["result"]
        if ("err" in a) != ("err" in b) or ("err" in a and a != b):
            return f"match_2d entry: impl {str(a)[:120]} vs model {str(b)[:120]}"
        return None if "err" in a else deep_compare(a["M"], b["M"], "match_2d.entry", tol=1e-9)
    if case["kind"] != "1d":
        return None
    if "harness_exc" in impl:
        return "impl_run crashed: " + impl["harness_exc"]
    model = dict(model)
    hyp, srt = model.pop("hyp", None), model.pop("sorted", None)
    if not case["loose"]:
        if hyp is None:
            return "model did not evaluate the hypotheses"
        if not case.get("near") and hyp is not True:
            return "model: hyp1d (hypotheses of the 1-D theorems) is false on a pair of tessellations of one segment"
        identity = all(case[w]["cells"] == [[i, i + 1] for i in range(len(case[w]["cells"]))] for w in ("a", "b"))
        if identity and _sigma(case) > 0 and srt is not True:
            return "model: the cells sent are not `cells` of the sorted node lists"
    if set(impl) != set(model):
        return f"keys {sorted(impl)} vs {sorted(model)}"
    ti, tm = impl["triples"], model["triples"]
    if isinstance(ti, dict) or isinstance(tm, dict):
        return None if ti == tm else f"triples: {ti} vs {tm}"
    if [t[:2] for t in ti] != [t[:2] for t in tm]:
        return f"reported (i, j) pairs differ: impl {[t[:2] for t in ti]} vs model {[t[:2] for t in tm]}"
    for x, y in zip(ti, tm):
        wi, wm = F(x[2]), F(y[2])
        if False:  # (exact comparison of dyadic inputs dropped: line_tessellation now divides the coordinates by `scale`)
            pass
        elif abs(wi - wm) > 1e-12 * max(1, abs(wm)):
            return f"weight of pair {x[:2]}: impl {float(wi)!r} vs model {float(wm)!r}"
    d = deep_compare(impl["none"], model["none"], "none")
    if d and not _exact_norm(case):
        # a tie `weight == tol` may be decided either way after the (inexact) normalisation: ignore entries whose weight is at the tolerance
        tolf, wd = float(F(case["tol"])), {(t[0], t[1]): float(F(t[2])) for t in tm}
        d = None
        for i, (ri, rm) in enumerate(zip(impl["none"], model["none"])):
            for j, (x, y) in enumerate(zip(ri, rm)):
                if F(x) != F(y) and abs(wd.get((i, j), 0.0) - tolf) > 1e-9 * max(1.0, tolf):
                    d = f"none[{i}][{j}]: {x} vs {y}"
    if d:
        return d
    for k in ("avg", "int", "other"):
        d = deep_compare(impl[k], model[k], k, tol=1e-12 * (max(1.0, float(case["len"]) * 64) if k == "other" else 1))
        if d:
            return d
    return None


# ------------------------------------------------------------------------------------------------ oracle
def _fail(what, key):
    return {"what": what, "key": key}


def _check_sums(name, W, vol_a, vol_b, scale, tol=1e-9):
    """W: dense overlap matrix (measures). Property: >= 0, rows sum to vol_a, columns to vol_b."""
    W = np.asarray(W, dtype=float)
    if W.size and W.min() < 0:
        return _fail(f"{name}: negative overlap {W.min()!r}", f"{name}-negative")
    if not np.all(np.isfinite(W)):
        return _fail(f"{name}: non-finite overlap", f"{name}-nonfinite")
    r = np.abs(W.sum(axis=1) - vol_a)
    if r.size and r.max() > tol * scale:
        i = int(r.argmax())
        return _fail(f"{name}: overlaps of cell {i} of the first tessellation sum to {W.sum(axis=1)[i]!r}, its measure is {vol_a[i]!r}", f"{name}-rowsum")
    c = np.abs(W.sum(axis=0) - vol_b)
    if c.size and c.max() > tol * scale:
        j = int(c.argmax())
        return _fail(f"{name}: overlaps of cell {j} of the second tessellation sum to {W.sum(axis=0)[j]!r}, its measure is {vol_b[j]!r}", f"{name}-colsum")
    return None


def _check_stochastic(name, A, I, tol=1e-9):
    A, I = np.asarray(A, dtype=float), np.asarray(I, dtype=float)
    for nm, M in (("averaged", A), ("integrated", I)):
        if not np.all(np.isfinite(M)):
            return _fail(f"{name}: {nm} matrix has non-finite entries", f"{name}-{nm}-nonfinite")
        if M.size and M.min() < 0:
            return _fail(f"{name}: {nm} matrix has negative entry {M.min()!r}", f"{name}-{nm}-negative")
    r = np.abs(A.sum(axis=1) - 1)
    if r.size and r.max() > tol:
        return _fail(f"{name}: row {int(r.argmax())} of the averaged matrix sums to {A.sum(axis=1)[int(r.argmax())]!r}", f"{name}-averaged-rowsum")
    c = np.abs(I.sum(axis=0) - 1)
    if c.size and c.max() > tol:
        return _fail(f"{name}: column {int(c.argmax())} of the integrated matrix sums to {I.sum(axis=0)[int(c.argmax())]!r}", f"{name}-integrated-colsum")
    return None


def _dense(T, m, n):
    W = np.zeros((m, n))
    for i, j, w in T:
        W[int(i), int(j)] += w
    return W


def _oracle_1d(case):
    r = _run_1d(case)
    for k in ("triples", "avg", "int", "none", "other"):
        if isinstance(r[k], dict):
            return _fail(f"1d: {k} raised {r[k]['err']}", f"1d-{k}-raises-{r[k]['err']}")
    if not r["repeat_same"]:
        return _fail("1d: a second call of match_1d on the same grids gives another matrix", "1d-not-repeatable")
    ref = _overlaps_1d(case)
    m, n = len(case["a"]["cells"]), len(case["b"]["cells"])
    T = r["triples"]
    for i, j, w in T:
        if not (0 <= i < m and 0 <= j < n):
            return _fail(f"1d: reported pair ({i},{j}) out of range", "1d-index")
        if not (w >= 0):
            return _fail(f"1d: negative overlap {w!r} for pair ({i},{j})", "1d-negative")
    W = _dense(T, m, n)
    R = np.array([[float(x) for x in row] for row in ref]).reshape(m, n)
    scale = max(1.0, float(abs(R).max()) if R.size else 1.0)
    # overlaps shorter than the tolerance of segments_3d are reported with weight 0 (one point): slack of one tolerance per pair
    slack = float(_ptol(case)) * (m + n) if case.get("near") else 0.0
    if np.abs(W - R).max() > 1e-12 * scale * 16 + slack:
        i, j = np.unravel_index(np.abs(W - R).argmax(), W.shape)
        return _fail(f"1d: overlap of cells ({i},{j}) reported as {W[i, j]!r}, the intervals share {R[i, j]!r}", "1d-overlap-value")
    if case["loose"]:
        return None
    la, lb = _cells_param(case, "a"), _cells_param(case, "b")
    vol_a = np.array([float(abs(e - s)) for s, e in la])
    vol_b = np.array([float(abs(e - s)) for s, e in lb])
    f = _check_sums("1d", W, vol_a, vol_b, scale, tol=1e-11 + slack / scale)
    if f:
        return f
    f = _check_stochastic("1d", r["avg"], r["int"], tol=1e-11 + slack / float(min(vol_a.min(), vol_b.min())))
    if f:
        return f
    A, I, Nn = np.array(r["avg"]), np.array(r["int"]), np.array(r["none"])
    if np.abs(A * vol_a.reshape(-1, 1) - R).max() > 1e-10 * scale + slack:
        return _fail("1d: averaged matrix is not overlap / measure of the new cell", "1d-averaged-value")
    if np.abs(I * vol_b.reshape(1, -1) - R).max() > 1e-10 * scale + slack:
        return _fail("1d: integrated matrix is not overlap / measure of the old cell", "1d-integrated-value")
    tol = float(F(case["tol"]))
    sure = (np.abs(R - tol) > 1e-9 * scale) | _exact_norm(case)
    if not np.array_equal((Nn != 0)[sure], (R > tol)[sure]) or not np.all((Nn == 0) | (Nn == 1)):
        return _fail("1d: unscaled matrix is not the indicator of overlaps > tol", "1d-none-value")
    return None


def _diagnose_tri(name, p1, p2, t1, t2, T, area):
    """Compare the triples `T = triangulations(p1, p2, t1, t2)` with exact clipping of the same (float) coordinates.
    A mismatch that shapely reproduces on the single pair of triangles gets its own key (defect of the dependency)."""
    PA = [_fpoly(p1[:2, t1[:, k]]) for k in range(t1.shape[1])]
    PB = [_fpoly(p2[:2, t2[:, k]]) for k in range(t2.shape[1])]
    R = _exact_overlap_matrix(PA, PB)
    for i, j, w in T:
        if not (w >= 0):
            return R, _fail(f"{name}: negative overlap {w!r}", "tri-negative")
    W = _dense(T, len(PA), len(PB))
    if np.abs(W - R).max() > 1e-9 * area:
        i, j = (int(v) for v in np.unravel_index(np.abs(W - R).argmax(), W.shape))
        import shapely.geometry as sg
        x = sg.Polygon([(float(a), float(b)) for a, b in PA[i]]).intersection(sg.Polygon([(float(a), float(b)) for a, b in PB[j]]))
        sh_area = x.area if isinstance(x, sg.Polygon) else 0.0
        if abs(sh_area - R[i, j]) > 1e-9 * area and abs(sh_area - W[i, j]) <= 1e-12 * area:
            return R, _fail(f"{name}: overlap of triangles ({i},{j}) reported as {W[i, j]!r}, exact clipping gives {R[i, j]!r}: shapely/GEOS returns "
                            f"{x.geom_type} with area {sh_area!r} for these two triangles (edges collinear up to rounding)", "tri-shapely-wrong-intersection")
        return R, _fail(f"{name}: overlap of triangles ({i},{j}) reported as {W[i, j]!r}, exact clipping gives {R[i, j]!r}", "tri-overlap-value")
    return R, None


def _oracle_tri(case):
    import porepy as pp
    rot = _ROTS[case.get("rot", 0)]
    (ga, fa), (gb, fb) = _tri_grid(case, 0, rot), _tri_grid(case, 1, rot)
    ta, tb = _tris(ga), _tris(gb)
    pa = [_fpoly(fa[:, ta[:, k]]) for k in range(ta.shape[1])]
    pb = [_fpoly(fb[:, tb[:, k]]) for k in range(tb.shape[1])]
    vol_a = np.array([float(_poly_area(p)) for p in pa])
    vol_b = np.array([float(_poly_area(p)) for p in pb])
    if vol_a.min() <= 0 or vol_b.min() <= 0:
        return None  # degenerate input (generator keeps displacements small; should not happen)
    area = float(case["Lx"] * case["Ly"])
    # (a) triangulations on the plane coordinates
    try:
        T = pp.intersections.triangulations(fa, fb, ta, tb)
    except Exception as e:
        return _fail(f"triangulations raised {type(e).__name__}: {e}", f"tri-triangulations-raises-{type(e).__name__}")
    R, f = _diagnose_tri("triangulations", fa, fb, ta, tb, T, area)
    if f:
        return f
    W = _dense(T, len(pa), len(pb))
    f = _check_sums("tri", W, vol_a, vol_b, area)
    if f:
        return f
    if "flip" in case:  # the same with clockwise triangles / permuted numbering
        ta2, tb2 = _tris_direct(case, 0, ta), _tris_direct(case, 1, tb)
        try:
            T2 = pp.intersections.triangulations(fa, fb, ta2, tb2)
        except Exception as e:
            return _fail(f"triangulations raised {type(e).__name__}: {e}", f"tri-triangulations-raises-{type(e).__name__}")
        _, f = _diagnose_tri("triangulations(clockwise/permuted)", fa, fb, ta2, tb2, T2, area)
        if f:
            return f
        va = np.array([float(_poly_area(_fpoly(fa[:, ta2[:, k]]))) for k in range(ta2.shape[1])])
        vb = np.array([float(_poly_area(_fpoly(fb[:, tb2[:, k]]))) for k in range(tb2.shape[1])])
        f = _check_sums("tri-permuted", _dense(T2, len(va), len(vb)), va, vb, area)
        if f:
            return f
    # (b) match_2d on the grids (possibly rotated into another plane of 3-D); its call of triangulations is recorded
    captured = []
    orig = pp.intersections.triangulations

    def spy(p1, p2, t1, t2):
        captured.append((np.array(p1), np.array(p2), np.array(t1), np.array(t2)))
        return orig(p1, p2, t1, t2)

    pp.intersections.triangulations = spy
    try:
        A = pp.match_grids.match_2d(ga, gb, 1e-6, "averaged").toarray()
        I = pp.match_grids.match_2d(ga, gb, 1e-6, "integrated").toarray()
        Nn = pp.match_grids.match_2d(ga, gb, 1e-6 * area, None).toarray()
    except Exception as e:
        return _fail(f"match_2d raised {type(e).__name__}: {e}", f"tri-match2d-raises-{type(e).__name__}")
    finally:
        pp.intersections.triangulations = orig
    if captured:
        p1, p2, t1, t2 = captured[0]
        if t1.shape != ta.shape or t2.shape != tb.shape:
            return _fail("match_2d: handed other triangles to triangulations than the grids have", "match2d-triangles")
        R2, f = _diagnose_tri("match_2d/triangulations", p1, p2, t1, t2, orig(p1, p2, t1, t2), area)
        if f:
            return f
        if np.abs(R2 - R).max() > 1e-9 * area:
            return _fail("match_2d: the projection to the plane changes the overlaps of the cells", "match2d-projection")
    for nm, M in (("averaged", A), ("integrated", I), ("None", Nn)):
        if M.shape != (len(pa), len(pb)):
            return _fail(f"match_2d({nm}): shape {M.shape}", "match2d-shape")
    f = _check_stochastic("match2d", A, I)
    if f:
        return f
    if np.abs(A * vol_a.reshape(-1, 1) - R).max() > 1e-8 * area:
        return _fail("match_2d: averaged matrix is not overlap / measure of the new cell", "match2d-averaged-value")
    if np.abs(I * vol_b.reshape(1, -1) - R).max() > 1e-8 * area:
        return _fail("match_2d: integrated matrix is not overlap / measure of the old cell", "match2d-integrated-value")
    sure = np.abs(R - 1e-6 * area) > 1e-9 * area
    if not np.array_equal((Nn != 0)[sure], (R > 1e-6 * area)[sure]) or not np.all((Nn == 0) | (Nn == 1)):
        return _fail("match_2d: unscaled matrix is not the indicator of overlaps > tol", "match2d-none-value")
    return None


def _surf_sets(case):
    if case["shape"] == "rect":
        sets = []
        for s in case["sets"]:
            xs, ys = [float(F(x)) for x in s["xs"]], [float(F(y)) for y in s["ys"]]
            sets.append([np.array([[xs[i], xs[i + 1], xs[i + 1], xs[i]], [ys[j], ys[j], ys[j + 1], ys[j + 1]]])
                         for j in range(len(ys) - 1) for i in range(len(xs) - 1)])
        return sets
    if case["shape"] == "polys":
        return [[np.array([[float(F(v)) for v in p[0]], [float(F(v)) for v in p[1]]]) for p in st] for st in case["sets"]]
    sets = []
    for k in range(2):
        g, flat = _tri_grid(case, k)
        t = _tris(g)
        sets.append([flat[:, t[:, c]] for c in range(t.shape[1])])
    return sets


def _oracle_surf(case):
    """All cells of all sets are convex, so every piece is convex and the pieces of a pair (cell of set 0, cell of set 1)
    must add up to the exact overlap of the two cells."""
    import porepy as pp
    sets = _surf_sets(case)
    fsets = [[_fpoly(p) for p in st] for st in sets]
    areas = [np.array([float(_poly_area(p)) for p in st]) for st in fsets]
    total = max(float(a.sum()) for a in areas)
    cover = case["shape"] in ("rect", "tri")  # the sets tessellate one and the same rectangle
    try:
        isect, maps = pp.intersections.surface_tessellations(sets, return_simplexes=bool(case["simplex"]))
    except ValueError as e:
        if "zero-size array" in str(e):
            return _fail("surface_tessellations raised ValueError (zero-size array to reduction operation): "
                         "a pair of disjoint cells with overlapping bounding boxes gives an empty shapely Polygon", "surf-empty-polygon-ValueError")
        return _fail(f"surface_tessellations raised ValueError: {e}", "surf-raises-ValueError-other")
    except NotImplementedError as e:
        if "Non-convex" in str(e):
            return _fail("surface_tessellations(return_simplexes=True) raised NotImplementedError('Non-convex polygons not covered') although all "
                         "cells, hence all intersection polygons, are convex", "surf-simplex-convex-piece-rejected")
        return _fail(f"surface_tessellations raised NotImplementedError: {e}", "surf-raises-NotImplementedError-other")
    except Exception as e:
        return _fail(f"surface_tessellations raised {type(e).__name__}: {e}", f"surf-raises-{type(e).__name__}")
    fis = [_fpoly(p) for p in isect]
    ar = np.array([float(_poly_area(p)) for p in fis])
    if len(maps) != len(sets):
        return _fail("surface_tessellations: number of mappings differs from number of sets", "surf-mappings-count")
    Ms = []
    for k, M in enumerate(maps):
        M = M.toarray()
        if M.shape != (len(isect), len(sets[k])):
            return _fail(f"surface_tessellations: mapping {k} has shape {M.shape}, expected {(len(isect), len(sets[k]))}", "surf-mapping-shape")
        if not np.all((M == 0) | (M == 1)) or not np.all(M.sum(axis=1) == 1):
            return _fail(f"surface_tessellations: mapping {k} does not assign exactly one cell of set {k} to every intersection polygon", "surf-mapping-not-function")
        Ms.append(M)
    if cover:
        for k, M in enumerate(Ms):
            sm = M.T @ ar
            if np.abs(sm - areas[k]).max() > 1e-9 * total:
                c = int(np.abs(sm - areas[k]).argmax())
                return _fail(f"surface_tessellations: the pieces of cell {c} of set {k} have total area {sm[c]!r}, the cell has {areas[k][c]!r}", "surf-cell-sum")
    if len(sets) == 2:
        R = _exact_overlap_matrix(fsets[0], fsets[1])
        P = Ms[0].T @ (Ms[1] * ar.reshape(-1, 1)) if len(isect) else np.zeros_like(R)
        if np.abs(P - R).max() > 1e-9 * total:
            i, j = (int(v) for v in np.unravel_index(np.abs(P - R).argmax(), R.shape))
            return _fail(f"surface_tessellations: the pieces mapped to cell {i} of set 0 and cell {j} of set 1 have total area {P[i, j]!r}, "
                         f"the two cells overlap in {R[i, j]!r}", "surf-overlap-value")
    # every piece lies in the cells it is mapped to: area(piece ∩ cell) = area(piece)   (pieces are convex)
    for q, fp in enumerate(fis):
        for k, M in enumerate(Ms):
            c = int(M[q].argmax())
            inter = _clip(fp, fsets[k][c])
            a = float(_poly_area(inter)) if len(inter) >= 3 else 0.0
            if abs(a - ar[q]) > 1e-9 * total:
                return _fail(f"surface_tessellations: piece {q} is mapped to cell {c} of set {k} but only {a!r} of its area {ar[q]!r} lies in it", "surf-piece-outside-cell")
    return None


def _mortar_grid(side):
    import porepy as pp
    nx, ny = side["nx"], side["ny"]
    frac_ = np.array([[0.0, 1.0], [0.5, 0.5]])
    mdg = pp.meshing.cart_grid([frac_], np.array([nx, ny]), physdims=np.array([1.0, 1.0]))
    g = mdg.subdomains(dim=2)[0]
    xm = [v / 64.0 for v in side["xmap64"]]
    x = g.nodes.copy()
    idx = np.rint(x[0] * nx).astype(int)
    x[0] = np.array(xm)[idx]
    g.nodes = x
    g.compute_geometry()
    return mdg, g


def _frac_faces(g):
    """fracture faces of a 2-D grid: (face index, x-interval, side) with side = +1 above / -1 below the fracture"""
    out = []
    fn = g.face_nodes.indices.reshape((2, -1), order="F")
    for f in np.where(g.tags["fracture_faces"])[0]:
        xs = g.nodes[0, fn[:, f]]
        c = g.cell_faces.tocsr()[f].indices[0]
        out.append((int(f), F(float(xs.min())), F(float(xs.max())), 1 if g.cell_centers[1, c] > 0.5 else -1))
    return out


def _oracle_mortar(case):
    import porepy as pp
    try:
        mdg_o, g_old = _mortar_grid(case["old"])
        _, g_new = _mortar_grid(case["new"])
        intf = mdg_o.interfaces()[0]
    except Exception as e:  # construction of the inputs is not the property
        raise
    fo, fnw = _frac_faces(g_old), _frac_faces(g_new)
    R = np.zeros((g_old.num_faces, g_new.num_faces))
    for (f, lo, hi, s) in fo:
        for (h, lo2, hi2, s2) in fnw:
            if s == s2:
                R[f, h] = float(max(F(0), min(hi, hi2) - max(lo, lo2)))
    res = {}
    for sc in ("averaged", "integrated"):
        try:
            res[sc] = pp.match_grids.match_grids_along_1d_mortar(intf, g_new, g_old, 1e-6, sc).toarray()
        except Exception as e:
            return _fail(f"match_grids_along_1d_mortar({sc}) raised {type(e).__name__}: {e}", f"mortar-raises-{type(e).__name__}")
        if res[sc].shape != R.shape:
            return _fail(f"match_grids_along_1d_mortar: shape {res[sc].shape}, expected {R.shape}", "mortar-shape")
    io = [f for f, *_ in fo]
    inw = [f for f, *_ in fnw]
    A = res["averaged"][np.ix_(io, inw)]
    I = res["integrated"][np.ix_(io, inw)]
    for sc in res:
        M = res[sc].copy()
        M[np.ix_(io, inw)] = 0
        if np.abs(M).max() > 0:
            return _fail(f"match_grids_along_1d_mortar({sc}): non-zero entry outside the fracture faces", "mortar-entry-off-fracture")
    f = _check_stochastic("mortar", A, I)
    if f:
        return f
    area_o = g_old.face_areas[io].reshape(-1, 1)
    area_n = g_new.face_areas[inw].reshape(1, -1)
    Rf = R[np.ix_(io, inw)]
    if np.abs(A * area_o - Rf).max() > 1e-9:
        return _fail("match_grids_along_1d_mortar(averaged): entry is not overlap / area of the old face (same side of the fracture)", "mortar-averaged-value")
    if np.abs(I * area_n - Rf).max() > 1e-9:
        return _fail("match_grids_along_1d_mortar(integrated): entry is not overlap / area of the new face (same side of the fracture)", "mortar-integrated-value")
    return None


# ---- match_2d as called: option handling and error branches
def _err2d_grids(case):
    import porepy as pp
    sub = {"kind": "tri2d", "Lx": case["Lx"], "Ly": case["Ly"], "grids": case["grids"], "rot": 0}
    (ga, fa), (gb, fb) = _tri_grid(sub, 0), _tri_grid(sub, 1)
    w = case["what"]
    if w in ("cart_new", "cart_old"):
        gd = case["grids"][0 if w == "cart_new" else 1]
        gc = pp.CartGrid(np.array([gd["nx"], gd["ny"]]), np.array([float(case["Lx"]), float(case["Ly"])]))
        gc.compute_geometry()
        if w == "cart_new":
            ga = gc
        else:
            gb = gc
    if w == "other_plane":
        R, sh = _ROTS[1]
        gb.nodes = R @ gb.nodes + sh.reshape(3, 1)
        gb.compute_geometry()
    return ga, gb, fa, fb


def _run_err2d(case):
    import porepy as pp
    ga, gb, _, _ = _err2d_grids(case)
    area = float(case["Lx"] * case["Ly"])
    sc = {"averaged": "averaged", "integrated": "integrated", "none": None}.get(case["mode"], case["mode"])
    try:
        M = pp.match_grids.match_2d(ga, gb, 1e-6 * area, sc).toarray().tolist()
        return {"kind": "err2d", "result": {"M": [[frac(x) for x in row] for row in M]}}
    except Exception as e:
        return {"kind": "err2d", "result": err_kind(e), "message": str(e)}


def _err2d_op(case):
    sub = {"kind": "tri2d", "Lx": case["Lx"], "Ly": case["Ly"], "grids": case["grids"], "rot": 0}
    (ga, fa), (gb, fb) = _tri_grid(sub, 0), _tri_grid(sub, 1)
    op = _tri_op(fa, fb, _tris(ga), _tris(gb), 1e-6 * float(case["Lx"] * case["Ly"]), "entry")
    w = case["what"]
    op.update(simplexNew=w != "cart_new", simplexOld=w != "cart_old", coplanar=w != "other_plane", mode=case["mode"])
    return op


def _oracle_err2d(case):
    """documented behaviour: ValueError for non-simplex grids, grids in different planes, unknown scaling; else a stochastic matrix"""
    full = _run_err2d(case)
    r = full["result"]
    want_err = case["what"] != "ok" or case["mode"] not in ("averaged", "integrated", "none")
    if want_err:
        if r != {"err": "ValueError"}:
            return _fail(f"match_2d({case['what']}, scaling={case['mode']}) should raise ValueError, got {str(r)[:80]}", f"err2d-{case['what']}-{'scaling' if case['what'] == 'ok' else 'grid'}-no-ValueError")
        # the documented reason, not an accidental ValueError of numpy further down
        reason = {"cart_new": "simplex", "cart_old": "simplex", "other_plane": "same plane", "ok": "Unknown scaling"}[case["what"]]
        if reason not in full.get("message", ""):
            return _fail(f"match_2d({case['what']}, scaling={case['mode']}) raised ValueError('{full.get('message', '')[:80]}') instead of the documented one ('{reason}')", f"err2d-{case['what']}-wrong-reason")
        return None
    if "err" in r:
        return _fail(f"match_2d raised {r['err']} on valid input", f"err2d-raises-{r['err']}")
    M = np.array([[float(F(x)) for x in row] for row in r["M"]])
    if case["mode"] == "averaged" and np.abs(M.sum(axis=1) - 1).max() > 1e-9:
        return _fail("match_2d(averaged): a row does not sum to one", "err2d-averaged-rowsum")
    if case["mode"] == "integrated" and np.abs(M.sum(axis=0) - 1).max() > 1e-9:
        return _fail("match_2d(integrated): a column does not sum to one", "err2d-integrated-colsum")
    return None


def _gen_err2d(rng, tier):
    c = _gen_tri(rng, "quick")
    for g in c["grids"]:
        if g["nx"] * g["ny"] > 9:
            g["nx"], g["ny"] = min(g["nx"], 3), min(g["ny"], 3)
            g["disp16"] = [[0, 0] for _ in range((g["nx"] + 1) * (g["ny"] + 1))]
    what = rng.choice(["cart_new", "cart_old", "other_plane", "ok", "ok", "ok"])
    mode = rng.choice(["averaged", "integrated", "none", "Averaged", "foo", ""]) if what == "ok" else rng.choice(["averaged", "integrated", "none", "foo"])
    return {"kind": "err2d", "Lx": c["Lx"], "Ly": c["Ly"], "grids": c["grids"], "what": what, "mode": mode}


_omemo = {}


def oracle(case):
    """The property itself on the real code."""
    key = json.dumps(case, sort_keys=True)
    if key in _omemo:
        return _omemo[key]
    k = case["kind"]
    r = {"1d": _oracle_1d, "tri2d": _oracle_tri, "surf": _oracle_surf, "mortar": _oracle_mortar, "err2d": _oracle_err2d}[k](case)
    if len(_omemo) > 4000:
        _omemo.clear()
    _omemo[key] = r
    return r


# ------------------------------------------------------------------------------------------------ bookkeeping
def nontrivial(case):
    if case["kind"] == "err2d":
        return True
    if case["kind"] == "1d":
        return len(case["a"]["cells"]) >= 2 and len(case["b"]["cells"]) >= 2 and sorted(case["a"]["nodes"]) != sorted(case["b"]["nodes"])
    if case["kind"] in ("tri2d",) or (case["kind"] == "surf" and case["shape"] == "tri"):
        return case["grids"][0] != case["grids"][1]
    if case["kind"] == "surf":
        return case["sets"][0] != case["sets"][1]
    return case["old"] != case["new"]


def shrink_candidates(case):
    if case["kind"] == "1d" and not case["loose"]:
        # drop an interior node of one of the node sets (cells re-derived in sorted order)
        for which in ("a", "b"):
            t = sorted(F(x) for x in case[which]["nodes"])
            for k in range(1, len(t) - 1):
                t2 = t[:k] + t[k + 1:]
                g = {"nodes": [frac(x) for x in t2], "cells": [[i, i + 1] for i in range(len(t2) - 1)]}
                yield dict(case, **{which: g})
        if case["dir"] != [1, 0, 0]:
            yield dict(case, dir=[1, 0, 0], len=1)
        if case["origin"] != ["0", "0", "0"]:
            yield dict(case, origin=["0", "0", "0"])
    elif case["kind"] in ("tri2d", "surf") and "grids" in case:
        for k in range(2):
            gd = case["grids"][k]
            for nx, ny in ((gd["nx"] - 1, gd["ny"]), (gd["nx"], gd["ny"] - 1)):
                if nx >= 1 and ny >= 1:
                    disp = [[0, 0] for _ in range((nx + 1) * (ny + 1))]
                    gs = list(case["grids"])
                    gs[k] = {"nx": nx, "ny": ny, "disp16": disp}
                    yield dict(case, grids=gs)
            if any(d != [0, 0] for d in gd["disp16"]):
                gs = list(case["grids"])
                gs[k] = dict(gd, disp16=[[0, 0] for _ in gd["disp16"]])
                yield dict(case, grids=gs)
        if case.get("rot"):
            yield dict(case, rot=0)
        if case.get("simplex"):
            yield dict(case, simplex=False)


def stats(cases, impl_outs):
    kinds = {}
    for c in cases:
        k = c["kind"] + ("-" + c["shape"] if c["kind"] == "surf" else "")
        kinds[k] = kinds.get(k, 0) + 1
    one = [c for c in cases if c["kind"] == "1d"]
    touching = sum(1 for o in impl_outs if isinstance(o, dict) and isinstance(o.get("triples"), list) and any(F(t[2]) == 0 for t in o["triples"]))
    return {
        "kinds": kinds,
        "1d_compared_with_model": len(one),
        "1d_dyadic": sum(1 for c in one if c["dyadic"]),
        "1d_loose_not_a_tessellation_pair": sum(1 for c in one if c["loose"]),
        "1d_permuted_numbering": sum(1 for c in one if c["a"]["cells"] != [[i, i + 1] for i in range(len(c["a"]["cells"]))] or c["b"]["cells"] != [[i, i + 1] for i in range(len(c["b"]["cells"]))]),
        "1d_single_cell_side": sum(1 for c in one if len(c["a"]["cells"]) == 1 or len(c["b"]["cells"]) == 1),
        "1d_shared_interior_node": sum(1 for c in one if len(set(c["a"]["nodes"]) & set(c["b"]["nodes"])) > 2),
        "1d_with_zero_weight_touching_pairs_reported": touching,
        "1d_near_coincident_nodes_around_segments3d_tolerance": sum(1 for c in one if c.get("near")),
        "1d_tol_equal_to_an_overlap": sum(1 for c in one if any(w == F(c["tol"]) and w > 0 for row in _overlaps_1d(c) for w in row)),
        "1d_negative_direction": sum(1 for c in one if _sigma(c) < 0),
        "1d_max_cells": max([max(len(c["a"]["cells"]), len(c["b"]["cells"])) for c in one] or [0]),
        "tri2d_compared_with_model": kinds.get("tri2d", 0),
        "tri2d_clockwise_or_permuted_direct_call": sum(1 for c in cases if c["kind"] == "tri2d" and "flip" in c),
        "tri2d_one_square_grids": sum(1 for c in cases if c["kind"] == "tri2d" and c["grids"][0]["nx"] * c["grids"][0]["ny"] == 1),
        "tri2d_identical_grids": sum(1 for c in cases if c["kind"] == "tri2d" and c["grids"][0] == c["grids"][1]),
        "err2d_by_branch": {w: sum(1 for c in cases if c["kind"] == "err2d" and c["what"] == w) for w in ("cart_new", "cart_old", "other_plane", "ok")},
        "err2d_unknown_scaling": sum(1 for c in cases if c["kind"] == "err2d" and c["what"] == "ok" and c["mode"] not in ("averaged", "integrated", "none")),
        "1d_extreme_scale": sum(1 for c in one if c.get("big")),
        "1d_identical_node_sets": sum(1 for c in one if sorted(c["a"]["nodes"]) == sorted(c["b"]["nodes"])),
        "1d_hypotheses_evaluated_by_driver": sum(1 for c in one if not c["loose"]),
        "1d_unknown_scaling_and_repeated_call": len(one),
        "oracle_only_surf_mortar": sum(v for k, v in kinds.items() if k not in ("1d", "tri2d")),
    }
