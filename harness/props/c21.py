"""C21 Grid connectivity queries agree with the cell-face incidence.

One case = a recipe for one grid (built by the real porepy constructors / fracture meshing / subgrid
extraction, or a raw incidence handed to `pp.Grid`) plus abstract query descriptions (face sets for
`signs_and_cells_of_boundary_faces`, dims for `divergence`).  `impl_run` runs every connectivity query
of the real grid; `model_ops` sends the raw compressed arrays of `g.cell_faces` / `g.face_nodes` (as
stored) to the Lean model, which answers the same queries; `oracle` states the property on the real
grid with dense numpy computed from `g.cell_faces.toarray()` only.
"""
import json
import random
import warnings

import numpy as np
import scipy.sparse as sps

from fractions import Fraction

from harness.common import err_kind, deep_compare, frac

PID = "C21"
THEOREMS = [
    "PorepyVerif.C21.wf_face_has_at_most_two_cells",
    "PorepyVerif.C21.boundary_iff_one_cell",
    "PorepyVerif.C21.boundary_tag_zero_dim",
    "PorepyVerif.C21.internal_iff_not_boundary",
    "PorepyVerif.C21.internal_iff_two_cells",
    "PorepyVerif.C21.domain_boundary_spec",
    "PorepyVerif.C21.dense_shape",
    "PorepyVerif.C21.dense_matches_incidence",
    "PorepyVerif.C21.connection_spec",
    "PorepyVerif.C21.connection_symmetric",
    "PorepyVerif.C21.connection_diag",
    "PorepyVerif.C21.signs_cells_boundary_spec",
    "PorepyVerif.C21.signs_cells_internal_errors",
    "PorepyVerif.C21.cell_nodes_spec",
    "PorepyVerif.C21.num_cell_nodes_spec",
    "PorepyVerif.C21.scalar_div_matches_incidence",
    "PorepyVerif.C21.vector_div_is_kron",
    "PorepyVerif.C21.divergence_nonpositive_errors",
    "PorepyVerif.C21.vector_div_acts_componentwise",
    "PorepyVerif.C21.add_tags_lookup",
    "PorepyVerif.C21.all_tags_is_union",
    "PorepyVerif.C21.all_boundary_faces_is_union",
    "PorepyVerif.C21.node_tag_spec",
    "PorepyVerif.C21.fresh_tags_spec",
    "PorepyVerif.C21.fresh_all_boundary_faces",
    "PorepyVerif.C21.fresh_boundary_node_iff",
    "PorepyVerif.C21.extract_subgrid_wf",
    "PorepyVerif.C21.extract_subgrid_entries_from_parent",
    "PorepyVerif.C21.split_face_wf",
    "PorepyVerif.C21.split_faces_become_boundary",
    "PorepyVerif.C21.extract_subgrid_no_orphan",
    "PorepyVerif.C21.trace_spec",
    "PorepyVerif.C21.trace_internal_errors",
    "PorepyVerif.C21.internal_nodes_spec",
    "PorepyVerif.C21.line1d_wf",
    "PorepyVerif.C21.line1d_no_orphan",
]
LEAN_MODULES = ["PorepyVerif.C21.Props"]
AUDIT = "PorepyVerif/C21/Audit.lean"
DRIVER = "PorepyVerif/C21/Driver.lean"
N = {"quick": 300, "thorough": 8000}
RULE = ("one grid per case, built by the real code from a recipe: CartGrid 1/2/3-d, TensorGrid with uneven spacing, StructuredTriangleGrid, "
        "StructuredTetrahedralGrid (nodes optionally perturbed), PointGrid, a subdomain (any dimension, incl. 0-d intersection points) of "
        "pp.meshing.cart_grid with 1-2 fractures in 2-d/3-d (interior, touching or lying on the domain boundary, crossing), a subdomain of "
        "pp.mdg_library.square/cube_with_orthogonal_fractures (cartesian or gmsh simplex), pp.partition.extract_subgrid of any of these "
        "(0 cells, 1 cell, random subsets, all cells), and raw incidences handed to pp.Grid (0 cells, 0 faces, faces without cell, unsorted "
        "column indices; 20% of them ill-formed: a face with three cells + - +). Queries: signs_and_cells_of_boundary_faces on 2-5 face "
        "sets whose ORDER is a stratified dimension (every case cycles through generic shuffle / rotation of the sorted list by 1..7 / sorted / "
        "reversed; sizes empty, single, 2-8, all boundary faces; with a repeated face; with an internal face -> ValueError), divergence(dim) "
        "for dims from {1,2,3,4} and sometimes 0/-1/-2 -> ValueError, each applied to a seeded dyadic flux vector; tag arithmetic on the grid's "
        "own tags (all_face_tags, all_node_tags, update_boundary_node_tag, add_node_tags_from_face_tags) and add_tags / extract / append_tags on a "
        "seeded free-standing dictionary (15% with an unknown key -> KeyError); Grid.trace() and trace(dim), get_all_boundary_nodes / get_boundary_nodes / "
        "get_internal_nodes; the 1-d constructor against the model line1d; 25% of the cases come from 18 explicit corner strata (see input_distribution.strata); "
        "every query is repeated on a quarter of the cases and the grid is checked to be unmodified by the queries; for subgrids the whole extraction (incidence, face_nodes, face and node maps). non-trivial = at least 2 cells and 3 faces; distinct = distinct recipes+queries")
TRUSTED = [
    "modelled, not verified: scipy.sparse glue (sps.find enumeration order, csc->csr conversion, matrix product / kron / transpose, row slicing, "
    "boolean comparison of sparse matrices), numpy fancy assignment (last write wins), argsort round trip in signs_and_cells_of_boundary_faces "
    "(modelled as: answer in the order the faces were given)",
    "the model reads the compressed arrays of g.cell_faces / g.face_nodes as stored; explicit zeros are never stored by porepy grids and are not generated",
    "fracture_faces / tip_faces are inputs to the model (they are written by the fracture meshing, outside the anchored code); only their relation to "
    "the one-cell faces is checked (oracle: union of the three standard tags = one-cell faces; domain boundary = one-cell faces minus fracture minus tip)",
    "tag arrays passed to np.logical_or are assumed to have equal length (the model truncates, numpy would raise); numpy negative / out-of-range "
    "indices in tags.extract are not generated; split_grid itself is not modelled: splitFace is the model of its effect on one face (theorems only, "
    "the split grids produced by the real meshing are covered by correspondence of all queries)",
    "signs_and_cells_of_boundary_faces on a query that mixes internal faces with faces that have no cell at all (possible only for raw incidences) "
    "is outside the property (the code's size test cannot detect it) and is not generated",
]
EXPLANATION = ("FULL: model = stored entries (face, cell, sign) of cell_faces in storage order + node lists of faces; every query is coded branch for branch. "
               "Theorems hold for EVERY well-formed topology (any size): tagged boundary faces = faces with exactly one adjacent cell; internal faces = "
               "two cells of opposite sign; dense array <-> incidence in both directions; connection map = 'share a face', symmetric; signs/cells of "
               "boundary faces = the unique stored entry, ValueError on internal faces; cell_nodes = nodes of the faces of the cell; vector divergence = "
               "scalar divergence expanded per component for every dim >= 1 (no well-formedness needed), entry-wise and applied to any flux vector; tag "
               "dictionary arithmetic (add_tags lookup, all_tags = union, node tags = nodes of tagged faces, constructor tags: boundary node iff on a one-cell face); "
               "well-formedness is preserved by extract_subgrid's restriction+renumbering and by splitting a face, whose two copies become one-cell faces. Correspondence compares every query's output "
               "exactly (sets canonically sorted) and the model's decision of the theorems' hypothesis WF/NoOrphan with an independent numpy computation.")
ASSUMPTIONS = ["WF is discharged by proof for the 1-d constructor (line1d_wf, all n), preserved by extract_subgrid (extract_subgrid_wf; NoOrphan holds for every "
               "subgrid unconditionally, extract_subgrid_no_orphan) and by face splitting (split_face_wf); for the 2-d/3-d structured, simplex and gmsh constructors it "
               "remains a decidable input condition evaluated by the driver on every case",
               "theorems about dense array, boundary tags and signs/cells assume the well-formedness predicate WF (signs +-1, at most one cell per side "
               "of a face, no repeated entry); the harness checks on every generated grid that the model decides WF exactly when numpy does, and every grid "
               "built by porepy constructors / meshing / extraction in the sample satisfied it"]

FACE_TAGS = ("fracture_faces", "tip_faces", "domain_boundary_faces")
NODE_TAGS = ("fracture_nodes", "tip_nodes", "domain_boundary_nodes")
NODE_OF_FACE = {"domain_boundary_faces": "domain_boundary_nodes", "fracture_faces": "fracture_nodes", "tip_faces": "tip_nodes"}
ORDERS = ("shuffle", "rotate", "sorted", "reverse")


# ----------------------------------------------------------------------------- generator (seeded rng only, no porepy)
def _gen_raw(rng, malformed):
    """random incidence: every face gets 0 (rarely), 1 or 2 distinct cells with opposite signs; node lists arbitrary.
    malformed: one face gets a third cell (signs + - + or - + -: passes the orientation check of the constructor)."""
    nc = rng.choice([0, 1, 1, 2, 3, 4, 5, 6])
    nf = rng.choice([0, 1, 2, 3, 4, 6, 8, 10]) if nc else rng.choice([0, 2])
    nn = rng.randint(1, 8)
    cols = [[] for _ in range(nc)]
    faces3 = []
    for f in range(nf):
        if nc == 0:
            continue
        r = rng.random()
        k = 0 if r < 0.08 else (1 if r < 0.5 or nc < 2 else 2)
        cells = rng.sample(range(nc), k)
        s = rng.choice([1, -1])
        for c in cells:
            cols[c].append((f, s))
            s = -s
        if k == 2 and nc >= 3:
            faces3.append((f, cells, -s))
    if malformed and faces3:
        f, cells, s0 = rng.choice(faces3)
        c3 = rng.choice([c for c in range(nc) if c not in cells])
        cols[c3].append((f, s0))
    indptr, indices, data = [0], [], []
    for c in range(nc):
        if rng.random() < 0.5:
            rng.shuffle(cols[c])
        else:
            cols[c].sort()
        indices += [f for f, _ in cols[c]]
        data += [s for _, s in cols[c]]
        indptr.append(len(indices))
    fp, fi = [0], []
    for f in range(nf):
        fi += rng.sample(range(nn), rng.randint(1, min(4, nn)))
        fp.append(len(fi))
    return {"kind": "raw", "dim": rng.choice([0, 1, 1, 2, 2, 3]), "nn": nn, "nf": nf, "nc": nc,
            "cf_indptr": indptr, "cf_indices": indices, "cf_data": data, "fn_indptr": fp, "fn_indices": fi}


def _gen_frac(rng, tier):
    big = tier == "thorough"
    if rng.random() < 0.7:  # 2-d host, 1-2 axis aligned fractures on grid lines
        nx, ny = rng.randint(2, 5 if big else 4), rng.randint(2, 5 if big else 4)
        fr = []
        for _ in range(rng.choice([1, 1, 2])):
            if rng.random() < 0.5:  # horizontal
                y = rng.randint(1, ny - 1) if rng.random() < 0.85 else rng.choice([0, ny])
                a = rng.randint(0, nx - 1)
                b = rng.randint(a + 1, nx)
                fr.append([[a, b], [y, y]])
            else:
                x = rng.randint(1, nx - 1) if rng.random() < 0.85 else rng.choice([0, nx])
                a = rng.randint(0, ny - 1)
                b = rng.randint(a + 1, ny)
                fr.append([[x, x], [a, b]])
        if len(fr) == 2 and _overlap2(fr[0], fr[1]):
            fr = fr[:1]
        return {"kind": "frac_cart", "n": [nx, ny], "fracs": fr, "sd": rng.randint(0, 5)}
    n = [rng.randint(2, 3), rng.randint(2, 3), rng.randint(2, 3)]
    fr = []
    axes = rng.sample([0, 1, 2], rng.choice([1, 1, 2]))
    for ax in axes:
        o = [a for a in (0, 1, 2) if a != ax]
        v = rng.randint(1, n[ax] - 1)
        a0 = rng.randint(0, n[o[0]] - 1); a1 = rng.randint(a0 + 1, n[o[0]])
        b0 = rng.randint(0, n[o[1]] - 1); b1 = rng.randint(b0 + 1, n[o[1]])
        p = [[0] * 4 for _ in range(3)]
        p[ax] = [v] * 4
        p[o[0]] = [a0, a1, a1, a0]
        p[o[1]] = [b0, b0, b1, b1]
        fr.append(p)
    return {"kind": "frac_cart", "n": n, "fracs": fr, "sd": rng.randint(0, 5)}


def _overlap2(f, g):
    """two axis-aligned segments lying on the same line and sharing more than a point (not meshable)"""
    (ax, bx), (ay, by) = f
    (cx, dx), (cy, dy) = g
    hf, hg = ay == by, cy == dy
    if hf != hg:
        return False
    if hf:
        return ay == cy and max(ax, cx) <= min(bx, dx)
    return ax == cx and max(ay, cy) <= min(by, dy)


def _gen_base(rng, tier):
    big = tier == "thorough"
    r = rng.random()
    if r < 0.20:
        d = rng.choice([1, 2, 2, 3])
        hi = {1: 12, 2: 6 if big else 5, 3: 3}[d]
        return {"kind": "cart", "n": [rng.randint(1, hi) for _ in range(d)], "perturb": rng.choice([None, rng.randint(0, 999)])}
    if r < 0.28:
        d = rng.choice([1, 2, 3])
        hi = {1: 8, 2: 4, 3: 3}[d]
        coords = []
        for _ in range(d):
            k = rng.randint(1, hi)
            xs = [0.0]
            for _ in range(k):
                xs.append(xs[-1] + rng.choice([0.25, 0.5, 1.0, 1.5]))
            coords.append(xs)
        return {"kind": "tensor", "coords": coords}
    if r < 0.40:
        return {"kind": "tri", "n": [rng.randint(1, 4), rng.randint(1, 4)], "perturb": rng.choice([None, rng.randint(0, 999)])}
    if r < 0.50:
        return {"kind": "tet", "n": [rng.randint(1, 2), rng.randint(1, 2), rng.randint(1, 2)], "perturb": rng.choice([None, rng.randint(0, 999)])}
    if r < 0.52:
        return {"kind": "point"}
    if r < 0.78:
        return _gen_frac(rng, tier)
    if r < 0.84:
        cube = rng.random() < 0.35
        simplex = rng.random() < (0.5 if big else 0.3)
        return {"kind": "lib", "name": "cube" if cube else "square", "grid_type": "simplex" if simplex else "cartesian",
                "cell_size": 0.5, "fracture_indices": sorted(rng.sample([0, 1, 2] if cube else [0, 1], rng.choice([1, 1, 2]))),
                "sd": rng.randint(0, 6)}
    return _gen_raw(rng, malformed=rng.random() < 0.2)


CORNERS = ("one-cell-1d", "one-cell-2d", "one-cell-3d", "one-triangle-pair", "one-cube-tets", "empty-subgrid", "single-cell-subgrid",
           "full-subgrid", "raw-no-cells", "raw-no-faces", "raw-unsorted", "raw-ill-formed", "long-1d", "large-2d", "extreme-scale-tensor",
           "fracture-on-boundary", "crossing-fractures", "subgrid-of-subgrid")


def _gen_corner(rng, name):
    """explicit corner-case strata (size 0/1, unsorted, ill-formed, extreme scale, degenerate fracture positions, repeated extraction)"""
    sub = lambda b, frac, one=False: {"kind": "sub", "base": b, "frac": frac, "seed": rng.randint(0, 10 ** 6), "one": one}
    if name == "one-cell-1d":
        return {"kind": "cart", "n": [1], "perturb": None}
    if name == "one-cell-2d":
        return {"kind": "cart", "n": [1, 1], "perturb": None}
    if name == "one-cell-3d":
        return {"kind": "cart", "n": [1, 1, 1], "perturb": None}
    if name == "one-triangle-pair":
        return {"kind": "tri", "n": [1, 1], "perturb": None}
    if name == "one-cube-tets":
        return {"kind": "tet", "n": [1, 1, 1], "perturb": None}
    if name == "empty-subgrid":
        return sub(_gen_base_plain(rng), 0.0)
    if name == "single-cell-subgrid":
        return sub(_gen_base_plain(rng), 0.5, True)
    if name == "full-subgrid":
        return sub(_gen_base_plain(rng), 1.0)
    if name == "subgrid-of-subgrid":
        return sub(sub(_gen_base_plain(rng), 0.8), 0.6)
    if name in ("raw-no-cells", "raw-no-faces", "raw-unsorted", "raw-ill-formed"):
        for _ in range(200):
            r = _gen_raw(rng, malformed=name == "raw-ill-formed")
            cols = [r["cf_indices"][r["cf_indptr"][c]:r["cf_indptr"][c + 1]] for c in range(r["nc"])]
            ok = {"raw-no-cells": r["nc"] == 0, "raw-no-faces": r["nf"] == 0, "raw-unsorted": any(c != sorted(c) for c in cols),
                  "raw-ill-formed": any(r["cf_indices"].count(f) >= 3 for f in range(r["nf"]))}[name]
            if ok:
                return r
        return r
    if name == "long-1d":
        return {"kind": "cart", "n": [rng.randint(30, 60)], "perturb": None}
    if name == "large-2d":
        return {"kind": "cart", "n": [rng.randint(7, 9), rng.randint(7, 9)], "perturb": None}
    if name == "extreme-scale-tensor":
        xs = [0.0]
        for _ in range(rng.randint(1, 5)):
            xs.append(xs[-1] + rng.choice([1e-9, 1e-3, 1.0, 1e6, 1e12]))
        return {"kind": "tensor", "coords": [xs] if rng.random() < 0.5 else [xs, [0.0, 1e-9, 1e9]]}
    if name == "fracture-on-boundary":
        n = [rng.randint(2, 4), rng.randint(2, 4)]
        return {"kind": "frac_cart", "n": n, "fracs": [[[0, 0], [0, rng.randint(1, n[1])]]], "sd": 0}
    if name == "crossing-fractures":
        return {"kind": "frac_cart", "n": [2, 2], "fracs": [[[0, 2], [1, 1]], [[1, 1], [0, 2]]], "sd": rng.randint(0, 3)}
    raise ValueError(name)


def _gen_base_plain(rng):
    return rng.choice([{"kind": "cart", "n": [rng.randint(1, 4), rng.randint(1, 3)], "perturb": None},
                       {"kind": "tri", "n": [rng.randint(1, 3), rng.randint(1, 2)], "perturb": None},
                       {"kind": "cart", "n": [rng.randint(1, 6)], "perturb": None},
                       {"kind": "frac_cart", "n": [3, 3], "fracs": [[[1, 2], [1, 1]]], "sd": 0}])


def gen_case(rng, tier):
    stratum = None
    if rng.random() < 0.12:
        stratum = "inplace-history"
        base = _gen_hist(rng, tier)
    elif rng.random() < 0.25:
        stratum = CORNERS[rng.randrange(len(CORNERS))]
        base = _gen_corner(rng, stratum)
    else:
        base = _gen_base(rng, tier)
    if stratum is None and base["kind"] not in ("raw", "point", "hist") and rng.random() < 0.3:
        base = {"kind": "sub", "base": base, "frac": rng.choice([0.0, 0.15, 0.3, 0.5, 0.5, 0.8, 1.0]), "seed": rng.randint(0, 10 ** 6),
                "one": rng.random() < 0.15}
    qs = []
    nq = rng.randint(2, 5)
    start = rng.randrange(len(ORDERS))
    for i in range(nq):
        # the order of the face list is a stratified dimension: every case cycles through generic shuffles, rotations of
        # the sorted list (sorting permutation = a cycle, not an involution for >= 3 faces), sorted and reversed lists
        order = ORDERS[(start + i) % len(ORDERS)]
        size = rng.choice([3, 4, 5, 8, 1000]) if order in ("rotate", "shuffle") and rng.random() < 0.8 else rng.choice([0, 1, 2, 3, 5, 8, 1000])
        qs.append({"seed": rng.randint(0, 10 ** 6), "size": size, "dup": rng.random() < 0.25,
                   "internal": rng.random() < 0.2, "order": order, "shift": rng.randint(1, 7)})
    dims = rng.sample([1, 2, 3, 4], rng.randint(1, 3)) + ([rng.choice([0, -1, -2])] if rng.random() < 0.3 else [])
    return {"grid": base, "sc": qs, "div": dims, "flux": rng.randint(0, 10 ** 6), "stratum": stratum or "random",
            "tagops": {"seed": rng.randint(0, 10 ** 6), "missing": rng.random() < 0.15}}


# ----------------------------------------------------------------------------- building the real grid from a recipe
_CACHE = {}
_SUB = {}  # recipe of a subgrid -> (parent grid, cells asked for, unique_faces, unique_nodes)


def _perturb(g, seed):
    if seed is None:
        return
    rs = np.random.RandomState(seed)
    g.nodes = g.nodes.copy()
    g.nodes[: g.dim] += 0.2 * (rs.rand(g.dim, g.num_nodes) - 0.5) / 4


def _build(rec):
    import porepy as pp
    k = rec["kind"]
    if k == "cart":
        g = pp.CartGrid(np.array(rec["n"]))
        _perturb(g, rec.get("perturb"))
        return g
    if k == "tensor":
        return pp.TensorGrid(*[np.array(c) for c in rec["coords"]])
    if k == "tri":
        g = pp.StructuredTriangleGrid(np.array(rec["n"]))
        _perturb(g, rec.get("perturb"))
        return g
    if k == "tet":
        g = pp.StructuredTetrahedralGrid(np.array(rec["n"]))
        _perturb(g, rec.get("perturb"))
        return g
    if k == "point":
        return pp.PointGrid(np.zeros((3, 1)))
    if k == "frac_cart":
        mdg = pp.meshing.cart_grid([np.array(f, dtype=float) for f in rec["fracs"]], np.array(rec["n"]))
        sds = mdg.subdomains()
        return sds[rec["sd"] % len(sds)]
    if k == "lib":
        fn = pp.mdg_library.cube_with_orthogonal_fractures if rec["name"] == "cube" else pp.mdg_library.square_with_orthogonal_fractures
        mdg, _ = fn(rec["grid_type"], {"cell_size": rec["cell_size"]}, fracture_indices=rec["fracture_indices"])
        sds = mdg.subdomains()
        return sds[rec["sd"] % len(sds)]
    if k == "sub":
        base = _build(rec["base"])
        r = random.Random(rec["seed"])
        n = base.num_cells
        m = 1 if rec["one"] else int(round(rec["frac"] * n))
        m = max(0, min(n, m))
        cells = r.sample(range(n), m)  # unsorted on purpose: extract_subgrid sorts
        h, uf, un = pp.partition.extract_subgrid(base, np.array(cells, dtype=int))
        _SUB[json.dumps(rec, sort_keys=True)] = (base, cells, _ints(uf), _ints(un))
        return h
    if k == "raw":
        cf = sps.csc_matrix((np.array(rec["cf_data"], dtype=int), np.array(rec["cf_indices"], dtype=int),
                             np.array(rec["cf_indptr"], dtype=int)), shape=(rec["nf"], rec["nc"]))
        fn = sps.csc_matrix((np.ones(len(rec["fn_indices"]), dtype=bool), np.array(rec["fn_indices"], dtype=int),
                             np.array(rec["fn_indptr"], dtype=int)), shape=(rec["nn"], rec["nf"]))
        return pp.Grid(rec["dim"], np.zeros((3, rec["nn"])), fn, cf, "raw")
    raise ValueError(k)


def _grid(case):
    if case["grid"]["kind"] == "hist":
        return _hist(case)["g"]  # the object after the last in-place mutation
    key = json.dumps(case["grid"], sort_keys=True)
    if key not in _CACHE:
        if len(_CACHE) > 4000:
            _CACHE.clear()
            _SUB.clear()
        with warnings.catch_warnings():
            warnings.simplefilter("ignore")
            _CACHE[key] = _build(case["grid"])
    return _CACHE[key]


def _is_fresh(rec):
    """tags come straight from the Grid constructor (no fracture meshing in between)"""
    if rec["kind"] == "live":
        return bool(rec["fresh"])
    return rec["kind"] in ("cart", "tensor", "tri", "tet", "point", "raw", "sub")


def _fracture_on_domain_boundary(rec):
    if rec["kind"] == "sub":
        return False
    if rec["kind"] != "frac_cart":
        return False
    for fr in rec["fracs"]:
        for ax, row in enumerate(fr):
            if len(set(row)) == 1 and row[0] in (0, rec["n"][ax]):
                return True
    return False


def _tags_overlap(g):
    t = [np.asarray(g.tags[k]).astype(bool) for k in FACE_TAGS]
    return bool(np.any(t[0] & t[1]) or np.any(t[0] & t[2]) or np.any(t[1] & t[2]))


def _dense_cf(g):
    return np.asarray(g.cell_faces.toarray()).reshape(g.num_faces, g.num_cells)


def _queries(g, case):
    """resolve the abstract face-set descriptions against the incidence (dense numpy, no grid method)"""
    A = _dense_cf(g)
    cnt = (A != 0).sum(axis=1) if A.size else np.zeros(g.num_faces, dtype=int)
    B = [int(f) for f in np.where(cnt == 1)[0]]
    I = [int(f) for f in np.where(cnt >= 2)[0]]
    out = []
    for q in case["sc"]:
        r = random.Random(q["seed"])
        faces = r.sample(B, min(q["size"], len(B)))
        order = q.get("order", "shuffle")
        if order != "shuffle":
            faces.sort()
        if order == "reverse":
            faces.reverse()
        if order == "rotate" and len(faces) > 1:
            k = 1 + (q.get("shift", 1) - 1) % (len(faces) - 1)
            faces = faces[k:] + faces[:k]
        if q["dup"] and faces:
            faces.insert(r.randrange(len(faces) + 1), r.choice(faces))
        if q["internal"] and I:
            faces.insert(r.randrange(len(faces) + 1), r.choice(I))
        out.append(faces)
    return out


# ----------------------------------------------------------------------------- real code
def _ints(a):
    return [int(x) for x in np.asarray(a).ravel()]


def _true_entries(m):
    """sorted (row, col) of the stored entries of a sparse boolean matrix that are True"""
    c = sps.coo_matrix(m)
    return sorted({(int(i), int(j)) for i, j, v in zip(c.row, c.col, c.data) if bool(v)})


def _triplets(m):
    c = sps.coo_matrix(m)
    c.sum_duplicates()
    return sorted([int(i), int(j), int(v)] for i, j, v in zip(c.row, c.col, c.data) if v != 0)


def _wf_numpy(g):
    """well-formedness and no-orphan decided on the raw compressed arrays (independent of the Lean model)"""
    cf = g.cell_faces if g.cell_faces.format == "csc" else g.cell_faces.tocsc()
    per_face = {}
    ok = int(g.face_nodes.shape[1]) == int(g.num_faces)
    for c in range(cf.shape[1]):
        for k in range(cf.indptr[c], cf.indptr[c + 1]):
            f, s = int(cf.indices[k]), int(cf.data[k])
            if s not in (1, -1) or not (0 <= f < g.num_faces):
                ok = False
            per_face.setdefault(f, []).append((c, s))
    for f, lst in per_face.items():
        cells = [c for c, _ in lst]
        signs = [s for _, s in lst]
        if len(set(cells)) < len(cells) or len(set(signs)) < len(signs):
            ok = False
    return ok, all(f in per_face for f in range(g.num_faces))


# ----------------------------------------------------------------------------- histories: ONE grid object, queried, mutated in place, queried again
_HIST = {}


def _plane_faces(g, st):
    """faces of a Cartesian grid on the plane x_axis = k whose centre lies strictly inside (lo, hi) along axis `o`"""
    fc = g.face_centers
    return np.where(np.isclose(fc[st["axis"]], st["k"]) & (fc[st["o"]] > st["lo"]) & (fc[st["o"]] < st["hi"]))[0]


def _mutate(g, st):
    """in-place topology change of the SAME object, by the real splitting routines or by plain reassignment (as fracture propagation does)"""
    from porepy.fracs import split_grid
    if st["op"] in ("split_faces", "split_specific"):
        faces = _plane_faces(g, st)
        if st["op"] == "split_specific":  # split_specific_faces expects one new lower-dimensional cell per face it really splits
            tagged = np.asarray(g.tags["fracture_faces"]) | np.asarray(g.tags["tip_faces"]) | np.asarray(g.tags["domain_boundary_faces"])
            faces = faces[~tagged[faces]]
        if faces.size == 0:
            return
        if st["op"] == "split_faces":
            fcells = sps.csc_matrix((np.ones(faces.size), (np.arange(faces.size), faces)), shape=(faces.size, g.num_faces))
            split_grid.split_faces(g, [fcells])
        else:
            if np.asarray(g.frac_pairs).shape[0] != 2:  # a grid that never went through split_faces has frac_pairs of shape (1, 0)
                g.frac_pairs = np.zeros((2, 0), dtype=int)
            split_grid.split_specific_faces(g, [sps.csc_matrix((faces.size, g.num_faces))], faces, np.arange(faces.size), 0)
        g.cell_faces.eliminate_zeros()  # as split_fractures / propagate_fracture do after splitting
        return
    # plain reassignment: move the negative-side entry of one untagged internal face to a new face
    cf = g.cell_faces.tocoo()
    nf, nc = g.num_faces, g.num_cells
    cnt = np.bincount(cf.row, minlength=nf)
    tagged = np.asarray(g.tags["fracture_faces"]) | np.asarray(g.tags["tip_faces"]) | np.asarray(g.tags["domain_boundary_faces"])
    cand = [int(f) for f in np.where((cnt == 2) & ~tagged)[0]]
    if not cand:
        return
    f = random.Random(st["seed"]).choice(cand)
    rows = cf.row.copy()
    rows[(cf.row == f) & (cf.data < 0)] = nf
    fn = g.face_nodes.tocsc()
    g.cell_faces = sps.csc_matrix((cf.data.copy(), (rows, cf.col.copy())), shape=(nf + 1, nc))
    g.face_nodes = sps.hstack([fn, fn[:, [f]]]).tocsc()
    g.num_faces = nf + 1
    for name in ("face_centers", "face_normals"):
        if hasattr(g, name):
            setattr(g, name, np.hstack((getattr(g, name), getattr(g, name)[:, [f]])))
    if hasattr(g, "face_areas"):
        g.face_areas = np.append(g.face_areas, g.face_areas[f])
    for k in FACE_TAGS:
        g.tags[k] = np.append(g.tags[k], False)
    g.tags["fracture_faces"][[f, nf]] = True
    g.update_boundary_node_tag()


def _hist(case):
    key = json.dumps(case, sort_keys=True)
    if key in _HIST:
        return _HIST[key]
    if len(_HIST) > 500:
        _HIST.clear()
    rec = case["grid"]
    with warnings.catch_warnings():
        warnings.simplefilter("ignore")
        g = _build(rec["base"])
        g.compute_geometry()
        stages = []
        for i in range(len(rec["steps"]) + 1):
            if i:
                _mutate(g, rec["steps"][i - 1])
            live = {"kind": "live", "stage": i, "fresh": i == 0, "after": rec["steps"][i - 1]["op"] if i else "construction", "of": hash(key)}
            sc = dict(case, grid=live)
            lk = json.dumps(live, sort_keys=True)
            _CACHE[lk] = g  # the SAME object at every stage; answers are taken now, before the next mutation
            try:
                impl = impl_run(sc)
            except Exception as e:
                import traceback
                impl = {"harness_exc": f"{type(e).__name__}: {e}", "tb": traceback.format_exc()[-1500:]}
            orc = oracle(sc)
            try:
                ops = model_ops(sc)
            except Exception:
                ops = None
            stages.append({"case": sc, "impl": impl, "oracle": orc, "ops": ops, "info": _info(g)})
            del _CACHE[lk]
    _HIST[key] = {"g": g, "stages": stages}
    return _HIST[key]


def _gen_hist(rng, tier):
    d = rng.choice([2, 2, 2, 3])
    n = [rng.randint(2, 4) for _ in range(2)] if d == 2 else [rng.randint(2, 3) for _ in range(3)]
    steps = []
    used = []
    for _ in range(2):  # two successive in-place mutations
        op = rng.choice(["split_faces", "split_faces", "split_specific", "reassign"])
        if op == "reassign":
            steps.append({"op": op, "seed": rng.randint(0, 10 ** 6)})
            continue
        for _ in range(20):
            ax = rng.randrange(d)
            k = rng.randint(1, n[ax] - 1)
            if (ax, k) not in used:
                break
        used.append((ax, k))
        o = rng.choice([a for a in range(d) if a != ax])
        lo = rng.randint(0, n[o] - 1)
        hi = rng.randint(lo + 1, n[o])
        if rng.random() < 0.3:
            lo, hi = 0, n[o]
        steps.append({"op": op, "axis": ax, "k": k, "o": o, "lo": lo, "hi": hi})
    return {"kind": "hist", "base": {"kind": "cart", "n": n, "perturb": None}, "steps": steps}


def _topo_fields(g):
    cf = g.cell_faces if g.cell_faces.format == "csc" else g.cell_faces.tocsc()
    fn = g.face_nodes if g.face_nodes.format == "csc" else g.face_nodes.tocsc()
    return {"dim": int(g.dim), "nf": int(g.num_faces), "nc": int(g.num_cells), "nn": int(g.num_nodes),
            "cf_indptr": _ints(cf.indptr), "cf_indices": _ints(cf.indices), "cf_data": _ints(cf.data),
            "fn_indptr": _ints(fn.indptr), "fn_indices": _ints(fn.indices)}


def _flux(case, g):
    """one flux vector per entry of case['div'] (small dyadic rationals: exact in binary64), as Fractions"""
    r = random.Random(case.get("flux", 0))
    out = []
    for dim in case["div"]:
        n = g.num_faces * dim if dim >= 1 else 0
        out.append([Fraction(r.randint(-16, 16), r.choice([1, 1, 2, 4])) for _ in range(n)])
    return out


def _bools(a):
    return [bool(x) for x in np.asarray(a).ravel()]


def _tagops(case, g):
    """a free-standing tag dictionary and arguments for add_tags / extract / append_tags (seeded)"""
    t = case.get("tagops", {"seed": 0, "missing": False})
    r = random.Random(t["seed"])
    n = r.choice([0, 1, 2, 3, 5, 8])
    pool = ["fracture_faces", "tip_faces", "domain_boundary_faces", "user_faces", "well_cells"]
    keys = r.sample(pool, r.randint(1, 4))
    d = [{"k": k, "v": [r.random() < 0.4 for _ in range(n)]} for k in keys]
    newkeys = r.sample(pool, r.randint(0, 3))
    new = [{"k": k, "v": [r.random() < 0.5 for _ in range(r.choice([n, n, n + 1, 0]))]} for k in newkeys]
    idx = [r.randrange(n) for _ in range(r.randint(0, 6))] if n else []
    ekeys = r.sample(keys, r.randint(0, len(keys)))
    akeys = r.sample(keys, r.randint(0, len(keys)))
    if t["missing"]:
        (ekeys if r.random() < 0.5 else akeys).append("no_such_tag")
    app = [{"k": k, "v": [r.random() < 0.5 for _ in range(r.randint(0, 3))]} for k in akeys]
    return {"dict": d, "new": new, "idx": idx, "keys": ekeys, "app": app}


def _as_np(kvs):
    return {kv["k"]: np.array(kv["v"], dtype=bool) for kv in kvs}


def _kv(d, keys=None):
    return {k: _bools(v) for k, v in d.items() if keys is None or k in keys}


class _Parent:
    pass


class _FakeMdg:
    def __init__(self, g):
        self._g = g

    def subdomains(self):
        return [self._g]


def _with_node_tags_restored(g, f):
    saved = {k: g.tags[k] for k in NODE_TAGS}
    try:
        return f()
    finally:
        for k, v in saved.items():
            g.tags[k] = v


def _trace_dims(case):
    """first entry is the default call g.trace(); then the valid divergence dims of the case (at most 2)"""
    return [1] + [d for d in case["div"] if d >= 1][:2]


def _line_n(case, g):
    rec = case["grid"]
    if rec["kind"] == "cart" and len(rec["n"]) == 1 and rec.get("perturb") is None:
        return int(rec["n"][0])
    if rec["kind"] == "tensor" and len(rec["coords"]) == 1:
        return len(rec["coords"][0]) - 1
    return None


def _impl_tags(case, g):
    from porepy.utils import tags as T
    out = {}
    out["all_face"] = _ints(np.where(T.all_face_tags(g.tags))[0])
    out["all_node"] = _ints(np.where(T.all_node_tags(g.tags))[0])
    out["std"] = [list(T.standard_face_tags()), list(T.standard_node_tags())]

    def upd():
        g.update_boundary_node_tag()
        return _kv(g.tags, NODE_TAGS)
    out["node_upd"] = _with_node_tags_restored(g, upd)

    def frm():
        T.add_node_tags_from_face_tags(_FakeMdg(g), "domain_boundary")
        return _bools(g.tags["domain_boundary_nodes"])
    out["dom_nodes"] = _with_node_tags_restored(g, frm)
    out["fresh"] = _kv(g.tags, FACE_TAGS + NODE_TAGS) if _is_fresh(case["grid"]) else None
    out["all_bnd_nodes"] = _ints(g.get_all_boundary_nodes())
    out["bnd_nodes"] = _ints(g.get_boundary_nodes())
    out["bnd_faces"] = _ints(g.get_boundary_faces())
    out["internal_nodes"] = _ints(g.get_internal_nodes())
    tr = []
    for k, dim in enumerate(_trace_dims(case)):
        try:
            m = g.trace(dim) if k else g.trace()
            tr.append({"shape": [int(m.shape[0]), int(m.shape[1])], "trip": _triplets(m)})
        except Exception as e:
            tr.append(err_kind(e))
    out["trace"] = tr
    n1 = _line_n(case, g)
    if n1 is None:
        out["line"] = None
    else:
        cf = g.cell_faces
        out["line"] = {"nf": int(g.num_faces), "nc": int(g.num_cells), "nn": int(g.num_nodes),
                       "cf": [[int(cf.indices[k]), c, int(cf.data[k])] for c in range(cf.shape[1]) for k in range(cf.indptr[c], cf.indptr[c + 1])],
                       "fn": _fn_lists(g.face_nodes), "same": True}
    ops = _tagops(case, g)
    par = _Parent()
    par.tags = _as_np(ops["dict"])
    T.add_tags(par, _as_np(ops["new"]))
    out["add"] = _kv(par.tags)
    try:
        out["extract"] = _kv(T.extract(_as_np(ops["dict"]), np.array(ops["idx"], dtype=int), list(ops["keys"])))
    except Exception as e:
        out["extract"] = err_kind(e)
    try:
        d = _as_np(ops["dict"])
        T.append_tags(d, [kv["k"] for kv in ops["app"]], [np.array(kv["v"], dtype=bool) for kv in ops["app"]])
        out["append"] = _kv(d)
    except Exception as e:
        out["append"] = err_kind(e)
    return out


def _entries(m):
    m = m if m.format == "csc" else m.tocsc()
    return sorted([int(m.indices[k]), c, int(m.data[k])] for c in range(m.shape[1]) for k in range(m.indptr[c], m.indptr[c + 1]))


def _fn_lists(m):
    m = m if m.format == "csc" else m.tocsc()
    return [_ints(m.indices[m.indptr[f]:m.indptr[f + 1]]) for f in range(m.shape[1])]


def _impl_extract(case, g):
    key = json.dumps(case["grid"], sort_keys=True)
    if key not in _SUB:
        return None
    base, cells, uf, un = _SUB[key]
    return {"nf": int(g.num_faces), "nc": int(g.num_cells), "nn": int(g.num_nodes), "cf": _entries(g.cell_faces),
            "fn": _fn_lists(g.face_nodes), "faces": uf, "nodes": un, "parent_cell_ind": _ints(g.parent_cell_ind)}


def impl_run(case):
    if case["grid"]["kind"] == "hist":
        return {"stages": [st["impl"] for st in _hist(case)["stages"]]}
    g = _grid(case)
    out = {}
    out["wf"], out["noorphan"] = _wf_numpy(g)
    with warnings.catch_warnings():
        warnings.simplefilter("ignore")
        d = g.cell_faces_as_dense()
        out["dense"] = [_ints(d[0]), _ints(d[1])]
        out["dense_shape"] = [int(s) for s in d.shape]
        c2c = g.cell_connection_map()
        out["conn"] = [list(p) for p in _true_entries(c2c)]
        out["conn_shape"] = [int(s) for s in c2c.shape]
        out["allbnd"] = _ints(g.get_all_boundary_faces())
        # a fracture on the domain boundary is tagged fracture AND domain boundary: the "minus" rule does not apply
        out["dom"] = "overlapping-tags" if _tags_overlap(g) else _ints(g.get_boundary_faces())
        out["internal"] = _ints(g.get_internal_faces())
        saved = g.tags["domain_boundary_faces"]
        try:
            g.update_boundary_face_tag()
            out["bnd"] = _ints(np.where(g.tags["domain_boundary_faces"])[0])
            out["bnd_size"] = int(g.tags["domain_boundary_faces"].size)
        finally:
            g.tags["domain_boundary_faces"] = saved
        sc = []
        for faces in _queries(g, case):
            try:
                sgn, ci = g.signs_and_cells_of_boundary_faces(np.array(faces, dtype=int))
                sc.append({"sgn": _ints(sgn), "ci": _ints(ci)})
            except Exception as e:
                sc.append(err_kind(e))
        out["sc"] = sc
        cn = g.cell_nodes()
        cols = [[] for _ in range(g.num_cells)]
        for n, c in _true_entries(cn):
            cols[c].append(n)
        out["cn"] = [sorted(c) for c in cols]
        out["cn_shape"] = [int(cn.shape[0]), int(cn.shape[1])]
        out["ncn"] = _ints(g.num_cell_nodes())
        dv = []
        for dim in case["div"]:
            try:
                m = g.divergence(dim)
                dv.append({"shape": [int(m.shape[0]), int(m.shape[1])], "trip": _triplets(m)})
            except Exception as e:
                dv.append(err_kind(e))
        out["div"] = dv
        du = []
        for dim, u in zip(case["div"], _flux(case, g)):
            try:
                m = g.divergence(dim)
                du.append([frac(x) for x in np.asarray(m @ np.array([float(x) for x in u], dtype=float)).ravel()])
            except Exception as e:
                du.append(err_kind(e))
        out["divu"] = du
        out["tags"] = _impl_tags(case, g)
        out["extract"] = _impl_extract(case, g)
    return out


# ----------------------------------------------------------------------------- model side
def model_ops(case):
    if case["grid"]["kind"] == "hist":
        return [op for st in _hist(case)["stages"] for op in (st["ops"] or [])]
    g = _grid(case)
    topo = _topo_fields(g)
    ops = [dict(topo, op="grid",
                frac=_ints(np.where(g.tags["fracture_faces"])[0]), tip=_ints(np.where(g.tags["tip_faces"])[0]),
                sc=_queries(g, case), div=[int(d) for d in case["div"]],
                flux=[[frac(x) for x in u] for u in _flux(case, g)])]
    tg = [{"k": k, "v": _bools(g.tags[k])} for k in FACE_TAGS + NODE_TAGS]
    ops.append(dict(topo, op="tags", tags=tg, fresh=_is_fresh(case["grid"]), trace_dims=_trace_dims(case), line=_line_n(case, g),
                    **_tagops(case, g)))
    key = json.dumps(case["grid"], sort_keys=True)
    if key in _SUB:
        base, cells, _, _ = _SUB[key]
        ops.append(dict(_topo_fields(base), op="extract", cells=[int(c) for c in cells]))
    return ops


def _tags_dict(j):
    if isinstance(j, dict):  # error object
        return j
    return None if j is None else {kv["k"]: kv["v"] for kv in j}


def _info(g):
    return {"nf": int(g.num_faces), "nc": int(g.num_cells), "fnrows": int(g.face_nodes.shape[0]), "overlap": _tags_overlap(g)}


def model_decode(outs, case):
    if case["grid"]["kind"] == "hist":
        h = _hist(case)
        res, k = [], 0
        for st in h["stages"]:
            n = len(st["ops"]) if st["ops"] is not None else 0
            res.append(_decode_one(outs[k:k + n], st["case"], st["info"]) if n else {"err": "model_ops failed at stage time"})
            k += n
        return {"stages": res}
    return _decode_one(outs, case, _info(_grid(case)))


def _decode_one(outs, case, info):
    m = outs[0]
    if "err" in m:
        return m
    nf, nc = info["nf"], info["nc"]
    out = dict(m)
    out["dense_shape"] = [2, nf]
    out["conn"] = [list(p) for p in sorted({tuple(p) for p in m["conn"]})]
    out["conn_shape"] = [nc, nc]
    out["allbnd"] = m["bnd"]
    if info["overlap"]:
        out["dom"] = "overlapping-tags"
    out["bnd_size"] = nf
    out["cn"] = [sorted(set(c)) for c in m["cn"]]
    out["cn_shape"] = [info["fnrows"], nc]
    dv = []
    for dim, d in zip(case["div"], m["div"]):
        if isinstance(d, dict):
            dv.append(d)
        else:
            dv.append({"shape": [nc * dim, nf * dim], "trip": sorted(d)})
    out["div"] = dv
    if len(outs) > 1:
        t = dict(outs[1])
        if "err" in t:
            return t
        for k in ("node_upd", "fresh", "add", "extract", "append"):
            t[k] = _tags_dict(t[k])
        t["std"] = [list(FACE_TAGS), list(NODE_TAGS)]
        t["trace"] = [d if isinstance(d, dict) else {"shape": [nf * dim, nc * dim], "trip": sorted(d)} for dim, d in zip(_trace_dims(case), t["trace"])]
        out["tags"] = t
    out["extract"] = None
    if len(outs) > 2:
        e = dict(outs[2])
        if "err" in e:
            return e
        e["cf"] = sorted(e["cf"], key=lambda x: (x[1], x[0]))
        e["cf"] = sorted(e["cf"])
        e["parent_cell_ind"] = sorted(_SUB[json.dumps(case["grid"], sort_keys=True)][1])
        e.pop("wf")
        out["extract"] = e
    return out


def compare(impl, model, case):
    if "harness_exc" in impl:
        return "impl raised: " + impl["harness_exc"]
    for i, st in enumerate(impl.get("stages", [])):
        if "harness_exc" in st:
            return f"impl raised at stage {i}: " + st["harness_exc"]
    return deep_compare(impl, model)


# ----------------------------------------------------------------------------- oracle: the property on the real grid
def _wellformed(A):
    if not np.all(np.isin(A, (-1, 0, 1))):
        return False
    cnt = (A != 0).sum(axis=1)
    if np.any(cnt > 2):
        return False
    return bool(np.all(A[cnt == 2].sum(axis=1) == 0))


def _oracle_tags(case, g, A, FN, kind):
    from porepy.utils import tags as T
    nf = g.num_faces
    t = {k: np.asarray(g.tags[k]).astype(bool) for k in FACE_TAGS + NODE_TAGS}
    try:
        if list(T.standard_face_tags()) != list(FACE_TAGS) or list(T.standard_node_tags()) != list(NODE_TAGS):
            return {"what": "standard_face_tags / standard_node_tags changed", "key": "standard-tag-keys"}
        af, an = np.asarray(T.all_face_tags(g.tags)).astype(bool), np.asarray(T.all_node_tags(g.tags)).astype(bool)
        if not np.array_equal(af, t[FACE_TAGS[0]] | t[FACE_TAGS[1]] | t[FACE_TAGS[2]]):
            return {"what": f"all_face_tags is not the union of fracture, tip and domain boundary tags on {kind}", "key": "all-face-tags-not-union"}
        if not np.array_equal(an, t[NODE_TAGS[0]] | t[NODE_TAGS[1]] | t[NODE_TAGS[2]]):
            return {"what": f"all_node_tags is not the union of the three node tags on {kind}", "key": "all-node-tags-not-union"}
        if not np.array_equal(np.asarray(g.get_all_boundary_faces()), np.where(af)[0]):
            return {"what": f"get_all_boundary_faces differs from the faces where all_face_tags holds on {kind}", "key": "all-boundary-faces-indices"}

        def upd():
            g.update_boundary_node_tag()
            return {k: np.asarray(g.tags[k]).astype(bool) for k in NODE_TAGS}
        nt = _with_node_tags_restored(g, upd)
        for fk, nk in NODE_OF_FACE.items():
            exp = (FN.astype(int) @ t[fk].astype(int)) > 0 if nf else np.zeros(FN.shape[0], dtype=bool)
            if nt[nk].size != g.num_nodes or not np.array_equal(nt[nk][: exp.size], exp) or nt[nk][exp.size:].any():
                return {"what": f"update_boundary_node_tag: {nk} is not 'belongs to a face tagged {fk}' on {kind}", "key": "node-tag-not-from-faces"}

        def frm():
            T.add_node_tags_from_face_tags(_FakeMdg(g), "domain_boundary")
            return np.asarray(g.tags["domain_boundary_nodes"]).astype(bool)
        dn = _with_node_tags_restored(g, frm)
        exp = (FN.astype(int) @ t["domain_boundary_faces"].astype(int)) > 0 if nf else np.zeros(FN.shape[0], dtype=bool)
        if not np.array_equal(dn[: exp.size], exp) or dn[exp.size:].any():
            return {"what": f"add_node_tags_from_face_tags: domain_boundary_nodes is not 'belongs to a domain boundary face' on {kind}", "key": "add-node-tags-from-face-tags"}
        if _is_fresh(case["grid"]) and _wellformed(A):
            one = ((A != 0).sum(axis=1) == 1) if g.dim > 0 else np.zeros(nf, dtype=bool)
            exp = (FN.astype(int) @ one.astype(int)) > 0 if nf else np.zeros(FN.shape[0], dtype=bool)
            if not np.array_equal(t["domain_boundary_nodes"][: exp.size], exp) or t["fracture_nodes"].any() or t["tip_nodes"].any():
                return {"what": f"fresh grid: a node is a domain boundary node iff it belongs to a one-cell face fails on {kind}", "key": "fresh-boundary-nodes"}
        # dictionary helpers against python dict / numpy semantics
        ops = _tagops(case, g)
        old, new = _as_np(ops["dict"]), _as_np(ops["new"])
        par = _Parent()
        par.tags = dict(old)
        T.add_tags(par, new)
        want = {**old, **new}
        if set(par.tags) != set(want) or any(not np.array_equal(par.tags[k], want[k]) for k in want):
            return {"what": "add_tags(parent, new) differs from {**old, **new}", "key": "add-tags"}
        bad_key = any(k not in old for k in ops["keys"])
        try:
            ex = T.extract(dict(old), np.array(ops["idx"], dtype=int), list(ops["keys"]))
            if bad_key:
                return {"what": "tags.extract with an unknown key did not raise", "key": "extract-unknown-key"}
            for k in old:
                w = old[k][np.array(ops["idx"], dtype=int)] if k in ops["keys"] else old[k]
                if not np.array_equal(ex[k], w):
                    return {"what": f"tags.extract: key {k} is not the tag restricted to the indices", "key": "extract-tags"}
        except KeyError:
            if not bad_key:
                return {"what": "tags.extract raised KeyError on known keys", "key": "extract-raises"}
        bad_key = any(kv["k"] not in old for kv in ops["app"])
        if not bad_key:
            d = dict(old)
            T.append_tags(d, [kv["k"] for kv in ops["app"]], [np.array(kv["v"], dtype=bool) for kv in ops["app"]])
            w = dict(old)
            for kv in ops["app"]:
                w[kv["k"]] = np.concatenate([w[kv["k"]], np.array(kv["v"], dtype=bool)])
            if any(not np.array_equal(d[k], w[k]) for k in w):
                return {"what": "tags.append_tags differs from concatenation", "key": "append-tags"}
    except Exception as e:
        return {"what": f"tag arithmetic raised {type(e).__name__}: {e} on {kind}", "key": f"tags-raised-{type(e).__name__}"}
    return None


def _oracle_neighbours(case, g, A, kind):
    nf, nc, nn = g.num_faces, g.num_cells, g.num_nodes
    t = {k: np.asarray(g.tags[k]).astype(bool) for k in FACE_TAGS + NODE_TAGS}
    anyn = t[NODE_TAGS[0]] | t[NODE_TAGS[1]] | t[NODE_TAGS[2]]
    if not np.array_equal(np.asarray(_call(g, "get_all_boundary_nodes")), np.where(anyn)[0]):
        return {"what": f"get_all_boundary_nodes is not the set of nodes carrying a standard node tag on {kind}", "key": "all-boundary-nodes"}
    if not np.array_equal(np.asarray(_call(g, "get_boundary_nodes")), np.where(t["domain_boundary_nodes"])[0]):
        return {"what": f"get_boundary_nodes is not the set of domain boundary nodes on {kind}", "key": "boundary-nodes"}
    if not np.array_equal(np.asarray(_call(g, "get_internal_nodes")), np.where(~t["domain_boundary_nodes"])[0]):
        return {"what": f"get_internal_nodes is not the complement of the domain boundary nodes on {kind}", "key": "internal-nodes"}
    if _wellformed(A):
        tagged = np.where(t[FACE_TAGS[0]] | t[FACE_TAGS[1]] | t[FACE_TAGS[2]])[0]
        cnt = (A != 0).sum(axis=1)
        if np.all(cnt[tagged] == 1):
            for k, dim in enumerate(_trace_dims(case)):
                M = _call(g, "trace", dim) if k else _call(g, "trace")
                E = np.zeros((nf * dim, nc * dim))
                for f in tagged:
                    c = int(np.nonzero(A[f])[0][0])
                    for j in range(dim):
                        E[f * dim + j, c * dim + j] = 1
                if M.shape != E.shape or not np.array_equal(np.asarray(M.toarray()), E):
                    return {"what": f"trace({dim}) is not the unit map from the cell of each boundary face to that face, per component, on {kind}", "key": "trace-not-boundary-cells"}
    n1 = _line_n(case, g)
    if n1 is not None:
        E = np.zeros((n1 + 1, n1), dtype=int)
        for c in range(n1):
            E[c, c], E[c + 1, c] = -1, 1
        if A.shape != E.shape or not np.array_equal(A, E):
            return {"what": f"1-d constructor with {n1} cells: incidence is not (face c: -1, face c+1: +1) for every cell c", "key": "line1d-incidence"}
    return None


def _snapshot(g):
    cf, fn = g.cell_faces, g.face_nodes
    return (cf.format, cf.shape, cf.indptr.tolist(), cf.indices.tolist(), cf.data.tolist(), fn.shape, fn.indptr.tolist(), fn.indices.tolist(),
            {k: np.asarray(v).tolist() for k, v in g.tags.items() if isinstance(v, np.ndarray)}, int(g.num_faces), int(g.num_cells), int(g.num_nodes))


def _oracle_extract(case, g, A, kind):
    key = json.dumps(case["grid"], sort_keys=True)
    if key not in _SUB:
        return None
    base, cells, uf, un = _SUB[key]
    cs = sorted(cells)
    P = _dense_cf(base)
    if not np.array_equal(np.asarray(g.parent_cell_ind).ravel(), np.array(cs, dtype=int)):
        return {"what": f"extract_subgrid: parent_cell_ind is not the sorted cell list on {kind}", "key": "extract-parent-cells"}
    touched = sorted(int(f) for f in np.where((P[:, cs] != 0).any(axis=1))[0]) if cs else []
    if list(uf) != touched:
        return {"what": f"extract_subgrid: face map is not the sorted list of faces of the cells on {kind}", "key": "extract-face-map"}
    if A.shape != (len(uf), len(cs)) or not np.array_equal(A, P[np.array(uf, dtype=int)][:, np.array(cs, dtype=int)].reshape(A.shape)):
        return {"what": f"extract_subgrid: incidence is not the parent incidence restricted to the cells on {kind}", "key": "extract-incidence"}
    PF = np.asarray(base.face_nodes.toarray() != 0)
    nodes = sorted(int(n) for n in np.where(PF[:, np.array(uf, dtype=int)].any(axis=1))[0]) if uf else []
    if list(un) != nodes:
        return {"what": f"extract_subgrid: node map is not the sorted list of nodes of the faces on {kind}", "key": "extract-node-map"}
    FNs = np.asarray(g.face_nodes.toarray() != 0)
    if FNs.shape != (len(un), len(uf)) or not np.array_equal(FNs, PF[np.array(un, dtype=int)][:, np.array(uf, dtype=int)].reshape(FNs.shape)):
        return {"what": f"extract_subgrid: face_nodes is not the parent relation restricted on {kind}", "key": "extract-face-nodes"}
    if _wellformed(P) and not _wellformed(A):
        return {"what": f"subgrid of a well-formed grid is not well-formed on {kind}", "key": "extract-not-wellformed"}
    return None


class _Raised(Exception):
    """the real code raised where the property promises a value"""


def _call(g, name, *args, ok=()):
    try:
        return getattr(g, name)(*args)
    except ok:
        raise
    except Exception as e:
        raise _Raised(f"Grid.{name} raised {type(e).__name__}: {e}", f"{name}-raised-{type(e).__name__}")


def oracle(case):
    if case["grid"]["kind"] == "hist":
        # every answer must agree with the incidence as it is AT THAT STAGE of the history of the one grid object
        for i, st in enumerate(_hist(case)["stages"]):
            o = st["oracle"]
            if o is not None:
                if i == 0:
                    return o
                after = "+".join(s["op"] for s in case["grid"]["steps"][:i])
                return {"what": f"after in-place mutation(s) [{after}] of the same grid object: {o['what']}", "key": f"{o['key']}@after-inplace-mutation"}
        return None
    try:
        g = _grid(case)
    except Exception as e:
        return {"what": f"building the grid {json.dumps(case['grid'])[:200]} raised {type(e).__name__}: {e}", "key": "grid-construction-raised"}
    before = _snapshot(g)
    try:
        o = _oracle(case, g)
        if o is None:
            # repeated operations: the queries are pure -- running all of them (impl_run and the checks above) left the grid untouched,
            # and a second round of impl_run gives the same answers
            if _snapshot(g) != before:
                return {"what": "the connectivity queries modified cell_faces / face_nodes / tags of the grid", "key": "queries-mutate-grid"}
            if case.get("stratum", "random") != "random" or case.get("flux", 0) % 4 == 0:
                a, b = impl_run(case), impl_run(case)
                if deep_compare(a, b) is not None or _snapshot(g) != before:
                    return {"what": f"repeating the queries gives different answers: {deep_compare(a, b)}", "key": "queries-not-repeatable"}
        return o
    except _Raised as e:
        return {"what": e.args[0], "key": e.args[1]}


def _oracle(case, g):
    rec = case["grid"]
    A = _dense_cf(g)  # the incidence: everything below is derived from it with dense numpy
    nf, nc = g.num_faces, g.num_cells
    FN = np.asarray(g.face_nodes.toarray() != 0).reshape(g.face_nodes.shape[0], nf)
    wf = _wellformed(A)
    cnt = (A != 0).sum(axis=1)
    one = cnt == 1
    kind = rec["kind"] if rec["kind"] != "sub" else "sub-" + rec["base"]["kind"]
    if rec["kind"] == "live":
        kind = f"same-object-stage{rec['stage']}-after-{rec['after']}"
    with warnings.catch_warnings():
        warnings.simplefilter("ignore")
        # --- vector divergence = scalar one expanded per component (no well-formedness needed)
        for dim in case["div"]:
            if dim < 1:
                try:
                    _call(g, "divergence", dim, ok=(ValueError,))
                    return {"what": f"divergence({dim}) did not raise ValueError on {kind}", "key": "div-nonpositive-dim-no-error"}
                except ValueError:
                    continue
            D = _call(g, "divergence", dim)
            if D.shape != (nc * dim, nf * dim):
                return {"what": f"divergence({dim}) has shape {D.shape}, expected {(nc * dim, nf * dim)} on {kind}", "key": f"div-shape-dim{min(dim, 2)}"}
            E = np.zeros((nc * dim, nf * dim), dtype=int)
            for f, c in zip(*np.nonzero(A)):
                for k in range(dim):
                    E[c * dim + k, f * dim + k] = A[f, c]
            if not np.array_equal(np.asarray(D.toarray()), E):
                return {"what": f"divergence({dim}) is not the scalar divergence expanded per component on {kind} ({nf} faces, {nc} cells)",
                        "key": "div-not-kron" if dim > 1 else "div-scalar-not-incidence-transpose"}
        # --- ... in matrix-vector form: the vector divergence acts component by component
        for dim, u in zip(case["div"], _flux(case, g)):
            if dim < 1:
                continue
            uf = np.array([float(x) for x in u], dtype=float).reshape(nf, dim)
            got = np.asarray(_call(g, "divergence", dim) @ uf.ravel()).reshape(nc, dim)
            for k in range(dim):
                if not np.array_equal(got[:, k], A.T.astype(float) @ uf[:, k]):
                    return {"what": f"divergence({dim}) @ u differs from the scalar divergence of component {k} on {kind}", "key": "div-apply-not-componentwise"}
        # --- tag arithmetic (utils/tags.py): union of the three kinds; node tags = nodes of tagged faces
        o = _oracle_tags(case, g, A, FN, kind)
        if o:
            return o
        # --- neighbouring entry points: node queries, trace operator, the 1-d constructor
        o = _oracle_neighbours(case, g, A, kind)
        if o:
            return o
        # --- subgrids: incidence of the parent restricted to the cells, well-formed if the parent is
        o = _oracle_extract(case, g, A, kind)
        if o:
            return o
        # --- connection map: symmetric, and = cells sharing a face
        C = _call(g, "cell_connection_map")
        Cd = np.asarray(C.toarray()).astype(bool).reshape(nc, nc)
        if C.shape != (nc, nc):
            return {"what": f"cell_connection_map has shape {C.shape} on {kind}", "key": "conn-shape"}
        if not np.array_equal(Cd, Cd.T):
            return {"what": f"cell_connection_map is not symmetric on {kind}", "key": "conn-not-symmetric"}
        share = (np.abs(A).T @ np.abs(A)) > 0
        if not np.array_equal(Cd, share):
            i, j = [int(x[0]) for x in np.nonzero(Cd != share)]
            return {"what": f"cell_connection_map[{i},{j}]={bool(Cd[i, j])} but cells {i},{j} {'share' if share[i, j] else 'share no'} face on {kind}",
                    "key": "conn-not-shared-face"}
        # --- cell-node map
        CN = _call(g, "cell_nodes")
        expCN = (FN.astype(int) @ (A != 0).astype(int)) > 0
        if not np.array_equal(np.asarray(CN.toarray()).astype(bool).reshape(expCN.shape), expCN):
            return {"what": f"cell_nodes differs from the nodes of the faces of each cell on {kind}", "key": "cell-nodes"}
        if not np.array_equal(np.asarray(_call(g, "num_cell_nodes")).ravel(), expCN.sum(axis=0)):
            return {"what": f"num_cell_nodes differs from the number of distinct nodes of each cell on {kind}", "key": "num-cell-nodes"}
        if not wf:
            return None  # the remaining statements are about well-formed incidences only
        # --- dense face-cell array
        d = _call(g, "cell_faces_as_dense")
        if tuple(d.shape) != (2, nf):
            return {"what": f"cell_faces_as_dense has shape {d.shape} on {kind}", "key": "dense-shape"}
        for f in range(nf):
            pos, neg = np.where(A[f] > 0)[0], np.where(A[f] < 0)[0]
            e0 = int(pos[0]) if pos.size else -1
            e1 = int(neg[0]) if neg.size else -1
            if int(d[0, f]) != e0 or int(d[1, f]) != e1:
                return {"what": f"cell_faces_as_dense[:, {f}] = {[int(d[0, f]), int(d[1, f])]} but the incidence has +cell {e0}, -cell {e1} on {kind}",
                        "key": "dense-not-incidence"}
        # --- boundary tags: exactly the faces with one adjacent cell
        t = {k: np.asarray(g.tags[k]).astype(bool) for k in FACE_TAGS}
        for k in FACE_TAGS:
            if t[k].size != nf:
                return {"what": f"tag {k} has size {t[k].size}, grid has {nf} faces on {kind}", "key": "tag-size"}
        allb = np.zeros(nf, dtype=bool)
        allb[_call(g, "get_all_boundary_faces")] = True
        expect_b = one if g.dim > 0 else np.zeros(nf, dtype=bool)
        if not np.array_equal(allb, expect_b):
            f = int(np.nonzero(allb != expect_b)[0][0])
            return {"what": f"face {f} has {int(cnt[f])} adjacent cell(s) but boundary tag {bool(allb[f])} (get_all_boundary_faces) on {kind}",
                    "key": "boundary-tag-not-one-cell"}
        overlap = bool(np.any(t["fracture_faces"] & t["tip_faces"]) or np.any(t["fracture_faces"] & t["domain_boundary_faces"]) or np.any(t["tip_faces"] & t["domain_boundary_faces"]))
        if overlap and not _fracture_on_domain_boundary(rec):
            # (a fracture lying on the domain boundary is deliberately tagged both fracture and domain boundary by split_grid)
            return {"what": f"standard face tags overlap on {kind}", "key": "tags-overlap"}
        dom = np.zeros(nf, dtype=bool)
        dom[_call(g, "get_boundary_faces")] = True
        rest = expect_b & ~t["fracture_faces"] & ~t["tip_faces"]
        if np.any(rest & ~dom) or (not overlap and not np.array_equal(dom, rest)):
            return {"what": f"domain boundary faces are not the one-cell faces minus fracture and tip faces on {kind}", "key": "domain-boundary-tag"}
        if _is_fresh(rec) and (t["fracture_faces"].any() or t["tip_faces"].any()):
            return {"what": f"fresh grid {kind} carries fracture/tip tags", "key": "fresh-grid-fracture-tags"}
        if rec["kind"] in ("frac_cart", "lib"):
            if np.any(t["fracture_faces"] & ~one):
                return {"what": f"a fracture face has {cnt[t['fracture_faces']].tolist()} cells on {kind}", "key": "fracture-face-not-one-cell"}
            fp = np.asarray(g.frac_pairs)
            if fp.size and not (np.all(t["fracture_faces"][fp.ravel()]) and np.all(one[fp.ravel()])):
                return {"what": f"frac_pairs contains faces that are not one-cell fracture faces on {kind}", "key": "frac-pairs-not-tagged"}
        internal = np.asarray(_call(g, "get_internal_faces"))
        if not np.array_equal(internal, np.where(~expect_b)[0]):
            return {"what": f"get_internal_faces is not the complement of the one-cell faces on {kind}", "key": "internal-faces"}
        saved = g.tags["domain_boundary_faces"]
        try:
            _call(g, "update_boundary_face_tag")
            upd = np.asarray(g.tags["domain_boundary_faces"]).astype(bool)
        finally:
            g.tags["domain_boundary_faces"] = saved
        if not np.array_equal(upd, expect_b):
            return {"what": f"update_boundary_face_tag does not tag exactly the faces with one adjacent cell on {kind} (dim {g.dim})", "key": "update-boundary-tag"}
        # --- signs and cells of boundary faces
        orphan = bool(np.any(cnt == 0))
        for faces in _queries(g, case):
            fa = np.array(faces, dtype=int)
            has_internal = bool(np.any(cnt[fa] >= 2)) if fa.size else False
            try:
                sgn, ci = _call(g, "signs_and_cells_of_boundary_faces", fa, ok=(ValueError,))
            except ValueError:
                if not has_internal:
                    return {"what": f"signs_and_cells_of_boundary_faces raised ValueError on boundary faces {faces} on {kind}", "key": "signs-cells-raises-on-boundary"}
                continue
            if has_internal and not orphan:
                return {"what": f"signs_and_cells_of_boundary_faces accepted internal face in {faces} on {kind}", "key": "signs-cells-internal-no-error"}
            if has_internal:
                continue
            sgn, ci = np.asarray(sgn).ravel(), np.asarray(ci).ravel()
            if sgn.size != fa.size or ci.size != fa.size:
                return {"what": f"signs_and_cells_of_boundary_faces returned {sgn.size} signs for {fa.size} faces on {kind}", "key": "signs-cells-size"}
            for i, f in enumerate(faces):
                c = int(np.nonzero(A[f])[0][0])
                if int(ci[i]) != c or int(sgn[i]) != int(A[f, c]):
                    return {"what": f"signs_and_cells_of_boundary_faces({faces})[{i}] = (sign {int(sgn[i])}, cell {int(ci[i])}) but face {f} has cell {c} with sign {int(A[f, c])} on {kind}",
                            "key": "signs-cells-not-incidence"}
    return None


# ----------------------------------------------------------------------------- evidence helpers
def nontrivial(case):
    try:
        g = _grid(case)
    except Exception:
        return False
    return g.num_cells >= 2 and g.num_faces >= 3


def shrink_candidates(case):
    for i in range(len(case["sc"])):
        yield dict(case, sc=case["sc"][:i] + case["sc"][i + 1:])
    for i in range(len(case["div"])):
        if len(case["div"]) > 1:
            yield dict(case, div=case["div"][:i] + case["div"][i + 1:])
    rec = case["grid"]
    if rec["kind"] == "hist":
        for i in range(len(rec["steps"])):
            if len(rec["steps"]) > 1:
                yield dict(case, grid=dict(rec, steps=rec["steps"][:i] + rec["steps"][i + 1:]))
        return
    if rec["kind"] == "sub":
        yield dict(case, grid=rec["base"])
        rec = None
    if rec and "n" in rec:
        for i, v in enumerate(rec["n"]):
            if v > 1 and rec["kind"] != "frac_cart":
                yield dict(case, grid=dict(rec, n=rec["n"][:i] + [v - 1] + rec["n"][i + 1:]))
    if rec and rec.get("perturb") is not None:
        yield dict(case, grid=dict(rec, perturb=None))


def stats(cases, impl_outs):
    kinds, dims, sizes = {}, {}, {"cells<=1": 0, "cells2-9": 0, "cells10-49": 0, "cells>=50": 0}
    nq = nerr = split = 0
    for c, o in zip(cases, impl_outs):
        rec = c["grid"]
        k = rec["kind"] if rec["kind"] != "sub" else "sub-" + rec["base"]["kind"]
        kinds[k] = kinds.get(k, 0) + 1
        try:
            g = _grid(c)
        except Exception:
            continue
        dims[str(g.dim)] = dims.get(str(g.dim), 0) + 1
        n = g.num_cells
        sizes["cells<=1" if n <= 1 else "cells2-9" if n < 10 else "cells10-49" if n < 50 else "cells>=50"] += 1
        split += int(np.any(g.tags["fracture_faces"]))
        if isinstance(o, dict) and "sc" in o:
            nq += len(o["sc"])
            nerr += sum(1 for s in o["sc"] if "err" in s)
    orders = {}
    for c in cases:
        for q in c["sc"]:
            orders[q.get("order", "shuffle")] = orders.get(q.get("order", "shuffle"), 0) + 1
    strata = {}
    for c in cases:
        strata[c.get("stratum", "corpus")] = strata.get(c.get("stratum", "corpus"), 0) + 1
    raw = [c["grid"] for c in cases if c["grid"]["kind"] == "raw"]
    corner = {"grids_0_cells": 0, "grids_1_cell": 0, "grids_0_faces": 0, "raw_unsorted_columns": 0, "raw_ill_formed": 0, "raw_orphan_faces": 0,
              "queries_empty": 0, "queries_single": 0, "queries_with_repeat": 0, "queries_with_internal": 0, "queries_all_boundary": 0,
              "trace_calls": 0, "line1d_grids": 0, "subgrid_extractions": 0}
    for c, o in zip(cases, impl_outs):
        try:
            g = _grid(c)
        except Exception:
            continue
        corner["grids_0_cells"] += g.num_cells == 0
        corner["grids_1_cell"] += g.num_cells == 1
        corner["grids_0_faces"] += g.num_faces == 0
        if isinstance(o, dict) and "wf" in o:
            corner["raw_ill_formed"] += not o["wf"]
            corner["raw_orphan_faces"] += not o["noorphan"]
            corner["trace_calls"] += len(o["tags"]["trace"])
            corner["line1d_grids"] += o["tags"]["line"] is not None
            corner["subgrid_extractions"] += o["extract"] is not None
        for q in c["sc"]:
            corner["queries_empty"] += q["size"] == 0
            corner["queries_single"] += q["size"] == 1
            corner["queries_with_repeat"] += bool(q["dup"])
            corner["queries_with_internal"] += bool(q["internal"])
            corner["queries_all_boundary"] += q["size"] == 1000
    for r in raw:
        cols = [r["cf_indices"][r["cf_indptr"][k]:r["cf_indptr"][k + 1]] for k in range(r["nc"])]
        corner["raw_unsorted_columns"] += any(x != sorted(x) for x in cols)
    corner = {k: int(v) for k, v in corner.items()}
    hist = {"cases": 0, "stages_checked": 0, "split_faces": 0, "split_specific": 0, "reassign": 0, "stages_with_new_split_faces": 0}
    for c in cases:
        if c["grid"]["kind"] == "hist":
            hist["cases"] += 1
            h = _hist(c)
            hist["stages_checked"] += len(h["stages"])
            for st in c["grid"]["steps"]:
                hist[st["op"]] += 1
            nfs = [st["info"]["nf"] for st in h["stages"]]
            hist["stages_with_new_split_faces"] += sum(1 for a, b in zip(nfs, nfs[1:]) if b > a)
    return {"inplace_history": hist, "strata": strata, "corner_counts": corner, "face_list_orders": orders, "grid_kinds": kinds, "grid_dims": dims, "sizes": sizes, "grids_with_split_faces": split,
            "signs_cells_queries": nq, "signs_cells_errors": nerr,
            "div_error_dims": sum(1 for c in cases for d in c["div"] if d < 1)}
