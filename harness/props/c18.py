"""C18 Mixed finite elements (RT0, MVEM) reproduce linear pressures exactly; mass matrices are SPD.

Two kinds of cases
  * "local": one rational simplex (dim 1, 2, 3), SPD tensor, signs: the real static helpers
    RT0.massHdiv / RT0.faces_to_cell / MVEM.massHdiv / DualElliptic._inv_matrix_*d against the exact
    rational model (Lean driver); oracle = symmetry, positive definiteness, local exactness and
    projector consistency of the real helper outputs.
  * "grid": a generated simplex grid (structured + dyadic perturbation + shear, 1-D/2-D grids embedded
    in 3-D by a rational rotation), constant SPD tensor, Dirichlet data of a linear pressure:
    the real discretize / assemble_matrix_rhs / solve; oracle = exact face fluxes, cell pressures,
    P0 flux reconstruction, global mass matrices SPD; correspondence = the real global mass matrices
    against the model's local matrices assembled with the harness' own face/opposite-node bookkeeping.
"""
import os

for _v in ("OMP_NUM_THREADS", "OPENBLAS_NUM_THREADS", "MKL_NUM_THREADS", "NUMBA_NUM_THREADS"):
    os.environ.setdefault(_v, "1")

import json
import math
from fractions import Fraction

import numpy as np

from harness.common import frac

PID = "C18"
THEOREMS = [
    "PorepyVerif.C18.rt0_local_mass_symmetric",
    "PorepyVerif.C18.rt0_local_mass_gram",
    "PorepyVerif.C18.rt0_local_mass_psd",
    "PorepyVerif.C18.rt0_local_mass_spd",
    "PorepyVerif.C18.rt0_interpolation_exact",
    "PorepyVerif.C18.rt0_linear_exact_local",
    "PorepyVerif.C18.rt0_projection_exact",
    "PorepyVerif.C18.mvem_consistency",
    "PorepyVerif.C18.mvem_local_mass_symmetric",
    "PorepyVerif.C18.mvem_local_mass_spd",
    "PorepyVerif.C18.mvem_linear_exact_local",
    "PorepyVerif.C18.inv_matrix_correct_1d",
    "PorepyVerif.C18.inv_matrix_correct_2d",
    "PorepyVerif.C18.inv_matrix_correct_3d",
    "PorepyVerif.C18.simplex_divthm_1d",
    "PorepyVerif.C18.simplex_divthm_2d",
    "PorepyVerif.C18.simplex_divthm_3d",
    "PorepyVerif.C18.rt0_spd_segment",
    "PorepyVerif.C18.rt0_spd_triangle",
    "PorepyVerif.C18.rt0_spd_tetrahedron",
    "PorepyVerif.C18.rt0_exact_segment",
    "PorepyVerif.C18.rt0_exact_triangle",
    "PorepyVerif.C18.rt0_exact_tetrahedron",
    "PorepyVerif.C18.mvem_exact_triangle",
    "PorepyVerif.C18.mvem_exact_tetrahedron",
    "PorepyVerif.C18.rt0_global_mass_spd",
    "PorepyVerif.C18.mvem_global_mass_spd",
    "PorepyVerif.C18.saddle_point_unique",
    "PorepyVerif.C18.div_full_row_rank",
    "PorepyVerif.C18.mixed_linear_exact_global",
    "PorepyVerif.C18.rt0_linear_exact_global",
    "PorepyVerif.C18.project_flux_exact_global",
]
LEAN_MODULES = ["PorepyVerif.C18.Props"]
AUDIT = "PorepyVerif/C18/Audit.lean"
DRIVER = "PorepyVerif/C18/Driver.lean"
N = {"quick": 60, "thorough": 3000}
RULE = ("60% 'grid' cases: simplex grid of dim 1/2/3 (TensorGrid, StructuredTriangleGrid, StructuredTetrahedralGrid; 1-12 cells in the quick tier, up to 48 in the thorough tier), "
        "nodes perturbed by dyadic offsets and sheared by a dyadic unimodular-ish map, dim<3 grids embedded in 3-D by a rational (quaternion) "
        "rotation + dyadic translation in 2 of 3 cases; constant SPD 3x3 tensor K = L L^T with dyadic L; linear pressure with dyadic gradient; "
        "all boundary faces Dirichlet; magnitudes are generator dimensions: K is multiplied by 2^kexp (kexp = 0 in 30%, else uniform in -53..27, i.e. from "
        "below SI rock permeabilities to 1e8) and all coordinates by 2^gexp (0 in 50%, else -10..10); every oracle / correspondence tolerance is RELATIVE to the "
        "natural scale of the quantity (|K||grad p| area for fluxes, |grad p| extent for pressures, max entry for matrices), no absolute floors. 40% 'local' cases: one random rational simplex of either orientation, random face signs, SPD dxd tensor. "
        "non-trivial = anisotropic tensor (non-zero off-diagonal) or perturbed/embedded geometry; distinct = distinct case JSON")
TRUSTED = [
    "modelled, not verified: numpy kron/reshape/dot glue inside RT0.massHdiv, np.linalg.solve / norm in MVEM.massHdiv, the construction of HB by shifted "
    "diagonals, cell_face_to_opposite_node bookkeeping, map_grid rotation and SecondOrderTensor.rotate (all covered by the correspondence of the assembled "
    "global mass matrices and by the oracle, not by proof)",
    "the driver tabulates intermediate matrices (fromTab (tabulate A) = A extensionally) before composing the model functions",
    "global exactness is proved (rt0_linear_exact_global / mixed_linear_exact_global: local exactness + saddle_point_unique) under hypotheses that are "
    "checked on every generated real grid by the oracle, not proved for the grid constructors: the spanning-tree certificate of div_full_row_rank is "
    "computed by BFS and verified against the real div matrix, every face belongs to a cell, face centres / normals are shared by the two cells of a face, "
    "the divergence theorem holds per cell; floating-point rounding of the real code and of the sparse solve (tolerance 1e-8 relative in the oracle, "
    "1e-10 relative in the correspondence)",
    "the oracle's linear solve is the harness' own: scipy spsolve of the REAL assembled (A, rhs) after an exact power-of-two symmetric equilibration "
    "(fluxes scaled by 2^-e, pressures by 2^e, 4^e ~ max|mass|); the unscaled system has condition numbers up to 1e17 for small K and small cells, "
    "which made an unequilibrated solve lose 8 digits (false alarm, replay seed 9); the solver-independent check A x_exact = rhs is always applied",
    "the divergence theorem on each cell (hypothesis DivThm of the exactness theorems) is proved for explicit simplices in dimension 1, 2, 3 and is checked "
    "numerically on the real grid geometry by the oracle (it is property C19)",
]
EXPLANATION = ("CORE (partial): theorems over Q for every dimension d: the RT0 local mass matrix as coded is symmetric, has a Gram (sum of squares) "
               "representation, is PSD, and SPD on non-degenerate simplices; the exact Darcy fluxes of a linear pressure satisfy the local face rows of "
               "the saddle-point system for RT0 and MVEM, the cell rows (divergence) hold, the RT0 interpolant and faces_to_cell reproduce constant velocities; "
               "MVEM projector consistency, symmetry, SPD. Specialised to segment / triangle / tetrahedron with explicit normals, the as-coded 1x1, 2x2, 3x3 inverses "
               "and Sylvester's criterion. Grid level: assembled RT0 / MVEM mass matrices SPD, uniqueness of the saddle-point solve for SPD M and full-row-rank B, full row rank of "
               "-cell_faces^T from a spanning-tree certificate (connected grid with a Dirichlet face), hence every solution of the assembled system IS the exact one; "
               "project_flux exact per cell from the global flux vector. Not proved: that the grid constructors satisfy the certificate / geometric hypotheses (checked per grid by the oracle), numpy glue, rounding; these are bridged by the oracle (real solves) and the "
               "correspondence (real local and assembled mass matrices vs. exact rational model).")
ASSUMPTIONS = ["magnitudes are powers of two (exact scaling in binary64) within 2^-53..2^27 for K and 2^-10..2^10 for coordinates; no under/overflow occurs in this range",
               "simplex quality is bounded below by the generator (|det| of the edge matrix >= 1/8 of the product of edge scales) so that class-T tolerances are meaningful",
               "Dirichlet conditions on the whole boundary; constant tensor; no source term"]

TOL_ORACLE = 1e-8
TOL_CORR = 1e-10


# ----------------------------------------------------------------------------- small exact helpers
def F(x):
    return x if isinstance(x, Fraction) else Fraction(x)


def fl(x):
    return float(Fraction(x))


def fmat(A):
    return [[frac(F(v)) for v in row] for row in A]


def fvec(v):
    return [frac(F(x)) for x in v]


def mat_f(A):
    return np.array([[fl(v) for v in row] for row in A], dtype=float)


def det_frac(M):
    n = len(M)
    if n == 1:
        return M[0][0]
    if n == 2:
        return M[0][0] * M[1][1] - M[0][1] * M[1][0]
    return sum((-1) ** j * M[0][j] * det_frac([r[:j] + r[j + 1:] for r in M[1:]]) for j in range(n))


def dy(rng, lo, hi, den):
    """dyadic rational k/den in [lo, hi]"""
    return Fraction(rng.randint(lo * den, hi * den), den)


def gen_spd(rng, d):
    """K = L L^T, L lower triangular dyadic with positive diagonal; sometimes isotropic / diagonal."""
    mode = rng.random()
    L = [[Fraction(0)] * d for _ in range(d)]
    for i in range(d):
        L[i][i] = rng.choice([Fraction(1, 2), Fraction(1), Fraction(3, 2), Fraction(2)])
        if mode > 0.3:
            for j in range(i):
                L[i][j] = rng.choice([Fraction(-1), Fraction(-1, 2), Fraction(0), Fraction(1, 2), Fraction(1)])
    if mode < 0.12:
        for i in range(d):
            L[i][i] = L[0][0]
    return [[sum(L[i][k] * L[j][k] for k in range(d)) for j in range(d)] for i in range(d)]


def gen_rotation(rng):
    """rational rotation from an integer quaternion"""
    while True:
        q = [rng.randint(-3, 3) for _ in range(4)]
        n = sum(v * v for v in q)
        if n and sum(1 for v in q if v) >= 2:
            break
    a, b, c, d = map(Fraction, q)
    n = Fraction(n)
    return [[(a * a + b * b - c * c - d * d) / n, 2 * (b * c - a * d) / n, 2 * (b * d + a * c) / n],
            [2 * (b * c + a * d) / n, (a * a - b * b + c * c - d * d) / n, 2 * (c * d - a * b) / n],
            [2 * (b * d - a * c) / n, 2 * (c * d + a * b) / n, (a * a - b * b - c * c + d * d) / n]]


# ----------------------------------------------------------------------------- generator
def gen_local(rng, tier):
    d = rng.choice([1, 2, 2, 3, 3])
    while True:
        x0 = [dy(rng, -2, 2, 8) for _ in range(d)]
        edges = [[dy(rng, -2, 2, 8) for _ in range(d)] for _ in range(d)]
        det = det_frac(edges)
        scale = 1
        for e in edges:
            scale *= max(abs(v) for v in e) or 1
        if abs(det) >= Fraction(1, 8) * scale and abs(det) >= Fraction(1, 64):
            break
    coord = [x0] + [[x0[a] + e[a] for a in range(d)] for e in edges]
    rng.shuffle(coord)
    return {"kind": "local", "d": d, "coord": [fvec(p) for p in coord], "K": fmat(gen_spd(rng, d)),
            "sign": [rng.choice([1, -1]) for _ in range(d + 1)],
            "a": fvec([dy(rng, -2, 2, 4) for _ in range(d)]), "b": frac(dy(rng, -2, 2, 4)),
            "pt": fvec([dy(rng, -2, 2, 8) for _ in range(d)])}


def gen_grid(rng, tier):
    big = tier == "thorough"
    d = rng.choice([1, 2, 2, 3, 3] if not big else [1, 2, 2, 2, 3, 3])
    if d == 1:
        n = [rng.randint(1, 5 if not big else 9)]
    elif d == 2:
        n = [rng.randint(1, 2 if not big else 4), rng.randint(1, 2 if not big else 4)]
    else:
        n = rng.choice([[1, 1, 1], [1, 1, 1], [2, 1, 1], [1, 2, 1], [1, 1, 2]] + ([[2, 2, 1], [2, 2, 2]] if big else []))
    nn = 1
    for k in n:
        nn *= k + 1
    amp = {1: 5, 2: 3, 3: 2}[d]  # perturbation amplitude in 16ths of the unit spacing (keeps all simplices valid)
    pert = [[Fraction(rng.randint(-amp, amp), 16) if rng.random() < 0.8 else Fraction(0) for _ in range(d)] for _ in range(nn)]
    if rng.random() < 0.2:
        pert = [[Fraction(0)] * d for _ in range(nn)]
    # shear / scale: dyadic matrix close to identity with determinant bounded below
    while True:
        A = [[(rng.choice([Fraction(1, 2), Fraction(1), Fraction(1), Fraction(2)]) if i == j else rng.choice([Fraction(0), Fraction(0), Fraction(1, 4), Fraction(-1, 4), Fraction(1, 2)])) for j in range(d)] for i in range(d)]
        if abs(det_frac(A)) >= Fraction(1, 4):
            break
    embed = None
    if d < 3 and rng.random() < 0.67:
        embed = {"Q": fmat(gen_rotation(rng)), "t": fvec([dy(rng, -2, 2, 4) for _ in range(3)])}
    a = [dy(rng, -2, 2, 4) for _ in range(3)]
    if not any(a):
        a[0] = Fraction(1)
    return {"kind": "grid", "d": d, "n": n, "pert": [fvec(p) for p in pert], "A": fmat(A), "embed": embed,
            "K": fmat(gen_spd(rng, 3)), "a": fvec(a), "b": frac(dy(rng, -2, 2, 4))}


def gen_scales(rng):
    """magnitude of the tensor (2^kexp, 2^-53 .. 2^27: from below SI rock permeabilities to 1e8) and of the
    coordinates (2^gexp, 2^-10 .. 2^10); powers of two, so the scaling itself is exact in binary64"""
    kexp = 0 if rng.random() < 0.3 else rng.randint(-53, 27)
    gexp = 0 if rng.random() < 0.5 else rng.randint(-10, 10)
    return kexp, gexp


def gen_case(rng, tier):
    c = gen_grid(rng, tier) if rng.random() < 0.6 else gen_local(rng, tier)
    c["kexp"], c["gexp"] = gen_scales(rng)
    return c


def eff(case):
    """the case with the magnitudes applied: K * 2^kexp, coordinates * 2^gexp (idempotent)"""
    if case.get("_eff"):
        return case
    ke, ge = int(case.get("kexp", 0)), int(case.get("gexp", 0))
    ks, gs = Fraction(2) ** ke, Fraction(2) ** ge
    c = dict(case)
    c["_eff"] = True
    c["K"] = [[frac(F(v) * ks) for v in row] for row in case["K"]]
    if case["kind"] == "local":
        c["coord"] = [[frac(F(v) * gs) for v in p] for p in case["coord"]]
        c["pt"] = [frac(F(v) * gs) for v in case["pt"]]
    else:
        c["gmul"] = frac(gs)
    return c


# ----------------------------------------------------------------------------- geometry of a local case (exact)
def local_geometry(case):
    """exact rational geometry of the simplex of a 'local' case: volume, outward normals, face centres, centroid"""
    d = case["d"]
    x = [[F(v) for v in p] for p in case["coord"]]
    edges = [[x[i][a] - x[0][a] for a in range(d)] for i in range(1, d + 1)]
    det = det_frac(edges)
    fact = math.factorial(d)
    V = abs(det) / fact
    S = [sum(x[i][a] for i in range(d + 1)) for a in range(d)]
    cen = [S[a] / (d + 1) for a in range(d)]
    fc = [[(S[a] - x[j][a]) / d for a in range(d)] for j in range(d + 1)]
    # outward normal of face j = -d V grad(lambda_j); grad lambda_j from the inverse of the edge matrix
    # solve E g = e_i for barycentric gradients: lambda_i(x) = g_i . (x - x0), i >= 1
    E = edges
    n_out = []
    inv = inverse_frac(E)  # inv[a][i] : gradient component a of lambda_{i+1}
    grads = [[-sum(inv[a][i] for i in range(d)) for a in range(d)]] + [[inv[a][i] for a in range(d)] for i in range(d)]
    for j in range(d + 1):
        n_out.append([-d * V * grads[j][a] for a in range(d)])
    return x, V, cen, fc, n_out


def inverse_frac(M):
    n = len(M)
    A = [list(map(F, row)) + [Fraction(int(i == j)) for j in range(n)] for i, row in enumerate(M)]
    for c in range(n):
        p = next(r for r in range(c, n) if A[r][c] != 0)
        A[c], A[p] = A[p], A[c]
        pv = A[c][c]
        A[c] = [v / pv for v in A[c]]
        for r in range(n):
            if r != c and A[r][c] != 0:
                f = A[r][c]
                A[r] = [v - f * w for v, w in zip(A[r], A[c])]
    return [row[n:] for row in A]


def hb_matrix(d):
    """HB exactly as RT0.discretize builds it (replicated: it is a local variable there; the grid cases exercise the real one)"""
    size = d * (d + 1)
    HB = np.zeros((size, size))
    for it in np.arange(0, size, d):
        HB += np.diagflat(np.ones(size - it), it)
    HB += HB.T
    HB /= d * d * (d + 1) * (d + 2)
    return HB


def float_diam(x):
    pts = np.array([[fl(v) for v in p] for p in x])
    return float(max(np.linalg.norm(p - q) for p in pts for q in pts))


# ----------------------------------------------------------------------------- real code, local
_cache = {}


def _key(case):
    return json.dumps(case, sort_keys=True)


def local_data(case):
    """float inputs of the static helpers for a 'local' case (computed without the code under test)"""
    d = case["d"]
    x, V, cen, fc, n_out = local_geometry(case)
    diam = float_diam(x)
    return {"K": mat_f(case["K"]), "s": np.array(case["sign"], dtype=float),
            "coord": np.array([[fl(v) for v in p] for p in x]).T,  # d x (d+1)
            "normals": np.array([[fl(s_j * v) for v in n] for s_j, n in zip(case["sign"], n_out)]).T,  # global orientation
            "fcs": np.array([[fl(v) for v in p] for p in fc]).T, "c": np.array([fl(v) for v in cen]), "V": fl(V),
            "diam": diam, "weight": diam ** (2 - d), "pt": np.array([fl(v) for v in case["pt"]])}


def local_real(case):
    case = eff(case)
    k = _key(case)
    if k in _cache:
        return _cache[k]
    from porepy.numerics.fem.rt0 import RT0
    from porepy.numerics.vem.mvem import MVEM
    d = case["d"]
    out = local_data(case)
    inv_fun = {1: RT0._inv_matrix_1d, 2: RT0._inv_matrix_2d, 3: RT0._inv_matrix_3d}[d]
    dimmask = np.array([i < d for i in range(3)])
    try:
        Kinv = inv_fun(out["K"])
        M = RT0.massHdiv(Kinv, out["V"], out["coord"], out["s"], d, hb_matrix(d))
        A, Pi = MVEM.massHdiv(out["K"], Kinv, out["c"], out["V"], out["fcs"], out["normals"], out["s"], out["diam"], out["weight"])
        P = RT0.faces_to_cell(out["pt"], out["coord"], out["fcs"], out["normals"], dimmask, np.eye(3))
        out.update({"Kinv": Kinv, "M": M, "A": A, "Pi": Pi, "P": P})
    except Exception as e:  # the code under test raised on a valid simplex: reported by the oracle
        out.update({"exc": f"{type(e).__name__}: {e}", "exc_type": type(e).__name__})
    _cache[k] = out
    return out


# ----------------------------------------------------------------------------- real code, grid
def build_grid(case):
    import porepy as pp
    d, n = case["d"], case["n"]
    if d == 1:
        sd = pp.TensorGrid(np.arange(n[0] + 1, dtype=float))
    elif d == 2:
        sd = pp.StructuredTriangleGrid(n)
    else:
        sd = pp.StructuredTetrahedralGrid(n)
    base = sd.nodes[:d, :].copy()
    pert = [[F(v) for v in p] for p in case["pert"]]
    A = [[F(v) for v in row] for row in case["A"]]
    gs = F(case.get("gmul", "1"))
    assert base.shape[1] == len(pert), (base.shape, len(pert))
    loc = []  # exact in-plane coordinates (Fractions)
    for i in range(base.shape[1]):
        p = [Fraction(int(round(base[a, i]))) + pert[i][a] for a in range(d)]
        loc.append([gs * sum(A[a][b] * p[b] for b in range(d)) for a in range(d)])
    if case["embed"]:
        Q = [[F(v) for v in row] for row in case["embed"]["Q"]]
        t = [gs * F(v) for v in case["embed"]["t"]]
    else:
        Q = [[Fraction(int(i == j)) for j in range(3)] for i in range(3)]
        t = [Fraction(0)] * 3
    nodes3 = np.zeros((3, len(loc)))
    for i, p in enumerate(loc):
        for r in range(3):
            nodes3[r, i] = fl(t[r] + sum(Q[r][a] * p[a] for a in range(d)))
    sd.nodes = nodes3
    sd.compute_geometry()
    T = [[Q[r][a] for a in range(d)] for r in range(3)]  # 3 x d, exact tangential basis
    return sd, loc, T, t


def grid_real(case):
    case = eff(case)
    k = _key(case)
    if k in _cache:
        return _cache[k]
    import porepy as pp
    import scipy.sparse as sps
    sd, loc, T, t = build_grid(case)
    K3 = mat_f(case["K"])
    a = np.array([fl(v) for v in case["a"]])
    b = fl(case["b"])
    nc = sd.num_cells
    res = {"sd": sd, "loc": loc, "T": T, "t": t, "K3": K3, "a": a, "b": b}
    for name, cls in (("rt0", pp.RT0), ("mvem", pp.MVEM)):
        perm = pp.SecondOrderTensor(kxx=K3[0, 0] * np.ones(nc), kyy=K3[1, 1] * np.ones(nc), kzz=K3[2, 2] * np.ones(nc),
                                    kxy=K3[0, 1] * np.ones(nc), kxz=K3[0, 2] * np.ones(nc), kyz=K3[1, 2] * np.ones(nc))
        bf = sd.get_boundary_faces()
        bc = pp.BoundaryCondition(sd, bf, bf.size * ["dir"])
        bcv = np.zeros(sd.num_faces)
        bcv[bf] = a @ sd.face_centers[:, bf] + b
        solver = cls("flow")
        data = pp.initialize_data({}, "flow", {"second_order_tensor": perm, "bc": bc, "bc_values": bcv})
        try:
            solver.discretize(sd, data)
            Asys, rhs = solver.assemble_matrix_rhs(sd, data)
        except Exception as e:  # the code under test raised on a valid grid: reported by the oracle
            res[name] = {"exc": f"{type(e).__name__}: {e}", "exc_type": type(e).__name__}
            continue
        try:
            # The harness' own solve of the REAL system (A, rhs). The mass block scales like h^(2-d)/|K|, the divergence block is +-1, so
            # the unscaled matrix can have condition number > 1e16 (replay C18-9: cond 1.1e17, equilibrated 15). Solve the symmetrically
            # equilibrated system D A D y = D rhs, x = D y, with D = diag(2^-e on faces, 2^e on cells), 4^e ~ max|mass| (powers of two:
            # the scaling itself is exact). The check "A x_exact - rhs = 0" below does not depend on any solve.
            nfaces = sd.num_faces
            amax = float(abs(data[pp.DISCRETIZATION_MATRICES]["flow"][solver.mass_matrix_key]).max())
            e = int(round(math.log2(amax) / 2)) if amax > 0 and math.isfinite(amax) else 0
            dvec = np.concatenate([np.full(nfaces, 2.0 ** (-e)), np.full(rhs.size - nfaces, 2.0 ** e)])
            Dm = sps.diags(dvec)
            sol = dvec * sps.linalg.spsolve((Dm @ Asys @ Dm).tocsc(), dvec * rhs)
        except Exception:  # singular system
            sol = np.full(rhs.size, np.nan)
        md = data[pp.DISCRETIZATION_MATRICES]["flow"]
        u = solver.extract_flux(sd, sol, data)
        p = solver.extract_pressure(sd, sol, data)
        res[name] = {"mass": np.asarray(md[solver.mass_matrix_key].todense()), "div": np.asarray(md[solver.div_matrix_key].todense()),
                     "u": u, "p": p, "P0": solver.project_flux(sd, u, data), "sys": Asys, "rhs": rhs}
    _cache[k] = res
    return res


def impl_run(case):
    case = eff(case)
    if case["kind"] == "local":
        r = local_real(case)
        d = case["d"]
        if "exc" in r:
            raise RuntimeError("static helper raised " + r["exc"])
        return {"inv": r["Kinv"].tolist(), "M": r["M"].tolist(), "A": r["A"].tolist(), "Pi": r["Pi"].tolist(),
                "P": r["P"][:d, :].T.tolist(), "P_rest": float(np.abs(r["P"][d:, :]).max()) if d < 3 else 0.0}
    r = grid_real(case)
    for name in ("rt0", "mvem"):
        if "exc" in r[name]:
            raise RuntimeError(f"{name} discretize/assemble raised " + r[name]["exc"])
    return {"rt0_mass": r["rt0"]["mass"].tolist(), "mvem_mass": r["mvem"]["mass"].tolist()}


# ----------------------------------------------------------------------------- model side
def cell_topology(sd):
    """own bookkeeping: for each cell its faces, signs and the node opposite to each face"""
    cf = sd.cell_faces.tocsc()
    fn = sd.face_nodes.tocsc()
    out = []
    for c in range(sd.num_cells):
        sl = slice(cf.indptr[c], cf.indptr[c + 1])
        faces = [int(f) for f in cf.indices[sl]]
        signs = [int(v) for v in cf.data[sl]]
        fnodes = [set(int(v) for v in fn.indices[fn.indptr[f]:fn.indptr[f + 1]]) for f in faces]
        allnodes = set().union(*fnodes)
        opp = []
        for s in fnodes:
            rest = allnodes - s
            assert len(rest) == 1
            opp.append(rest.pop())
        out.append((faces, signs, opp))
    return out


def model_ops(case):
    case = eff(case)
    d = case["d"]
    if case["kind"] == "local":
        r = local_data(case)
        return [
            {"op": "inv", "d": d, "K": case["K"]},
            {"op": "rt0_mass", "d": d, "K": case["K"], "V": frac(r["V"]), "coord": case["coord"], "sign": fvec(case["sign"])},
            {"op": "rt0_proj", "d": d, "pt": case["pt"], "coord": case["coord"], "fc": [fvec(p) for p in r["fcs"].T], "normals": [fvec(p) for p in r["normals"].T]},
            {"op": "mvem_mass", "d": d, "m": d + 1, "K": case["K"], "c": fvec(r["c"]), "V": frac(r["V"]), "fc": [fvec(p) for p in r["fcs"].T],
             "normals": [fvec(p) for p in r["normals"].T], "sign": fvec(case["sign"]), "diam": frac(r["diam"]), "weight": frac(r["weight"])},
        ]
    r = grid_real(case)
    sd = r["sd"]
    import porepy as pp
    # the frame in which discretize works (glue): mapped geometry and rotated tensor. The MVEM stabilisation weight
    # uses the infinity norm of K^-1, which depends on the in-plane frame, so the model is fed the same frame.
    c_centers, f_normals, f_centers, R, dimmask, node_coords = pp.map_geometry.map_grid(sd, 1e-5)
    idx = np.where(dimmask)[0] if d < 3 else np.arange(3)
    Rf = [[Fraction(float(v)) for v in row] for row in np.asarray(R)]
    K = [[F(v) for v in row] for row in case["K"]]
    Krot = [[sum(Rf[i][p] * K[p][q] * Rf[j][q] for p in range(3) for q in range(3)) for j in range(3)] for i in range(3)]
    Kt = fmat([[Krot[i][j] for j in idx] for i in idx])
    node_coords = node_coords[:d, :]
    diams = sd.cell_diameters()
    ops = []
    for c, (faces, signs, opp) in enumerate(cell_topology(sd)):
        coord = [fvec(node_coords[:, nd]) for nd in opp]
        ops.append({"op": "rt0_mass", "d": d, "K": Kt, "V": frac(sd.cell_volumes[c]), "coord": coord, "sign": fvec(signs)})
        fc = [fvec(f_centers[:d, f]) for f in faces]
        nrm = [fvec(f_normals[:d, f]) for f in faces]
        cc = fvec(c_centers[:d, c])
        ops.append({"op": "mvem_mass", "d": d, "m": d + 1, "K": Kt, "c": cc, "V": frac(sd.cell_volumes[c]), "fc": fc, "normals": nrm,
                    "sign": fvec(signs), "diam": frac(diams[c]), "weight": frac(float(np.power(diams[c], 2 - d)))})
    return ops


def _fm(rows):
    return [[fl(v) for v in row] for row in rows]


def model_decode(outs, case):
    case = eff(case)
    for o in outs:
        if isinstance(o, dict) and "err" in o:
            return {"driver_error": o["err"]}
    if case["kind"] == "local":
        return {"inv": _fm(outs[0]["inv"]), "M": _fm(outs[1]["M"]), "A": _fm(outs[3]["A"]), "Pi": _fm(outs[3]["Pi"]),
                "P": _fm(outs[2]["P"]), "P_rest": 0.0}
    r = grid_real(case)
    sd = r["sd"]
    nf = sd.num_faces
    Mr = np.zeros((nf, nf))
    Mm = np.zeros((nf, nf))
    for c, (faces, signs, opp) in enumerate(cell_topology(sd)):
        Lr = np.array(_fm(outs[2 * c]["M"]))
        Lm = np.array(_fm(outs[2 * c + 1]["A"]))
        Mr[np.ix_(faces, faces)] += Lr
        Mm[np.ix_(faces, faces)] += Lm
    return {"rt0_mass": Mr.tolist(), "mvem_mass": Mm.tolist()}


def compare(impl, model, case):
    if "harness_exc" in impl:
        return "implementation raised: " + impl["harness_exc"]
    if "driver_error" in model:
        return "driver error: " + str(model["driver_error"])
    for k in impl:
        a, b = np.array(impl[k], dtype=float), np.array(model[k], dtype=float)
        if a.shape != b.shape:
            return f"{k}: shape {a.shape} vs {b.shape}"
        scale = float(np.abs(b).max()) if b.size else 0.0  # natural magnitude of the matrix: no absolute floor
        err = float(np.abs(a - b).max()) if a.size else 0.0
        if not err <= TOL_CORR * scale:
            i = np.unravel_index(int(np.nanargmax(np.abs(a - b))), a.shape) if a.size and a.ndim else ()
            return f"{k}{list(map(int, i))}: impl {a[i] if a.ndim else a} vs model {b[i] if b.ndim else b} (|diff| {err:.3e} > {TOL_CORR}*{scale:.3g})"
    return None


# ----------------------------------------------------------------------------- oracle
def _spd(M, what):
    if not np.all(np.isfinite(M)):
        return f"{what} has non-finite entries", "not-finite"
    scale = float(np.abs(M).max())
    asym = float(np.abs(M - M.T).max())
    if asym > 1e-12 * scale:
        return f"{what} is not symmetric (max |M - M^T| = {asym:.3e})", "not-symmetric"
    ev = np.linalg.eigvalsh((M + M.T) / 2)
    if not ev.min() > 1e-12 * ev.max():
        return f"{what} is not positive definite (min eigenvalue {ev.min():.3e})", "not-spd"
    return None


def oracle_local(case):
    case = eff(case)
    r = local_real(case)
    d = case["d"]
    if "exc" in r:
        return {"what": f"static helper raised {r['exc']} on simplex {case['coord']} K={case['K']} sign={case['sign']}", "key": f"local-raises-{r['exc_type']}-{d}d"}
    K, Kinv, s = r["K"], r["Kinv"], r["s"]
    if not np.abs(Kinv @ K - np.eye(d)).max() <= 1e-10:
        return {"what": f"_inv_matrix_{d}d(K) @ K != I for symmetric positive definite K = {K.tolist()} (kexp={case.get('kexp', 0)})", "key": f"local-inv-{d}d"}
    a = np.array([fl(v) for v in case["a"]])
    b = fl(case["b"])
    U = -K @ a
    u = U @ r["normals"]  # flux through each face, global orientation
    pc = a @ r["c"] + b
    pf = a @ r["fcs"] + b
    # geometry sanity (independent of the code under test): divergence theorem on the generated simplex
    assert np.abs((r["normals"] * s).sum(axis=1)).max() <= 1e-12 * np.abs(r["normals"]).max()
    for name, M in (("RT0", r["M"]), ("MVEM", r["A"])):
        bad = _spd(M, f"{name}.massHdiv local matrix (dim {d})")
        if bad:
            return {"what": bad[0] + f" coord={case['coord']} K={case['K']} sign={case['sign']}", "key": f"local-{name.lower()}-{bad[1]}-{d}d"}
        res = M @ u - s * pc + s * pf
        scale = max(np.abs(M @ u).max(), np.abs(pf).max(), abs(pc))  # magnitudes of the terms of the equation
        if not np.abs(res).max() <= TOL_ORACLE * scale:
            return {"what": f"{name} local equations M u - s p_c + s p_f = {res.tolist()} != 0 for the exact fluxes of the linear pressure a={case['a']} "
                            f"on simplex {case['coord']}, K={case['K']}, sign={case['sign']}", "key": f"local-{name.lower()}-not-exact-{d}d"}
    # MVEM projector: Pi_s D = I on polynomial gradients
    D = (r["normals"].T @ K) / r["diam"]
    if np.abs(r["Pi"] @ D - np.eye(d)).max() > 1e-9:
        return {"what": f"MVEM Pi_s D != I (projector does not reproduce constant velocities), simplex {case['coord']}", "key": f"local-mvem-projector-{d}d"}
    # faces_to_cell reproduces a constant velocity at any point
    rec = r["P"][:d, :] @ u
    if not np.abs(rec - U).max() <= TOL_ORACLE * np.abs(U).max() or (d < 3 and np.abs(r["P"][d:, :]).max() != 0):
        return {"what": f"RT0.faces_to_cell: reconstructed velocity {rec.tolist()} != {U.tolist()} at pt={case['pt']} simplex {case['coord']} sign={case['sign']}",
                "key": f"local-rt0-proj-{d}d"}
    return None


def tree_certificate(B):
    """Spanning-tree certificate of theorem div_full_row_rank, computed by BFS on the REAL div matrix B (cells x faces) and verified
    literally as stated in the theorem. Returns None if the certificate holds, else a description."""
    nc, nf = B.shape
    nz = [np.nonzero(B[:, F])[0] for F in range(nf)]
    if any(len(z) == 0 for z in nz):
        return "a face belongs to no cell"
    roots = [(int(z[0]), F) for F, z in enumerate(nz) if len(z) == 1]
    if not roots:
        return "no boundary face"
    root, root_face = roots[0]
    rank, parent, link = {root: 0}, {}, {}
    frontier = [root]
    while frontier:
        nxt = []
        for c in frontier:
            for F in np.nonzero(B[c, :])[0]:
                if len(nz[F]) == 2:
                    o = int(nz[F][0] if nz[F][1] == c else nz[F][1])
                    if o not in rank:
                        rank[o], parent[o], link[o] = rank[c] + 1, c, int(F)
                        nxt.append(o)
        frontier = nxt
    if len(rank) != nc:
        return f"grid not connected through interior faces ({len(rank)} of {nc} cells reached)"
    # the hypotheses of the theorem, literally
    if B[root, root_face] == 0 or any(B[c, root_face] != 0 for c in range(nc) if c != root):
        return "root face condition fails"
    for c in range(nc):
        if c == root:
            continue
        if B[c, link[c]] == 0 or not rank[parent[c]] < rank[c] or any(B[o, link[c]] != 0 for o in range(nc) if o not in (c, parent[c])):
            return f"link condition fails at cell {c}"
    if np.linalg.matrix_rank(B) != nc:
        return "numerical rank deficient"
    return None


def oracle_grid(case):
    case = eff(case)
    r = grid_real(case)
    sd, K3, a, b = r["sd"], r["K3"], r["a"], r["b"]
    d = case["d"]
    Tf = mat_f(r["T"])
    Pt = Tf @ Tf.T  # projector on the tangent space (identity in 3-D)
    U = -Pt @ K3 @ Pt @ a  # exact Darcy velocity of the tangential problem
    u_ex = U @ sd.face_normals
    p_ex = a @ sd.cell_centers + b
    tag = f"{d}d" + ("-embedded" if case["embed"] else "")
    # the hypothesis of the exactness theorems on the real geometry: divergence theorem per cell
    for c, (faces, signs, opp) in enumerate(cell_topology(sd)):
        sn = sd.face_normals[:, faces] * np.array(signs)
        if (np.abs(sn.sum(axis=1)).max() > 1e-10 * np.abs(sn).max()
                or np.abs((sd.face_centers[:, faces] - sd.cell_centers[:, [c]]) @ sn.T - sd.cell_volumes[c] * Pt).max() > 1e-10 * sd.cell_volumes[c]):
            return {"what": f"grid geometry violates the divergence theorem on cell {c} (hypothesis of the theorems; see C19)", "key": f"grid-geometry-{tag}"}
        # hypothesis hXF of rt0_linear_exact_global: the centre of face F is the mean of its nodes = (sum of cell nodes - opposite node) / d
        xs = sd.nodes[:, opp]
        fc_model = (xs.sum(axis=1, keepdims=True) - xs) / d
        if np.abs(fc_model - sd.face_centers[:, faces]).max() > 1e-10 * max(float(np.abs(sd.nodes).max()), 1e-300):
            return {"what": f"face centres of cell {c} are not the means of the face nodes (hypothesis hXF of rt0_linear_exact_global)", "key": f"grid-geometry-facecentre-{tag}"}
    for name in ("rt0", "mvem"):
        g = r[name]
        if "exc" in g:
            return {"what": f"{name.upper()} discretize/assemble raised {g['exc']} on grid d={d} n={case['n']} embedded={bool(case['embed'])}",
                    "key": f"grid-{name}-raises-{g['exc_type']}-{tag}"}
        bad = _spd(g["mass"], f"{name.upper()} global mass matrix")
        if bad:
            return {"what": bad[0] + f" on grid d={d} n={case['n']}", "key": f"grid-{name}-mass-{bad[1]}-{tag}"}
        if np.abs(g["div"] + sd.cell_faces.T.toarray()).max() != 0:
            return {"what": f"{name.upper()} div matrix != -cell_faces^T", "key": f"grid-{name}-div-{tag}"}
        cert = tree_certificate(g["div"])
        if cert is not None:
            return {"what": f"{name.upper()} div matrix: {cert} (hypothesis of div_full_row_rank / unique solvability) on grid d={d} n={case['n']}",
                    "key": f"grid-{name}-div-rank-{tag}"}
        # natural scales: |K||grad p| * face area for fluxes, |grad p| * extent (or the pressure level) for pressures
        na = float(np.linalg.norm(a))
        sU = float(np.abs(K3).max()) * na
        su = max(float(np.abs(u_ex).max()), sU * float(sd.face_areas.max()))
        extent = float(np.abs(sd.nodes - sd.nodes.mean(axis=1, keepdims=True)).max())
        sp = max(float(np.abs(p_ex).max()), na * extent)
        if not np.all(np.isfinite(g["u"])) or np.abs(g["u"] - u_ex).max() > TOL_ORACLE * su:
            i = int(np.nanargmax(np.abs(g["u"] - u_ex))) if np.all(np.isfinite(g["u"])) else 0
            return {"what": f"{name.upper()} face flux {g['u'][i]!r} != exact {u_ex[i]!r} at face {i} (linear pressure, grid d={d} n={case['n']} embedded={bool(case['embed'])} "
                            f"K*2^{case.get('kexp', 0)} x*2^{case.get('gexp', 0)})",
                    "key": f"grid-{name}-flux-{tag}"}
        if not np.all(np.isfinite(g["p"])) or np.abs(g["p"] - p_ex).max() > TOL_ORACLE * sp:
            i = int(np.nanargmax(np.abs(g["p"] - p_ex))) if np.all(np.isfinite(g["p"])) else 0
            return {"what": f"{name.upper()} cell pressure {g['p'][i]!r} != exact {p_ex[i]!r} at cell {i} (grid d={d} n={case['n']} embedded={bool(case['embed'])})",
                    "key": f"grid-{name}-pressure-{tag}"}
        # the assembled system is satisfied by the exact solution (independent of the linear solver)
        xe = np.concatenate([u_ex, p_ex])
        resid = g["sys"] @ xe - g["rhs"]
        nf = sd.num_faces  # face rows are pressure differences, cell rows are flux sums
        if not (np.abs(resid[:nf]).max() <= TOL_ORACLE * sp and np.abs(resid[nf:]).max() <= TOL_ORACLE * su):
            i = int(np.argmax(np.abs(resid) / np.concatenate([np.full(nf, sp), np.full(resid.size - nf, su)])))
            return {"what": f"{name.upper()} assembled system: residual {resid[i]!r} in row {i} for the exact solution", "key": f"grid-{name}-residual-{tag}"}
        if not np.abs(g["P0"] - U[:, None]).max() <= TOL_ORACLE * sU:
            return {"what": f"{name.upper()} project_flux: cell velocity {g['P0'][:, 0].tolist()} != exact {U.tolist()}", "key": f"grid-{name}-p0flux-{tag}"}
    return None


def oracle(case):
    o = oracle_local(case) if case["kind"] == "local" else oracle_grid(case)
    if (o is not None and "raises-AssertionError" in o["key"] and "AssertionError: G " in o["what"]
            and (case.get("kexp", 0) or case.get("gexp", 0))):
        # MVEM.massHdiv's consistency assertion np.allclose(G, F D) has an ABSOLUTE tolerance (1e-8): when |G| = |K| V / diam^2
        # is large the rounding of F D alone exceeds it. Classified as that specific defect only if the very same case with
        # order-one magnitudes passes the whole oracle (so a wrong F, D or G still gets the generic key).
        if oracle(dict(case, kexp=0, gexp=0)) is None:
            o = {"what": "MVEM.massHdiv raises AssertionError (np.allclose(G, F D) with absolute tolerance 1e-8) for a large-magnitude tensor: "
                         f"K*2^{case.get('kexp', 0)}, coordinates*2^{case.get('gexp', 0)}, dim {case['d']}; the same case with order-one magnitudes is exact",
                 "key": "mvem-assert-absolute-tolerance-large-G"}
    return o


# ----------------------------------------------------------------------------- evidence helpers
def nontrivial(case):
    K = case["K"]
    aniso = any(F(K[i][j]) != 0 for i in range(len(K)) for j in range(len(K)) if i != j)
    if case["kind"] == "local":
        return aniso or case["d"] > 1
    return aniso or bool(case["embed"]) or any(F(v) != 0 for p in case["pert"] for v in p)


def shrink_candidates(case):
    if case.get("gexp", 0):
        yield dict(case, gexp=0)
    if case["kind"] != "grid":
        return
    d = case["d"]
    if case["embed"]:
        yield dict(case, embed=None)
    if any(F(v) != 0 for p in case["pert"] for v in p):
        yield dict(case, pert=[["0"] * d for _ in case["pert"]])
    ident = [[("1" if i == j else "0") for j in range(d)] for i in range(d)]
    if case["A"] != ident:
        yield dict(case, A=ident)
    for i, k in enumerate(case["n"]):
        if k > 1:
            n2 = list(case["n"])
            n2[i] = k - 1
            nn = 1
            for q in n2:
                nn *= q + 1
            yield dict(case, n=n2, pert=[["0"] * d for _ in range(nn)])
    I3 = [[("1" if i == j else "0") for j in range(3)] for i in range(3)]
    if case["K"] != I3:
        yield dict(case, K=I3)


def stats(cases, impl_outs):
    out = {"local": {"1": 0, "2": 0, "3": 0}, "grid": {"1": 0, "2": 0, "3": 0}, "grid_embedded": 0, "grid_cells_total": 0, "anisotropic": 0,
           "negatively_oriented_local": 0, "mixed_signs_local": 0}
    out["kexp_hist"] = {"<=-40": 0, "-39..-14": 0, "-13..-1": 0, "0": 0, "1..27": 0}
    out["gexp_nonzero"] = 0
    for c in cases:
        out[c["kind"]][str(c["d"])] += 1
        ke = int(c.get("kexp", 0))
        out["kexp_hist"]["<=-40" if ke <= -40 else "-39..-14" if ke <= -14 else "-13..-1" if ke < 0 else "0" if ke == 0 else "1..27"] += 1
        out["gexp_nonzero"] += int(c.get("gexp", 0)) != 0
        K = c["K"]
        out["anisotropic"] += any(F(K[i][j]) != 0 for i in range(len(K)) for j in range(len(K)) if i != j)
        if c["kind"] == "grid":
            out["grid_embedded"] += bool(c["embed"])
            k = _key(eff(c))
            if k in _cache:
                out["grid_cells_total"] += int(_cache[k]["sd"].num_cells)
        else:
            x = [[F(v) for v in p] for p in c["coord"]]
            det = det_frac([[x[i][a] - x[0][a] for a in range(c["d"])] for i in range(1, c["d"] + 1)])
            out["negatively_oriented_local"] += det < 0
            out["mixed_signs_local"] += len(set(c["sign"])) > 1
    return out
