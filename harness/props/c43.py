"""C43 Unit conversion is consistent and simulations are unit-invariant.

Two ties to /repo, both re-established on every run:
  translator      harness/props/c43_translate.py: python `ast` of models/units.py and compositional/materials.py
                  -> lean/PorepyVerif/C43/Generated.lean (derived-unit formulas, SI_units tables, dataclass defaults)
  correspondence  Units(**kwargs), getattr, convert_units (scalars / arrays, both directions), the material data
                  classes (construction, to_units chains) against the Lean model through the line-protocol driver
plus the direct oracle (the property itself on the real code), which also runs the flow simulations.
"""
import dataclasses
import os
import struct
import warnings
from fractions import Fraction

import numpy as np

from harness import common
from harness.common import frac
from harness.props import c43_translate

PID = "C43"
THEOREMS = [
    "PorepyVerif.C43.convert_roundtrip",
    "PorepyVerif.C43.convert_succeeds_both_ways",
    "PorepyVerif.C43.convert_compose",
    "PorepyVerif.C43.convert_exponent_add",
    "PorepyVerif.C43.derived_consistent",
    "PorepyVerif.C43.derived_monomial",
    "PorepyVerif.C43.degree_agrees_with_rad",
    "PorepyVerif.C43.constants_roundtrip",
    "PorepyVerif.C43.constants_back_to_si",
    "PorepyVerif.C43.scaled_roots",
    "PorepyVerif.C43.convert_roundtrip_real",
    "PorepyVerif.C43.convert_compose_real",
    "PorepyVerif.C43.convert_exponent_add_real",
    "PorepyVerif.C43.convert_real_extends",
]
LEAN_MODULES = ["PorepyVerif.C43.Props", "PorepyVerif.C43.PropsReal"]
AUDIT = "PorepyVerif/C43/Audit.lean"
DRIVER = "PorepyVerif/C43/Driver.lean"
N = {"quick": 400, "thorough": 40000}
N_SIM = {"quick": 2, "thorough": 120}
RULE = ("kinds: convert 68% (Units kwargs: random subset of base units with positive scalings, 65% powers of two 2^-6..2^6, else "
        "dyadic/decimal floats in [1e-3,1e3], ints, s = 1 / 1+1e-7 / rarely 2 (NotImplementedError), rarely an invalid key or a "
        "non-number; unit string of 1-5 (thorough 1-8) '*'-separated factors: base 55% / derived 33% / unknown, empty, "
        "method-name symbols 12%, exponent none / integer in many spellings (2, -1, +2, 2.0, 1e0, 20e-1, .5e1) / fractional / "
        "malformed (x, empty, two '^'), random spaces and tabs, whole-string forms '', '1', '-', '1*m', 'm*', repeated symbols; "
        "1-4 values dyadic or decimal, scalar / float array / int scalar / int array; both directions); attrs 7% (getattr of "
        "every base, derived, unknown name); constants 25% (one of the material data classes, 0-6 keywords with dyadic or "
        "decimal values, rarely an unknown keyword, construction in a random unit system, to_units chain of 1-3 systems ending "
        "mostly in pp.Units()); sim: fixed number per run (quick 2, thorough 120): SinglePhaseFlow, Cartesian 2x2 or 4x4, "
        "compressible fluid, Dirichlet east/west with pressure drop (thorough: 40% of them in a square cut by 1-2 orthogonal fractures, mixed-dimensional with interface fluxes), cell-wise source, 1-2 implicit Euler steps, scaled m, kg "
        "(and K, mol, rad, which must not matter). non-trivial = convert with >=2 factors that the real code accepts, constants "
        "with a chain, every sim; distinct = distinct cases")
TRUSTED = [
    "modelled, not verified: binary64 rounding of every operation (model computes over exact rationals; compared exactly when all "
    "scalings are powers of two and all exponents integers, else relative 1e-12)",
    "non-integer exponents (x ** 0.5): theorems over the reals (PropsReal.lean, Real.rpow on the traversal `factorParts`); the "
    "correspondence evaluates the same traversal in binary64 (Float.pow) in the Lean driver; the rounding of pow is outside the theorems",
    "python float() is modelled for ASCII input `[ws][sign]digits[.digits][e[sign]digits][ws]`; inf, nan, digit separators '_' and "
    "non-ASCII digits/whitespace are not generated and not modelled; str.replace/str.split are modelled on lists of characters",
    "getattr(self, name): base units, properties and method names of class Units as the translator finds them; other object "
    "attributes (__class__, __dict__, ...) are not modelled",
    "the dataclass machinery of the material classes (asdict, generated __init__, __init_subclass__, freezing) is modelled as: "
    "unknown keyword -> TypeError, missing keyword -> default, conversion loop in field order",
    "the translator (ast -> Lean) for the expression language self.<base>, literals, np.pi, *, /, ** <int literal>",
    "simulation level: only scaled_roots (algebra) is proved; that the residuals of the real flow model satisfy its hypothesis "
    "R'(Sx) = T R(x), and that both runs return matching SI solutions, is sampled by the oracle (tolerance 1e-8 relative), not proved",
    "simulation stratum, what is compared: the ROOTS of the discrete equations. Both runs use two harness overrides of the model: "
    "(a) Newton stops on a unit-invariant criterion (increment relative to the iterate per variable, 1e-12, 3..15 iterations) instead "
    "of porepy's absolute, unit-dependent norms; (b) every Jacobian system is solved after row/column equilibration. Without (b) "
    "the comparison measures the sparse LU, not the units: choosing units is a row/column scaling, the mixed-dimensional Jacobian "
    "has condition number 1e16 unscaled and 8e28 with m=1000, scipy's spsolve then returns a solution with relative residual ~1 and "
    "Newton crawls (corpus/C43/sim_fractured_m1000_conditioning.json; with m=1024 the LU pivots exactly as unscaled). Floating-point "
    "conditioning of the linear solver in badly scaled units is outside the property (exact arithmetic: scaled_roots)",
]
EXPLANATION = ("FULL for conversion: model = Units constructor, attribute lookup, unit-string grammar and conversion loop as coded, "
               "material constants construction / to_units; theorems convert_roundtrip, convert_compose (+ exponent addition), "
               "derived_consistent / derived_monomial / degree_agrees_with_rad (about the formulas regenerated from units.py on this "
               "run), constants_roundtrip / constants_back_to_si (about the SI_units tables regenerated from materials.py on this run). "
               "Fractional exponents: convert_roundtrip_real, convert_compose_real, convert_exponent_add_real evaluate the same "
               "traversal (factorParts) over the reals with Mathlib's Real.rpow (its laws are Mathlib theorems, not hypotheses); "
               "convert_real_extends shows that this evaluation agrees with the exact rational model wherever all exponents are "
               "integers. CORE (partial) for the simulation claim: scaled_roots is the algebraic core; its hypothesis and the "
               "conclusion are checked on the real SinglePhaseFlow model (thorough: also mixed-dimensional with 1-2 fractures) by "
               "the oracle. "
               "DEGREE (observation, NOT a finding): `degree = rad*180/pi` looked inverted if an attribute meant 'size of one degree "
               "in SI'. The documented meaning of every Units attribute is 'the simulation unit expressed in the unit the attribute is "
               "named after' (m: length unit in metres; Pa: pressure unit in pascal). Read the same way, degree = the simulation ANGLE "
               "unit expressed in degrees = rad*180/pi (1 rad = 180/pi degrees), which is the correct base-unit expression, and "
               "convert_units(x, 'degree') takes a value given in degrees: 180 degrees and pi rad convert to the same simulation "
               "value (theorem degree_agrees_with_rad, oracle key degree-not-pi-rad; a pi/180 coefficient would make 180 degrees and "
               "pi rad differ by (180/pi)^2). The property text 'derived units agree with their base-unit expressions' therefore "
               "holds for degree; the only imprecision is the docstring of convert_units, which says the value is 'in SI units' "
               "although for 'degree' it is in degrees (and to_si=True returns degrees, not radians). No defect recorded.")
ASSUMPTIONS = ["all unit scalings positive (hypothesis of the theorems; the generator never produces zero or negative scalings)",
               "integer exponents in the exact rational theorems; fractional exponents in the real-number theorems (PropsReal.lean)"]

BASE = c43_translate.BASE
GEN_LEAN = os.path.join(common.LEAN, "PorepyVerif", "C43", "Generated.lean")
_TR = {}


def translate():
    """called by the harness before the build; raises if the source left the translatable fragment"""
    info = c43_translate.translate(common.REPO, GEN_LEAN)
    _TR.update(info)
    return {k: v for k, v in info.items() if k not in ("units", "mats")}


# ----------------------------------------------------------------------------- helpers
def _err(e):
    for k in type(e).__mro__:
        if k.__name__ in ("ValueError", "AttributeError", "TypeError", "NotImplementedError", "KeyError", "ZeroDivisionError", "OverflowError"):
            return {"err": k.__name__}
    return {"err": type(e).__name__}


def _units_kwargs(kwargs):
    kw = {}
    for k, v, is_int in kwargs:
        kw[k] = "not-a-number" if v is None else (int(Fraction(v)) if is_int else float(Fraction(v)))
    return kw


def _cls(name):
    from porepy.compositional import materials
    return getattr(materials, name)


def _mk_units(kwargs):
    import porepy as pp
    return pp.Units(**_units_kwargs(kwargs))


def _value(case):
    vals = [Fraction(v) for v in case["values"]]
    vt = case["vtype"]
    if vt == "float":
        return float(vals[0])
    if vt == "int":
        return int(vals[0])
    if vt == "intarray":
        return np.array([int(v) for v in vals], dtype=int)
    return np.array([float(v) for v in vals])


def _as_list(x):
    return [frac(v) for v in np.atleast_1d(np.asarray(x, dtype=float))]


class Sym:
    """symbolic positive number: coefficient * prod base^exp — run through the REAL convert_units / properties"""

    def __init__(self, c=1.0, e=None):
        self.c, self.e = c, dict(e or {})

    def _bin(self, o, sign):
        if isinstance(o, Sym):
            e = dict(self.e)
            for k, v in o.e.items():
                e[k] = e.get(k, 0) + sign * v
            return Sym(self.c * o.c if sign > 0 else self.c / o.c, e)
        if isinstance(o, (int, float)) and not isinstance(o, bool):
            return Sym(self.c * o if sign > 0 else self.c / o, self.e)
        return NotImplemented

    def __mul__(self, o):
        return self._bin(o, 1)

    __rmul__ = __mul__

    def __truediv__(self, o):
        return self._bin(o, -1)

    def __rtruediv__(self, o):
        if isinstance(o, (int, float)) and not isinstance(o, bool):
            return Sym(o / self.c, {k: -v for k, v in self.e.items()})
        return NotImplemented

    def __pow__(self, p):
        if isinstance(p, (int, float)) and not isinstance(p, bool):
            q = Fraction(p)
            return Sym(self.c ** p, {k: v * q for k, v in self.e.items()})
        return NotImplemented


def _sym_units():
    import porepy as pp
    u = pp.Units()
    for b in BASE:
        setattr(u, b, Sym(1.0, {b: Fraction(1)}))
    return u


def _sym_dims(unit_str):
    """exponent of every base unit in `unit_str`, read off the real convert_units run on symbolic units"""
    try:
        r = _sym_units().convert_units(Sym(), unit_str, to_si=True)
    except Exception:
        return None
    if not isinstance(r, Sym):
        return None
    return [r.e.get(b, Fraction(0)) for b in BASE]


def _relclose(a, b, tol):
    a, b = float(Fraction(a)), float(Fraction(b))
    return abs(a - b) <= tol * max(abs(a), abs(b)) + 1e-300


# ----------------------------------------------------------------------------- generator
POW2 = [2.0 ** k for k in range(-6, 7)]
OTHER = [3.0, 0.75, 2.5, 10.0, 1e3, 1e-3, 1.5, 0.1, 100.0, 7.0, 0.01, 12.0]
DERIVED = ["Pa", "J", "N", "W", "degree"]
BAD_SYMS = ["foo", "M", "pa", "", "1", "-", "convert_units", "kg2", "Kg", "__init__", "sec", "m\t", "mm", "rads"]
INT_EXPS = ["2", "-1", "-2", "3", "-3", "+2", "0", "1", "-0", "2.0", "-1.0", "1e0", "2e0", "20e-1", "0.5e1", ".5e1", "-2.", "3E0", "02", "-1e+0", "2\t"]
FRAC_EXPS = ["0.5", "-0.5", "1.5", ".5", "0.25", "1e-1", "0.1", "-2.5", "0.333", "5e-1"]
BAD_EXPS = ["x", "", "--1", "1/2", "2^3", "1e", "+", ".", "e1", "2,0", "1.2.3", "0x10"]
CLASSES = ["FluidComponent", "SolidConstants", "FractureDamageSolidConstants", "NumericalConstants", "ReferenceVariableValues"]
_counter = {"k": 0}


def _is_pow2(x):
    f = Fraction(x)
    n, d = f.numerator, f.denominator
    return n > 0 and (n & (n - 1)) == 0 and (d & (d - 1)) == 0


def gen_units(rng, allow_bad=True):
    kw = []
    keys = [k for k in ["m", "kg", "K", "mol", "rad"] if rng.random() < 0.45]
    pure = rng.random() < 0.65
    for k in keys:
        x = rng.choice(POW2) if (pure or rng.random() < 0.5) else rng.choice(OTHER)
        is_int = float(x).is_integer() and rng.random() < 0.4
        kw.append([k, frac(x), is_int])
    r = rng.random()
    if r < 0.25:
        s = rng.choice([1.0, 1.0, 1.0 + 1e-7, 1.0 - 2e-6])
        kw.append(["s", frac(s), s == 1.0 and rng.random() < 0.5])
    elif r < 0.29 and allow_bad:
        kw.append(["s", frac(rng.choice([2.0, 0.5, 1.001, 1.0 + 2e-5])), False])
    if allow_bad and rng.random() < 0.03:
        kw.append([rng.choice(["Pa", "cm", "M", "second", "degree", "N"]), frac(2.0), False])
    if allow_bad and rng.random() < 0.03:
        kw.append([rng.choice(["m", "kg", "K"]) if not kw else kw[0][0], None, False])
        if len(kw) > 1 and kw[-1][0] == kw[0][0]:
            kw.pop(0)
    rng.shuffle(kw)
    return kw


def _spaces(rng, s, p):
    out = []
    for ch in s:
        if rng.random() < p:
            out.append(" ")
        out.append(ch)
    if rng.random() < p:
        out.append(" ")
    return "".join(out)


def gen_factor(rng):
    r = rng.random()
    sym = rng.choice(BASE) if r < 0.55 else rng.choice(DERIVED) if r < 0.88 else rng.choice(BAD_SYMS)
    r = rng.random()
    if r < 0.38:
        return sym, "none"
    if r < 0.83:
        return sym + "^" + rng.choice(INT_EXPS), "int"
    if r < 0.94:
        return sym + "^" + rng.choice(FRAC_EXPS), "frac"
    return sym + "^" + rng.choice(BAD_EXPS), "bad"


def gen_unit_string(rng, tier):
    r = rng.random()
    if r < 0.07:
        return rng.choice(["", "1", "-", " ", " 1 ", "- ", "1*m", "m*", "*", "m**2", "-*kg", " - ", "1 * Pa", "m*1"])
    n = rng.choice([1, 1, 2, 2, 3, 3, 4, 5] if tier == "quick" else [1, 2, 3, 4, 5, 6, 7, 8])
    fs = [gen_factor(rng)[0] for _ in range(n)]
    if n >= 2 and rng.random() < 0.35:  # repeated symbol, stratified: plain/plain, plain/caret, caret/plain, caret/caret
        sym = rng.choice(BASE + DERIVED[:4])
        i, j = sorted(rng.sample(range(n), 2))
        first, second = rng.choice([("p", "p"), ("p", "c"), ("c", "p"), ("c", "c")])
        caret = lambda: sym + "^" + rng.choice(INT_EXPS[:9])
        fs[i] = sym if first == "p" else caret()
        fs[j] = sym if second == "p" else caret()
        if n >= 3 and rng.random() < 0.3:  # a third occurrence
            k = rng.choice([x for x in range(n) if x not in (i, j)])
            fs[k] = sym if rng.random() < 0.5 else caret()
    s = "*".join(fs)
    r = rng.random()
    if r < 0.35:
        s = s.replace("*", " * ")
    elif r < 0.55:
        s = _spaces(rng, s, 0.15)
    return s


def gen_values(rng, vtype):
    k = 1 if vtype in ("float", "int") else rng.choice([1, 2, 2, 3, 4])
    vals = []
    for _ in range(k):
        if vtype in ("int", "intarray"):
            vals.append(Fraction(rng.randint(-64, 64)))
        elif rng.random() < 0.7:
            vals.append(Fraction(rng.randint(-64, 64), rng.choice([1, 2, 4, 8])))
        else:
            vals.append(Fraction(rng.choice([1e5, 0.1, 1e-3, 101325.0, 9.81, 0.0, -273.15, 1e-11, 4e-10])))
    return vals


def gen_case(rng, tier):
    _counter["k"] += 1
    k = _counter["k"]
    period = max(1, N[tier] // N_SIM[tier])
    if k % period == 1:
        return gen_sim(rng, tier)
    r = rng.random()
    if r < 0.68:
        kw = gen_units(rng)
        r2 = rng.random()
        vtype = "float" if r2 < 0.35 else "int" if r2 < 0.43 else "intarray" if r2 < 0.5 else "array"
        vals = gen_values(rng, vtype)
        return {"kind": "convert", "kwargs": kw, "units": gen_unit_string(rng, tier), "values": [frac(v) for v in vals],
                "vtype": vtype, "to_si": rng.random() < 0.5}
    if r < 0.75:
        return {"kind": "attrs", "kwargs": gen_units(rng), "names": BASE + DERIVED + rng.sample(BAD_SYMS, 3)}
    cls = rng.choice(CLASSES)
    fields = _class_fields(cls)
    kws = []
    for name in rng.sample(fields, min(len(fields), rng.randint(0, 6))):
        v = Fraction(rng.randint(-64, 64), rng.choice([1, 2, 4, 8])) if rng.random() < 0.6 else Fraction(rng.choice([1e-11, 1e3, 0.2, 2.5e9, 4e-10, 1e-3, 0.0, 293.15]))
        kws.append([name, frac(v)])
    if rng.random() < 0.05:
        kws.append([rng.choice(["foo", "Density", "units_", "permeabilty"]), frac(1.0)])
    chain = [gen_units(rng, allow_bad=False) for _ in range(rng.randint(0, 2))]
    if rng.random() < 0.8:
        chain.append([])
    return {"kind": "constants", "cls": cls, "kwargs_units": gen_units(rng, allow_bad=False), "kwargs": kws, "chain": chain}


def gen_sim(rng, tier):
    pure = rng.random() < 0.5
    pick = (lambda: rng.choice(POW2)) if pure else (lambda: rng.choice(POW2 + [3.0, 10.0, 1e3, 1e-3, 0.75, 1e6, 1e-2]))
    units = {"m": pick(), "kg": pick()}
    for b in ("K", "mol", "rad"):
        if rng.random() < 0.3:
            units[b] = rng.choice(POW2)
    return {"kind": "sim", "units": units, "dp": rng.choice([1e5, 2.5e4, 0.0, 3e6]), "q": rng.choice([0.5, 0.0, 2.0, -0.25]),
            "perm": rng.choice([1e-11, 1e-13, 5e-10]), "poro": rng.choice([0.2, 0.05]), "compr": rng.choice([4e-10, 0.0, 1e-8]),
            "nsteps": rng.choice([1, 2]), "cell_size": rng.choice([0.5, 0.5, 0.25]), "state_seed": rng.randrange(10 ** 6),
            "model": "flow" if (tier == "quick" or rng.random() < 0.6) else "fractured",
            "fracture_indices": rng.choice([[0], [1], [0, 1]]), "frac_perm": rng.choice([1e-9, 1e-13]), "aperture": rng.choice([1e-3, 1e-2])}


_FIELDS = {}


def _class_fields(cls):
    if cls not in _FIELDS:
        import porepy as pp
        base = {"name", "units", "constants_in_SI", "_initialized"}
        _FIELDS[cls] = [f.name for f in dataclasses.fields(_cls(cls)) if f.name not in base]
    return _FIELDS[cls]


# ----------------------------------------------------------------------------- real code
def _units_out(u):
    return {"units": [frac(getattr(u, b)) for b in BASE]}


def impl_run(case):
    import porepy as pp
    kind = case["kind"]
    if kind == "sim":
        return {"sim": True}
    try:
        u = _mk_units(case["kwargs"] if kind != "constants" else case["kwargs_units"])
    except Exception as e:
        return [_err(e)]
    out = [_units_out(u)]
    if kind == "convert":
        conv = {"dims": (lambda d: None if d is None else [frac(x) for x in d])(_sym_dims(case["units"]))}
        try:
            r = u.convert_units(_value(case), case["units"], to_si=case["to_si"])
            conv["vals"] = _as_list(r)
        except Exception as e:
            conv.update(_err(e))
        out.append(conv)
    elif kind == "attrs":
        res = []
        for n in case["names"]:
            try:
                a = getattr(u, n)
                res.append({"val": frac(a)} if isinstance(a, (int, float)) else {"other": True})
            except Exception as e:
                res.append(_err(e))
        out.append(res)
    else:
        def stage(c):
            return {"vals": sorted([n, frac(getattr(c, n))] for n in _class_fields(case["cls"])),
                    "si": sorted([k, frac(v)] for k, v in c.constants_in_SI.items())}
        stages = []
        try:
            c = _cls(case["cls"])(units=u, **{k: float(Fraction(v)) for k, v in case["kwargs"]})
            stages.append(stage(c))
            for kw in case["chain"]:
                c = c.to_units(_mk_units(kw))
                stages.append(stage(c))
        except Exception as e:
            stages.append(_err(e))
        out.append(stages)
    return out


# ----------------------------------------------------------------------------- model
def _kw_wire(kwargs):
    return [[k, v] for k, v, _ in kwargs]


def model_ops(case):
    kind = case["kind"]
    if kind == "sim":
        return []
    if kind == "convert":
        return [{"op": "units", "kwargs": _kw_wire(case["kwargs"])},
                {"op": "convert", "units": case["units"], "values": case["values"], "to_si": case["to_si"]}]
    if kind == "attrs":
        return [{"op": "units", "kwargs": _kw_wire(case["kwargs"])}] + [{"op": "attr", "name": n} for n in case["names"]]
    return [{"op": "units", "kwargs": _kw_wire(case["kwargs_units"])},
            {"op": "constants", "cls": case["cls"], "kwargs": case["kwargs"], "chain": [_kw_wire(kw) for kw in case["chain"]]}]


def model_decode(outs, case):
    kind = case["kind"]
    if kind == "sim":
        return {"sim": True}
    if "err" in outs[0]:
        return [outs[0]]
    res = [outs[0]]
    if kind == "convert":
        o = dict(outs[1])
        if "bits" in o:
            o["float_vals"] = [struct.unpack("<d", struct.pack("<Q", int(b)))[0] for b in o.pop("bits")]
        res.append(o)
    elif kind == "attrs":
        res.append(outs[1:])
    else:
        st = outs[1]
        if isinstance(st, dict):
            st = [st]
        res.append([s if "err" in s else {"vals": sorted(s["vals"]), "si": sorted(s["si"])} for s in st])
    return res


def _exact(case):
    """all scalings powers of two, every exponent an integer, no irrational coefficient: binary64 is exact"""
    kws = case["kwargs"] if case["kind"] != "constants" else case["kwargs_units"]
    return all(v is not None and _is_pow2(v) for _, v, _ in kws)


def compare(impl, model, case):
    kind = case["kind"]
    if kind == "sim":
        return None
    if isinstance(impl, dict) and "harness_exc" in impl:
        return f"impl_run crashed: {impl['harness_exc']}"
    if len(impl) != len(model):
        return f"stage count {len(impl)} vs {len(model)}: impl {str(impl)[:200]} model {str(model)[:200]}"
    if "err" in impl[0] or "err" in model[0]:
        return None if impl[0] == model[0] else f"Units(**kwargs): impl {impl[0]} model {model[0]}"
    d = common.deep_compare(impl[0], model[0], "units")
    if d:
        return d
    exact = _exact(case)
    if kind == "convert":
        a, b = impl[1], model[1]
        if (a["dims"] is None) != (b["dims"] is None):
            return f"dims: impl {a['dims']} model {b['dims']}"
        if a["dims"] is not None:
            d = common.deep_compare(a["dims"], b["dims"], "dims", tol=1e-12)
            if d:
                return d
        if "err" in a or "err" in b:
            return None if a.get("err") == b.get("err") else f"convert_units({case['units']!r}): impl {a.get('err', 'ok')} model {b.get('err', 'ok')}"
        mv = b["float_vals"] if "float_vals" in b else b["vals"]
        if len(mv) != len(a["vals"]):
            return f"number of values {len(a['vals'])} vs {len(mv)}"
        uses_pi = "degree" in case["units"].replace(" ", "")
        for x, y in zip(a["vals"], mv):
            if exact and "float_vals" not in b and not uses_pi:
                if Fraction(x) != Fraction(y):
                    return f"convert_units({case['units']!r}) exact: impl {x} model {y}"
            elif not _relclose(x, y, 1e-12):
                return f"convert_units({case['units']!r}): impl {float(Fraction(x))!r} model {float(Fraction(y))!r}"
        return None
    if kind == "attrs":
        for n, x, y in zip(case["names"], impl[1], model[1]):
            if set(x) != set(y):
                return f"getattr {n!r}: impl {x} model {y}"
            if "val" in x:
                if (exact and n != "degree" and Fraction(x["val"]) != Fraction(y["val"])) or not _relclose(x["val"], y["val"], 1e-13):
                    return f"getattr {n!r}: impl {x['val']} model {y['val']}"
            elif x != y:
                return f"getattr {n!r}: impl {x} model {y}"
        return None
    a, b = impl[1], model[1]
    if len(a) != len(b):
        return f"constants stages {len(a)} vs {len(b)}: {str(a[-1])[:100]} / {str(b[-1])[:100]}"
    for i, (x, y) in enumerate(zip(a, b)):
        if "err" in x or "err" in y:
            if x != y:
                return f"constants stage {i}: impl {str(x)[:120]} model {str(y)[:120]}"
            continue
        d = common.deep_compare(x["si"], y["si"], f"stage{i}.si")
        if d:
            return d
        stage_kw = case["kwargs_units"] if i == 0 else case["chain"][i - 1]
        ex = all(_is_pow2(v) for _, v, _ in stage_kw)
        d = common.deep_compare(x["vals"], y["vals"], f"stage{i}.vals", tol=None if ex else 1e-12) if ex else None
        if not ex:
            for (n1, v1), (n2, v2) in zip(x["vals"], y["vals"]):
                if n1 != n2 or not _relclose(v1, v2, 1e-12):
                    return f"stage{i}.{n1}: impl {v1} model {n2} {v2}"
        if d:
            return d
    return None


# ----------------------------------------------------------------------------- oracle
SI_DIMS = {  # what the derived SI units are (physics, not read from the code)
    "N": {"kg": 1, "m": 1, "s": -2}, "Pa": {"kg": 1, "m": -1, "s": -2}, "J": {"kg": 1, "m": 2, "s": -2}, "W": {"kg": 1, "m": 2, "s": -3},
}
EXPANDED = {"N": "kg * m * s^-2", "Pa": "kg * m^-1 * s^-2", "J": "kg * m^2 * s^-2", "W": "kg * m^2 * s^-3"}
FIELD_DIMS = {  # physical dimension of the material constants (kg, m, s, K, mol, rad), independent of SI_units
    "density": "kg m-3", "molar_mass": "kg mol-1", "critical_pressure": "kg m-1 s-2", "critical_temperature": "K",
    "critical_specific_volume": "m3 kg-1", "acentric_factor": "", "compressibility": "kg-1 m s2",
    "specific_heat_capacity": "m2 s-2 K-1", "thermal_expansion": "K-1", "viscosity": "kg m-1 s-1",
    "thermal_conductivity": "kg m s-3 K-1", "normal_thermal_conductivity": "kg m s-3 K-1", "biot_coefficient": "",
    "dilation_angle": "rad", "fracture_gap": "m", "fracture_normal_stiffness": "kg m-2 s-2", "fracture_tangential_stiffness": "kg m-2 s-2",
    "friction_coefficient": "", "lame_lambda": "kg m-1 s-2", "maximum_elastic_fracture_opening": "m", "normal_permeability": "m2",
    "permeability": "m2", "porosity": "", "residual_aperture": "m", "shear_modulus": "kg m-1 s-2", "skin_factor": "",
    "specific_storage": "kg-1 m s2", "well_radius": "m", "initial_dilation_damage": "", "initial_friction_damage": "",
    "dilation_damage_decay": "", "friction_damage_decay": "", "characteristic_displacement": "m",
    "characteristic_contact_traction": "kg m-1 s-2", "open_state_tolerance": "", "pressure": "kg m-1 s-2", "temperature": "K",
}


def _dim_factor(u, spec):
    """exact value of prod base^exp for a spec like 'kg m-1 s-2' (Fractions of the binary64 scalings)"""
    f = Fraction(1)
    for tok in spec.split():
        i = 0
        while i < len(tok) and tok[i].isalpha():
            i += 1
        f *= Fraction(getattr(u, tok[:i])) ** int(tok[i:] or 1)
    return f


def _fail(what, key):
    return {"what": what, "key": key}


def _oracle_units_stored(u, kwargs, tag):
    kw = _units_kwargs(kwargs)
    for b in BASE:
        want = kw.get(b, 1)
        got = getattr(u, b, None)
        if got != want:
            return _fail(f"Units({tag}).{b} = {got!r}, expected {want!r}", f"units-base-{b}-not-stored")
    return None


def _oracle_derived(u, tag):
    try:
        g = {b: Fraction(getattr(u, b)) for b in BASE}
        for name, dims in SI_DIMS.items():
            want = Fraction(1)
            for b, e in dims.items():
                want *= g[b] ** e
            got = getattr(u, name)
            if not _relclose(got, want, 1e-13):
                return _fail(f"Units({tag}).{name} = {got!r}, base-unit expression gives {float(want)!r}", f"derived-{name}-inconsistent")
        checks = [("Pa", u.N / u.m ** 2, "N/m^2"), ("J", u.N * u.m, "N*m"), ("W", u.J / u.s, "J/s")]
        for name, want, txt in checks:
            if not _relclose(getattr(u, name), want, 1e-13):
                return _fail(f"Units({tag}).{name} = {getattr(u, name)!r} but {txt} = {want!r}", f"derived-{name}-inconsistent")
        if not _relclose(u.degree, Fraction(u.rad) * 180 / Fraction(np.pi), 1e-13):
            return _fail(f"Units({tag}).degree = {u.degree!r} but rad*180/pi = {u.rad * 180 / np.pi!r}", "derived-degree-inconsistent")
    except Exception as e:
        return _fail(f"a derived unit of Units({tag}) could not be evaluated: {type(e).__name__}: {e}", "derived-raises")
    for name, exp in EXPANDED.items():
        for to_si in (False, True):
            try:
                a, b = u.convert_units(3.5, name, to_si=to_si), u.convert_units(3.5, exp, to_si=to_si)
            except Exception as e:
                return _fail(f"convert_units(3.5, {name!r}) / convert_units(3.5, {exp!r}) raised {type(e).__name__}: {e} (Units({tag}))", f"derived-{name}-string-raises")
            if not _relclose(a, b, 1e-13):
                return _fail(f"convert_units(3.5, {name!r}, to_si={to_si}) = {a!r} but with {exp!r} it is {b!r} (Units({tag}))", f"derived-{name}-string-inconsistent")
    try:
        a, b = u.convert_units(180.0, "degree"), u.convert_units(float(np.pi), "rad")
    except Exception as e:
        return _fail(f"convert_units(180, 'degree') / convert_units(pi, 'rad') raised {type(e).__name__}: {e}", "degree-raises")
    if not _relclose(a, b, 1e-13):
        return _fail(f"180 degrees -> {a!r} simulation units but pi rad -> {b!r} (Units({tag}))", "degree-not-pi-rad")
    for form in ("", "1", "-", " "):
        try:
            r = u.convert_units(3.5, form)
        except Exception as e:
            return _fail(f"convert_units(3.5, {form!r}) raised {type(e).__name__}", "dimensionless-raises")
        if r != 3.5:
            return _fail(f"convert_units(3.5, {form!r}) = {r!r}", "dimensionless-changes-value")
    return None


def _oracle_convert(case):
    try:
        u = _mk_units(case["kwargs"])
    except Exception:
        return None
    tag = ", ".join(f"{k}={v}" for k, v in _units_kwargs(case["kwargs"]).items())
    o = _oracle_units_stored(u, case["kwargs"], tag) or _oracle_derived(u, tag)
    if o:
        return o
    s, to_si = case["units"], case["to_si"]
    v0 = _value(case)
    keep = np.array(v0, copy=True) if isinstance(v0, np.ndarray) else v0
    tol = 1e-12
    try:
        w = u.convert_units(v0, s, to_si=to_si)
    except Exception as e:
        if case["vtype"] == "intarray":
            # would a float array have been accepted?  then an integer array must be, too (property: ANY value)
            try:
                u.convert_units(np.asarray(v0, dtype=float), s, to_si=to_si)
            except Exception:
                return None
            return _fail(f"convert_units(np.array({[int(x) for x in v0]}), {s!r}, to_si={to_si}) raises {type(e).__name__} "
                         f"(the same values as floats convert)", "convert-int-array-raises")
        return None
    if isinstance(v0, np.ndarray):
        if not np.array_equal(v0, keep):
            return _fail(f"convert_units modified its input array ({s!r})", "convert-mutates-input")
        if w is v0:
            return _fail(f"convert_units returned its input array object ({s!r})", "convert-returns-input")
    # 1. round trip
    try:
        back = u.convert_units(w, s, to_si=not to_si)
    except Exception as e:
        if case["vtype"] == "intarray" and isinstance(w, np.ndarray) and w.dtype.kind == "i":
            return _fail(f"convert_units(np.array({[int(x) for x in np.atleast_1d(w)]}), {s!r}, to_si={not to_si}) raises {type(e).__name__} "
                         f"(the same values as floats convert)", "convert-int-array-raises")
        return _fail(f"convert_units({s!r}) succeeds with to_si={to_si} but raises {type(e).__name__} the other way", "roundtrip-raises")
    for a, b in zip(np.atleast_1d(keep), np.atleast_1d(back)):
        if not _relclose(a, b, tol):
            return _fail(f"round trip with {s!r} (Units({tag})): {float(a)!r} -> {float(b)!r}", "roundtrip")
    # 2. the value is value / prod(base^dim) with the dimension the SAME code assigns symbolically, and linear
    dims = _sym_dims(s)
    if dims is not None and all(d.denominator == 1 for d in dims) and "degree" not in s.replace(" ", ""):
        f = Fraction(1)
        for b, d in zip(BASE, dims):
            f *= Fraction(getattr(u, b)) ** int(d)
        for a, r in zip(np.atleast_1d(keep), np.atleast_1d(w)):
            want = Fraction(float(a)) * f if to_si else Fraction(float(a)) / f
            if not _relclose(r, want, tol):
                return _fail(f"convert_units({float(a)!r}, {s!r}, to_si={to_si}) = {float(r)!r}, base-unit monomial gives {float(want)!r} (Units({tag}))", "monomial")
    # 3. composition at every '*'
    st = s.replace(" ", "")
    parts = st.split("*")
    if len(parts) >= 2 and st not in ("", "1", "-"):
        for i in range(1, len(parts)):
            a, b = "*".join(parts[:i]), "*".join(parts[i:])
            if a in ("", "1", "-") or b in ("", "1", "-"):
                continue
            try:
                step = u.convert_units(u.convert_units(_value(case), a, to_si=to_si), b, to_si=to_si)
            except Exception as e:
                return _fail(f"convert_units with {s!r} succeeds but composing {a!r} then {b!r} raises {type(e).__name__}", "compose-raises")
            for x, y in zip(np.atleast_1d(w), np.atleast_1d(step)):
                if not _relclose(x, y, 1e-13):
                    return _fail(f"convert_units with {a!r}*{b!r} gives {float(x)!r}, composing the two gives {float(y)!r}", "compose")
    # 4. exponent addition for one symbol (which one rotates with the case)
    syms = BASE + DERIVED
    sym = syms[(len(s) + len(case["values"]) + len(case["kwargs"])) % len(syms)]
    pairs = [(f"{sym}^2*{sym}^-3", f"{sym}^-1"), (f"{sym}^1*{sym}^1", f"{sym}^2"), (f"{sym}^-2*{sym}^-1", f"{sym}^-3"),
             (f"{sym}*{sym}", f"{sym}^2"), (f"{sym} * {sym} * {sym}", f"{sym}^3"), (f"{sym}^2*{sym}", f"{sym}^3"),
             (f"{sym}*{sym}^-3", f"{sym}^-2"), (f"kg * {sym}^-3 * {sym}", f"kg*{sym}^-2")]
    for lhs, rhs in pairs:
        try:
            x = u.convert_units(2.5, lhs, to_si=to_si)
            y = u.convert_units(2.5, rhs, to_si=to_si)
        except Exception as e:
            return _fail(f"convert_units(2.5, {lhs!r}) or {rhs!r} raised {type(e).__name__}: {e}", "exponent-add-raises")
        if not _relclose(x, y, 1e-13):
            return _fail(f"convert_units(2.5, {lhs!r}) = {x!r} but {rhs!r} gives {y!r} (Units({tag}))", "exponent-add")
    return None


def _oracle_constants(case):
    import porepy as pp
    try:
        u = _mk_units(case["kwargs_units"])
        systems = [u] + [_mk_units(kw) for kw in case["chain"]] + [pp.Units()]
        cls = _cls(case["cls"])
        kw = {k: float(Fraction(v)) for k, v in case["kwargs"]}
        fields = _class_fields(case["cls"])
        if any(k not in fields for k in kw):
            return None
        c = cls(units=u, **kw)
    except Exception as e:
        return _fail(f"{case['cls']}(units=.., **{case['kwargs']}) raised {type(e).__name__}: {e}", "constants-construct-raises")
    si0 = dict(c.constants_in_SI)
    for k, v in kw.items():
        if si0.get(k) != v:
            return _fail(f"{case['cls']}: constants_in_SI[{k!r}] = {si0.get(k)!r}, given {v!r}", "constants-si-lost")
    for i, us in enumerate(systems):
        if i > 0:
            try:
                c = c.to_units(us)
            except Exception as e:
                return _fail(f"{case['cls']}.to_units raised {type(e).__name__}: {e}", "constants-to-units-raises")
        if dict(c.constants_in_SI) != si0:
            return _fail(f"{case['cls']}: constants_in_SI changed by to_units (step {i})", "constants-si-lost")
        if c.units is not us:
            return _fail(f"{case['cls']}.to_units did not set the unit system", "constants-units-not-set")
        last = i == len(systems) - 1
        for n in fields:
            v_si, got = si0[n], getattr(c, n)
            unit = type(c).SI_units[n]
            try:
                back = us.convert_units(got, unit, to_si=True)
            except Exception as e:
                return _fail(f"{case['cls']}.{n}: convert_units({got!r}, {unit!r}, to_si=True) raised {type(e).__name__}", "constants-roundtrip-raises")
            if not _relclose(back, v_si, 1e-12):
                return _fail(f"{case['cls']}.{n}: SI value {v_si!r} stored as {got!r}, converts back to {back!r}", "constants-roundtrip")
            if last and got != v_si:
                return _fail(f"{case['cls']}.{n}: after to_units(pp.Units()) the value is {got!r}, SI value {v_si!r}", "constants-back-to-si")
            if n in FIELD_DIMS:
                want = Fraction(v_si) / _dim_factor(us, FIELD_DIMS[n])
                if not _relclose(got, want, 1e-12):
                    return _fail(f"{case['cls']}.{n} (SI unit {unit!r}): SI value {v_si!r} stored as {got!r}, its physical dimension "
                                 f"[{FIELD_DIMS[n]}] gives {float(want)!r}", f"constants-dimension-{n}")
    return None


# --- simulation ---------------------------------------------------------------------------------
_SIM = {}


def _sim_class():
    if "cls" in _SIM:
        return _SIM["cls"]
    import porepy as pp

    class Flow(pp.SinglePhaseFlow):
        """tiny compressible single-phase flow problem, all inputs given in SI and converted with self.units"""

        def bc_type_darcy_flux(self, sd):
            s = self.domain_boundary_sides(sd)
            return pp.BoundaryCondition(sd, s.east | s.west, "dir")

        def bc_type_fluid_flux(self, sd):
            s = self.domain_boundary_sides(sd)
            return pp.BoundaryCondition(sd, s.east | s.west, "dir")

        def bc_values_pressure(self, bg):
            vals = self.reference_variable_values.pressure * np.ones(bg.num_cells)
            vals[self.domain_boundary_sides(bg).east] += self.units.convert_units(self.params["c43_dp"], "Pa")
            return vals

        def fluid_source(self, sds):
            src = super().fluid_source(sds)
            # 2d model = per unit thickness: kg m^-1 s^-1
            q = self.units.convert_units(self.params["c43_q"], "kg * m^-1 * s^-1")
            v = np.concatenate([np.arange(1, sd.num_cells + 1) * q for sd in sds])
            return src + pp.wrap_as_dense_ad_array(v, name="c43_source")

        def solve_linear_system(self):
            # Choosing units IS a row/column scaling of the Jacobian.  The default sparse LU (SuperLU via scipy) is not
            # invariant under it: with m = 1000 the mixed-dimensional Jacobian has condition number ~1e29 in the raw units
            # (1e16 already unscaled, from the different magnitudes of the equations) and spsolve returns garbage, with
            # m = 1024 it happens to pivot as in the unscaled run.  The property is about the discrete equations, so both
            # runs solve the row/column-equilibrated system (two sweeps), which is the same matrix up to rounding.
            import scipy.sparse as sps
            import scipy.sparse.linalg as spla
            A, b = self.linear_system
            A = sps.csr_matrix(A)
            dr, dc = np.ones(A.shape[0]), np.ones(A.shape[1])
            for _ in range(2):
                B = sps.diags(dr) @ A @ sps.diags(dc)
                rmax = np.asarray(abs(B).max(axis=1).todense()).ravel()
                dr = dr / np.where(rmax > 0, rmax, 1.0)
                B = sps.diags(dr) @ A @ sps.diags(dc)
                cmax = np.asarray(abs(B).max(axis=0).todense()).ravel()
                dc = dc / np.where(cmax > 0, cmax, 1.0)
            B = (sps.diags(dr) @ A @ sps.diags(dc)).tocsc()
            y = spla.spsolve(B, dr * b)
            return np.atleast_1d(dc * y)

        def check_convergence(self, nonlinear_increment, residual, reference_residual, nl_params):
            # the built-in criterion compares unit-dependent norms with fixed tolerances; here: at least 3 Newton
            # iterations and a unit-invariant criterion (increment relative to the iterate, per variable block, 1e-12),
            # at most 15 iterations; whether the two runs then agree is what the oracle checks
            self._c43_it = getattr(self, "_c43_it", 0) + 1
            if np.any(np.isnan(nonlinear_increment)):
                self._c43_it = 0
                return False, True
            x = self.equation_system.get_variable_values(iterate_index=0)
            rel = 0.0
            for var in self.equation_system.variables:
                ind = self.equation_system.dofs_of([var])
                ref = max(np.max(np.abs(x[ind])), 1e-300) if ind.size else 1.0
                if ind.size:
                    rel = max(rel, float(np.max(np.abs(nonlinear_increment[ind])) / ref))
            self._c43_rel = rel
            # variables that vanish identically (no pressure drop, no source) never satisfy a relative criterion: cap at 15
            done = self._c43_it >= 3 and (rel < 1e-12 or self._c43_it >= 15)
            if done:
                self._c43_it = 0
            return done, False

    from porepy.applications.md_grids.model_geometries import SquareDomainOrthogonalFractures

    class FracturedFlow(SquareDomainOrthogonalFractures, Flow):
        """the same problem in a unit square cut by one or two orthogonal fractures (mixed-dimensional: 2d matrix,
        1d fractures, 0d intersection, interface fluxes)"""

    _SIM["cls"] = Flow
    _SIM["fractured"] = FracturedFlow
    return Flow


def _sim_model(case, units):
    import porepy as pp
    fractured = case.get("model", "flow") == "fractured"
    solid = pp.SolidConstants(permeability=case["perm"], porosity=case["poro"], specific_storage=2e-9,
                              **({"normal_permeability": case["frac_perm"], "residual_aperture": case["aperture"]} if fractured else {}))
    fluid = pp.FluidComponent(density=1000.0, viscosity=1e-3, compressibility=case["compr"])
    ref = pp.ReferenceVariableValues(pressure=1e5)
    u = pp.Units(**units)
    params = {"times_to_export": [], "material_constants": {"solid": solid, "fluid": fluid}, "reference_variable_values": ref,
              "units": u, "c43_dp": case["dp"], "c43_q": case["q"],
              "meshing_arguments": {"cell_size": u.convert_units(case["cell_size"], "m")},
              "time_manager": pp.TimeManager([0, 10.0 * case["nsteps"]], 10.0, constant_dt=True)}
    _sim_class()
    if fractured:
        params["fracture_indices"] = case["fracture_indices"]
        return _SIM["fractured"](params)
    return _SIM["cls"](params)


def _sim_run(case, units):
    import porepy as pp
    with warnings.catch_warnings():
        warnings.simplefilter("ignore")
        m = _sim_model(case, units)
        pp.run_time_dependent_model(m, {"max_iterations": 30, "nl_convergence_tol": 1e-10, "nl_convergence_tol_res": 1e-10})
    sds = m.mdg.subdomains()
    p = m.equation_system.get_variable_values(variables=[m.pressure_variable], time_step_index=0)
    out = {"pressure": m.units.convert_units(p, "Pa", to_si=True)}
    if m.mdg.interfaces():
        lam = m.equation_system.get_variable_values(variables=[m.interface_darcy_flux_variable], time_step_index=0)
        out["interface_darcy_flux"] = m.units.convert_units(lam, "Pa * m^2 * s^-1", to_si=True)
    for name, unit in (("darcy_flux", "Pa * m^2 * s^-1"), ("fluid_flux", "kg * m^-1 * s^-1")):
        out[name] = m.units.convert_units(m.equation_system.evaluate(getattr(m, name)(sds)), unit, to_si=True)
    return out


def _sim_residual(case, units, p_si):
    with warnings.catch_warnings():
        warnings.simplefilter("ignore")
        m = _sim_model(case, units)
        m.prepare_simulation()
        m.equation_system.set_variable_values(m.units.convert_units(p_si.copy(), "Pa"), iterate_index=0)
        m.before_nonlinear_iteration()
        m.assemble_linear_system()
        # mass balance per unit thickness: kg m^-1 s^-1
        return m.units.convert_units(np.array(m.linear_system[1], dtype=float), "kg * m^-1 * s^-1", to_si=True)


def _oracle_sim(case):
    tag = ", ".join(f"{k}={v}" for k, v in case["units"].items())
    try:
        ref = _sim_run(case, {})
        scaled = _sim_run(case, case["units"])
    except Exception as e:
        return _fail(f"SinglePhaseFlow with Units({tag}) raised {type(e).__name__}: {str(e)[:200]}", "sim-raises")
    # natural magnitudes (SI) of the fields, so that an identically vanishing field (dp = 0, q = 0: the fluxes are rounding
    # noise around zero) is not compared relative to its own noise: k/mu * p_ref, times rho for the mass flux
    nat = case["perm"] / 1e-3 * 1e5
    floor = {"pressure": 1e5, "darcy_flux": nat, "interface_darcy_flux": nat, "fluid_flux": 1e3 * nat}
    for name in ref:
        a, b = ref[name], scaled[name]
        scale = max(np.max(np.abs(a)), 1e-6 * floor[name])
        if a.shape != b.shape or not np.all(np.isfinite(b)) or np.max(np.abs(a - b)) > 1e-8 * scale:
            dev = float(np.max(np.abs(a - b)) / scale) if a.shape == b.shape else float("nan")
            return _fail(f"SinglePhaseFlow with Units({tag}): {name} in SI differs from the unscaled run by {dev:.3e} relative "
                         f"(dp={case['dp']}, q={case['q']}, perm={case['perm']}, steps={case['nsteps']})", f"sim-{name}-not-invariant")
    if case.get("model", "flow") == "fractured":
        return None  # several equations with different scalings T: only the solutions are compared
    # hypothesis of scaled_roots: R'(S x) = T R(x) at a random state
    rs = np.random.default_rng(case["state_seed"])
    p = 1e5 * (1 + rs.random(ref["pressure"].size))
    try:
        r0, r1 = _sim_residual(case, {}, p), _sim_residual(case, case["units"], p)
    except Exception as e:
        return _fail(f"SinglePhaseFlow with Units({tag}): residual assembly raised {type(e).__name__}: {str(e)[:200]}", "sim-raises")
    scale = max(np.max(np.abs(r0)), 1e-300)
    if np.max(np.abs(r0 - r1)) > 1e-8 * scale:
        return _fail(f"SinglePhaseFlow with Units({tag}): residual at a random state is not the scaled residual "
                     f"(relative deviation {float(np.max(np.abs(r0 - r1)) / scale):.3e})", "sim-residual-not-scaled")
    return None


def oracle(case):
    kind = case["kind"]
    if kind == "convert":
        return _oracle_convert(case)
    if kind == "attrs":
        try:
            u = _mk_units(case["kwargs"])
        except Exception:
            return None
        tag = ", ".join(f"{k}={v}" for k, v in _units_kwargs(case["kwargs"]).items())
        return _oracle_units_stored(u, case["kwargs"], tag) or _oracle_derived(u, tag)
    if kind == "constants":
        return _oracle_constants(case)
    return _oracle_sim(case)


# ----------------------------------------------------------------------------- bookkeeping
def nontrivial(case):
    if case["kind"] == "convert":
        st = case["units"].replace(" ", "")
        return st.count("*") >= 1 and _sym_dims(case["units"]) is not None
    if case["kind"] == "constants":
        return len(case["chain"]) >= 1
    return True


def shrink_candidates(case):
    if case["kind"] == "convert":
        parts = case["units"].split("*")
        for i in range(len(parts)):
            if len(parts) > 1:
                yield dict(case, units="*".join(parts[:i] + parts[i + 1:]))
        for i in range(len(case["kwargs"])):
            yield dict(case, kwargs=case["kwargs"][:i] + case["kwargs"][i + 1:])
        if len(case["values"]) > 1:
            yield dict(case, values=case["values"][:1], vtype="float" if case["vtype"] == "array" else case["vtype"])
    elif case["kind"] == "constants":
        for i in range(len(case["kwargs"])):
            yield dict(case, kwargs=case["kwargs"][:i] + case["kwargs"][i + 1:])
        for i in range(len(case["chain"])):
            yield dict(case, chain=case["chain"][:i] + case["chain"][i + 1:])
        for i in range(len(case["kwargs_units"])):
            yield dict(case, kwargs_units=case["kwargs_units"][:i] + case["kwargs_units"][i + 1:])
    elif case["kind"] == "attrs":
        for i in range(len(case["kwargs"])):
            yield dict(case, kwargs=case["kwargs"][:i] + case["kwargs"][i + 1:])
    elif case["kind"] == "sim":
        for b in ("K", "mol", "rad", "kg", "m"):
            if b in case["units"]:
                yield dict(case, units={k: v for k, v in case["units"].items() if k != b})
        if case["nsteps"] > 1:
            yield dict(case, nsteps=1)
        if case["cell_size"] != 0.5:
            yield dict(case, cell_size=0.5)
        if case.get("model") == "fractured":
            yield dict(case, model="flow")
            if len(case["fracture_indices"]) > 1:
                yield dict(case, fracture_indices=case["fracture_indices"][:1])


def stats(cases, impl_outs):
    kinds = {}
    for c in cases:
        kinds[c["kind"]] = kinds.get(c["kind"], 0) + 1
    conv = [(c, o) for c, o in zip(cases, impl_outs) if c["kind"] == "convert" and isinstance(o, list)]
    errs = {}
    nf = {}
    for c, o in conv:
        k = o[0].get("err") if "err" in o[0] else (o[1].get("err", "ok") if len(o) > 1 else "?")
        errs[k] = errs.get(k, 0) + 1
        n = c["units"].replace(" ", "").count("*") + 1
        nf[n] = nf.get(n, 0) + 1
    return {"kinds": kinds, "convert_outcomes": errs, "convert_factor_counts": {str(k): v for k, v in sorted(nf.items())},
            "convert_exact_compared": sum(1 for c, _ in conv if _exact(c)), "convert_fractional_exponent": sum(1 for c, _ in conv if any(f"^{e}" in c["units"].replace(" ", "") for e in FRAC_EXPS)),
            "convert_dimensionless_forms": sum(1 for c, _ in conv if c["units"].replace(" ", "") in ("", "1", "-")),
            "value_types": {t: sum(1 for c, _ in conv if c["vtype"] == t) for t in ("float", "int", "array", "intarray")},
            "constants_classes": {k: sum(1 for c in cases if c.get("cls") == k) for k in CLASSES},
            "sim_units": [c["units"] for c in cases if c["kind"] == "sim"][:10]}
