"""C47 Fracture network and data files round-trip (csv 2-D / 3-D, txt).

Real code: porepy.fracs.fracture_importer.{network_2d_from_csv, network_3d_from_csv},
FractureNetwork2d.to_csv (+ the point table built by linefractures_to_pts_edges), FractureNetwork3d.to_csv,
porepy.utils.txt_io.{TxtData, export_data_to_txt, read_data_from_txt}.
Lean model: lean/PorepyVerif/C47/Model.lean (record layer, abstract token codec).
"""
import math
import re
import tempfile
import warnings
from fractions import Fraction

import numpy as np

from harness.common import frac, err_kind, deep_compare

PID = "C47"
THEOREMS = [
    "PorepyVerif.C47.csv2d_file",
    "PorepyVerif.C47.csv2d_roundtrip",
    "PorepyVerif.C47.csv3d_transparent",
    "PorepyVerif.C47.csv3d_roundtrip",
    "PorepyVerif.C47.csv3d_roundtrip_upto",
    "PorepyVerif.C47.txt_roundtrip_rounded",
    "PorepyVerif.C47.txt_roundtrip",
    "PorepyVerif.C47.polyline_read",
    "PorepyVerif.C47.dihedral_equivalence",
    "PorepyVerif.C47.angSort_dihedral",
    "PorepyVerif.C47.angSort_fixed",
    "PorepyVerif.C47.csv3d_roundtrip_dihedral",
    "PorepyVerif.C47.csv3d_roundtrip_sorted",
    "PorepyVerif.C47.elliptic_transparent",
    "PorepyVerif.C47.csv2d_roundtrip_tol",
    "PorepyVerif.C47.csv2d_roundtrip_max",
    "PorepyVerif.C47.txt_roundtrip_dict",
]
LEAN_MODULES = ["PorepyVerif.C47.Props"]
AUDIT = "PorepyVerif/C47/Audit.lean"
DRIVER = "PorepyVerif/C47/Driver.lean"
N = {"quick": 300, "thorough": 12000}

KEY_RTOL = "csv2d-endpoint-merged-by-default-rtol"
KEY_TXT_1COL = "txt-single-column-collapses-to-first-value"
KEY_TXT_1ROW = "txt-single-row-gives-0d-scalars"
KEY_TXT_1X1 = "txt-one-by-one-raises-typeerror"
KEY_TXT_0ROW = "txt-zero-rows-loses-all-names"

RULE = ("six case kinds. csv2d (32%): 0-8 (thorough 0-25) line fractures over a point pool with shared end points, tags, optional domain, tol in {1e-8,1e-4,1e-2}; "
        "coordinate styles: small dyadics, generic doubles (1/3, 1e-17, uniform), UTM-like (5e5, 6.7e6); flavours: plain (distinct points >= 8 tol apart and not np.allclose), "
        "jitter (twins within tol/8: the network's own table merges them), rtol (twins farther than tol but np.allclose with numpy's default rtol), "
        "reader-merge (reader tol larger than the twin distance); written with/without header, read with skip_header 0/1/2, max_num_fracs, tagcols, polyline, domain options. "
        "raw2d (20%): hand-made csv text: format 1 with 0-2 tag columns (declared, undeclared, out of range), polyline format with blocks of 1,2,3+ points (contiguous or interleaved ids, unsorted ids), "
        "comments, blank lines, ragged rows, zero-length and near-zero-length edges, rows the LineFracture constructor rejects, one-column rows. "
        "csv3d (20%): 0-5 planar convex polygons with 3-8 vertices (generic doubles, vertex cycle in random rotation/orientation, built with sort_points True/False), optional domain, has_domain matching or not. "
        "raw3d (10%): hand-made 3-D csv text with comments, blank lines, missing/short domain line, undecodable cells, coordinate counts not divisible by 3, fewer than 3 points. "
        "txt (15%): 0-5 named arrays of 0-6 values, formats %2.2e (default), %5.3e, %.3f, %g, %.15e, %.16e, %.17e, %.17g; names over letters/digits/_#.-, sometimes a leading #, duplicates, unequal lengths. "
        "ell3d (8%): hand-made elliptic csv text: 0-3 rows of nine parameters, rows of 8 or 18 numbers, undecodable cells, comments, blank lines, "
        "domain line present / missing / short / blank / a comment, degrees on or off. "
        "csv3d cases with a truthful has_domain carry the angle keys of PlaneFracture's sort (computed with the real local_coordinates) so that vertex lists are compared exactly. "
        "non-trivial = a round trip of at least two fractures / two values; distinct = distinct cases")
TRUSTED = [
    "the text layer is checked, not proved: csv.writer/str(np.float64)/str(int), np.genfromtxt, csv.reader + np.asarray(dtype=float), np.savetxt with %-formats, np.loadtxt; "
    "the harness verifies on every written number that float(token) == value (faithful formats) and parses the files itself with split(',') / split()",
    "modelled, not verified: uniquify_point_set is modelled by the greedy first-representative table (equal to it when 'within tol' is transitive on the point set; C34 covers the function itself); "
    "generated point sets keep that margin and are checked against a simulation of the norm pre-clustering so that the open C34 finding cannot interfere",
    "parameters of the model, instantiated over exact rationals in the driver: np.allclose(atol=tol) as |dx|<=tol and |dy|<=tol, squared distance < tol^2, "
    "LineFracture's np.isclose test with numpy's default rtol=1e-5/atol=1e-8; PlaneFracture's constructor (vertex sorting, planarity, convexity) is the abstract function `norm` "
    "(driver: at least 3 vertices, vertices kept); read-back vertex lists are compared up to rotation/reflection of the vertex cycle",
    "not modelled: genfromtxt storing nan for undecodable cells (the model stops with DecodeError; no such case is generated), kwargs delimiter/domain_overlap, "
    "non-ASCII whitespace in txt names, 2-D arrays in TxtData, dfm_from_gmsh",
    "the angle key of PlaneFracture.sort_points (local_coordinates: plane projection matrix, centring, arctan2) and create_elliptic_fracture are parameters of the model: the harness obtains the keys "
    "from the real local_coordinates and records the arguments create_elliptic_fracture receives (angle scaling data*pi/180 and int(num_points) are replayed in Python); "
    "that a convex planar polygon given in cyclic order has cyclically monotone angles about its centroid is the hypothesis CyclicMono, not proved",
]
EXPLANATION = ("FULL modulo the number codec. Theorems hold for every token codec with dec(enc v) = v. csv2d_roundtrip: ORDERED list of (start,end) pairs, same order and orientation, ids 0..n-1, "
               "domain = the argument or the bounding box; tags and domain are not stored in the 2-D file (the reader returns no tags). "
               "polyline_read: reader's specification of format 2 (no writer exists): polylines with pairwise different ascending ids and >= 2 points each come back, in turn, as their consecutive point pairs "
               "(neighbouring fractures share an end point), each with its polyline's id. "
               "csv3d: the reader hands PlaneFracture's constructor exactly the stored vertex lists in order (csv3d_transparent). The constructor's vertex normalisation is modelled as the sort by an angle key "
               "(a binary64, i.e. a rational) that the constructor derives from the list it is given; the key function itself (SVD-based local frame + arctan2) is float-dependent and stays a parameter. "
               "angSort_dihedral: on a polygon seen in cyclic order by its key the sort returns the same vertex CYCLE up to rotation/reflection; Dihedral is an equivalence relation (dihedral_equivalence), so any number "
               "of write/read passes stays in the class; csv3d_roundtrip_dihedral is the round trip up to that symmetry, csv3d_roundtrip_sorted the exact one when the key function is reproduced "
               "(observed: about 2% of triangles come back rotated/reflected because the local frame flips; the correspondence check reproduces each of them exactly from the keys). "
               "elliptic_transparent: reader's specification of elliptic files (nine numbers per row reach create_elliptic_fracture unchanged, row by row). "
               "txt: TxtData.format is an explicit, user-facing precision parameter (tests use %5.3e with assert_allclose), so the lossy default %2.2e is not counted as a defect: "
               "txt_roundtrip states exact equality for faithful formats (>= 17 significant digits, verified per value), txt_roundtrip_rounded states that with any format the value read is rnd(v) = float(fmt % v) "
               "(oracle: equal to that, and within 0.5 unit of the last printed digit of v). "
               "csv2d_roundtrip_tol instantiates the 2-D round trip over rationals with the real tolerance tests: its hypotheses are the decidable input conditions Separated (for both tolerances) and Constructible, "
               "which the driver evaluates on every csv2d case and the harness compares with its own exact evaluation; csv2d_roundtrip_max covers max_num_fracs; txt_roundtrip_dict is the txt round trip as the dictionary the reader returns. "
               "Two genuine defects found by this check have been repaired in /repo (recorded as fixed: in known_findings.json): np.allclose with the default rtol in the network's point table, "
               "and read_data_from_txt on tables with one column, one row or no rows; the corpus replays them.")
ASSUMPTIONS = [
    "2-D round trip: no two distinct end points within tol of each other (component-wise for the writer's table, Euclidean for the reader), every fracture accepted by LineFracture (end points not np.isclose)",
    "the reader is told about the header it gets: skip_header=1 (default) or 0 for a file with header, 0 for a file without; has_domain = a domain was written",
    "3-D: every fracture has at least one vertex (real ones have >= 3); a network without fractures needs a domain",
    "txt: at least one array, equal lengths, names non-empty, without ASCII whitespace, distinct, the first one not starting with '#'",
    "generated point sets keep margins (no pair with distance in (tol/8, 8 tol)) so that float rounding cannot flip a tolerance comparison",
]

TOLS = [1e-8, 1e-4, 1e-2]
FMTS = [None, None, None, "%5.3e", "%.3f", "%g", "%.15e", "%.16e", "%.17e", "%.17e", "%.17g"]
FAITHFUL_FMTS = {"%.16e", "%.17e", "%.17g"}
DEFAULT_FMT = "%2.2e"


# ------------------------------------------------------------------------------------------------ helpers
def fl(s):
    return float(Fraction(s))


def _num_style(rng, style):
    if style == "dyadic":
        return rng.randint(-64, 64) / rng.choice([1, 2, 4, 8])
    if style == "generic":
        r = rng.random()
        if r < 0.1:
            return rng.choice([1 / 3, 0.1, 1e-17, -1e-17, 2 / 3, 1e-5, 123456.789, 0.30000000000000004])
        return rng.uniform(-50, 50)
    if style == "utm":
        return rng.choice([5e5, 6.7e6]) + rng.uniform(-5e3, 5e3)
    raise ValueError(style)


def _isclose(a, b, rtol=1e-5, atol=1e-8):
    return abs(a - b) <= atol + rtol * abs(b)


def _allclose_pt(p, x, tol):
    return all(_isclose(a, b, 1e-5, tol) for a, b in zip(p, x))


def _dist(p, q):
    return math.sqrt(sum((a - b) ** 2 for a, b in zip(p, q)))


def _clusters_ok(pts, tol):
    """Simulation of the norm pre-clustering of uniquify_point_set: every pair of points closer than tol must
    fall into the same cluster (otherwise the open C34 finding would change the answer); and no pair sits in the
    margin (tol/8, 8 tol)."""
    n = len(pts)
    for i in range(n):
        for j in range(i + 1, n):
            d = _dist(pts[i], pts[j])
            if tol / 8 < d < 8 * tol:
                return False
    if n == 0:
        return True
    norms = [math.sqrt(sum(a * a for a in p)) for p in pts]
    order = sorted(range(n), key=lambda i: norms[i])
    cl = {}
    cid, anchor = 0, norms[order[0]]
    for i in order:
        if abs(anchor - norms[i]) > tol:
            cid += 1
            anchor = norms[i]
        # stay away from the boundary of the cluster test as well
        if tol * 0.9 < abs(anchor - norms[i]) < tol * 1.1:
            return False
        cl[i] = cid
    for i in range(n):
        for j in range(i + 1, n):
            if _dist(pts[i], pts[j]) < tol and cl[i] != cl[j]:
                return False
    return True


def _degenerate(a, b):
    """LineFracture._check_pts"""
    return all(_isclose(x, y) for x, y in zip(a, b))


def _degenerate_margin(a, b):
    """True if the isclose test is near its boundary in some component (avoid)."""
    for x, y in zip(a, b):
        lim = 1e-8 + 1e-5 * abs(y)
        if 0.5 * lim < abs(x - y) < 2 * lim:
            return True
    return False


# ------------------------------------------------------------------------------------------------ generators
def _gen_pool(rng, tol, flavour, style, npts):
    pool = []
    tries = 0
    while len(pool) < npts and tries < 200:
        tries += 1
        p = (_num_style(rng, style), _num_style(rng, style))
        ok = True
        for q in pool:
            if p == q:
                ok = False
                break
            d = max(abs(p[0] - q[0]), abs(p[1] - q[1]))
            # plain separation: far in absolute terms and clearly not allclose with numpy's default rtol either way
            lim = 8 * tol + 3 * 1e-5 * max(abs(p[0]), abs(p[1]), abs(q[0]), abs(q[1])) + 3e-8
            if d < lim or _dist(p, q) < 8 * tol:
                ok = False
                break
        if ok:
            pool.append(p)
    return pool


def _gen_csv2d(rng, tier):
    tol = rng.choice(TOLS)
    flavour = rng.choices(["plain", "jitter", "rtol", "reader-merge"], [70, 10, 10, 10])[0]
    style = rng.choice(["dyadic", "generic", "generic", "utm"])
    if flavour == "rtol":
        style = "utm"
    nf = rng.choice([0, 1, 1, 2, 3, 4, 5, 6, 8]) if tier == "quick" else rng.randint(0, 25)
    rtol_read = tol
    for _attempt in range(30):
        pool = _gen_pool(rng, tol, flavour, style, max(2, min(2 * nf, rng.randint(2, 2 + nf))))
        twins = []
        if flavour == "jitter" and pool:
            for _ in range(rng.randint(1, 3)):
                p = rng.choice(pool)
                twins.append((p[0] + rng.uniform(-1, 1) * tol / 16, p[1] + rng.uniform(-1, 1) * tol / 16))
        elif flavour == "rtol" and pool:
            for _ in range(rng.randint(1, 2)):
                p = rng.choice(pool)
                off = lambda c: rng.choice([-1, 1]) * rng.uniform(0.02, 0.2) * 1e-5 * abs(c)
                twins.append((p[0] + off(p[0]), p[1] + (off(p[1]) if rng.random() < 0.7 else 0.0)))
        elif flavour == "reader-merge" and pool:
            rtol_read = rng.choice([1e-2, 1e-1])
            tol = rng.choice([1e-8, 1e-6])
            for _ in range(rng.randint(1, 3)):
                p = rng.choice(pool)
                twins.append((p[0] + rng.choice([-1, 1]) * rtol_read / rng.uniform(10, 16), p[1] + rng.uniform(-1, 1) * rtol_read / 16))
        allpts = pool + twins
        fracs = []
        bad = False
        for _ in range(nf):
            for _t in range(20):
                a, b = rng.choice(allpts), rng.choice(allpts)
                if a == b or _degenerate(a, b) or _degenerate(b, a) or _degenerate_margin(a, b) or _dist(a, b) < 8 * max(tol, rtol_read):
                    continue
                fracs.append((a, b))
                break
            else:
                bad = True
        if bad:
            continue
        used = [p for f in fracs for p in f]
        if not _clusters_ok(used, rtol_read) or (tol != rtol_read and not _clusters_ok(used, tol)):
            continue
        # the writer's table relation must be clear-cut as well: |d| <= tol/8 or >= 8 tol component-wise max
        okw = True
        for i in range(len(used)):
            for j in range(i + 1, len(used)):
                d = max(abs(used[i][0] - used[j][0]), abs(used[i][1] - used[j][1]))
                if tol / 8 < d < 8 * tol:
                    okw = False
        if okw:
            break
    else:
        fracs, flavour = [], "plain"
    tags = [[rng.randint(-1, 9) for _ in range(rng.choice([0, 0, 1, 2]))] for _ in fracs]
    dom = None
    if rng.random() < 0.4 or not fracs:
        xs = [p[0] for f in fracs for p in f] or [0.0]
        ys = [p[1] for f in fracs for p in f] or [0.0]
        dom = [min(xs) - rng.randint(0, 3), max(xs) + rng.randint(1, 3), min(ys) - rng.randint(0, 3), max(ys) + rng.randint(1, 3)]
    with_header = rng.random() < 0.75
    r = rng.random()
    read = {"skip_header": 1 if with_header else 0, "tagcols": None, "max_num_fracs": None, "polyline": False,
            "domain": [frac(v) for v in dom] if (dom and rng.random() < 0.8) else None, "tol": frac(rtol_read)}
    if r < 0.12:
        read["skip_header"] = rng.choice([0, 0, 1, 2])
    elif not with_header and r > 0.8:
        read["skip_header"] = 1  # the documented default on a file without header: the first fracture is skipped
    elif r < 0.22:
        read["max_num_fracs"] = rng.choice([0, 1, 2, nf, nf + 3])
    elif r < 0.30:
        read["tagcols"] = rng.choice([[0], [4], [0, 0], [5], [2, 3]])
    elif r < 0.36:
        read["polyline"] = True
    return {"kind": "csv2d", "flavour": flavour, "style": style,
            "fracs": [[frac(a[0]), frac(a[1]), frac(b[0]), frac(b[1])] for a, b in fracs], "tags": tags,
            "tol": frac(tol), "with_header": with_header, "domain": [frac(v) for v in dom] if dom else None, "read": read}


def _gen_raw2d(rng, tier):
    tol = rng.choice([1e-8, 1e-4, 1e-2])
    mode = rng.choices(["format1", "polyline", "onecol"], [60, 35, 5])[0]
    nrows = rng.choice([0, 1, 2, 3, 4, 5, 6, 8]) if tier == "quick" else rng.randint(0, 16)

    def coord():
        return float(rng.randint(-3, 3)) if rng.random() < 0.8 else rng.uniform(-3, 3)

    for _attempt in range(40):
        rows, pts = [], []
        tagcols = None
        if mode == "format1":
            ntag = rng.choice([0, 0, 1, 2])
            front = ntag and rng.random() < 0.2  # a tag column at index 1, coordinates shifted
            for i in range(nrows):
                a = (coord(), coord())
                r = rng.random()
                if r < 0.12:
                    b = a  # zero-length edge
                elif r < 0.2:
                    b = (a[0] + rng.uniform(-1, 1) * tol / 16, a[1] + rng.uniform(-1, 1) * tol / 16)  # shorter than tol
                elif r < 0.26 and tol <= 1e-4:
                    a = (1000.0 + rng.randint(0, 5) * 50.0, float(rng.randint(0, 3)) * 50)
                    b = (a[0] + 0.002, a[1])  # farther than tol, but np.isclose: LineFracture raises ValueError
                else:
                    b = (coord(), coord())
                pts += [a, b]
                fid = float(rng.choice([i, i, rng.randint(0, 9), rng.uniform(0, 9)]))
                tg = [float(rng.choice([rng.randint(-3, 9), rng.uniform(-3, 9)])) for _ in range(ntag)]
                cells = [fid] + (tg[:1] if front else []) + [a[0], a[1], b[0], b[1]] + (tg[1:] if front else tg)
                rows.append(cells)
            if ntag:
                r = rng.random()
                idx = ([1] + list(range(6, 5 + ntag))) if front else list(range(5, 5 + ntag))
                if r < 0.7:
                    tagcols = idx
                elif r < 0.8:
                    tagcols = idx[:1]
                elif r < 0.9:
                    tagcols = idx + [5 + ntag + rng.randint(0, 2)]  # out of range
                else:
                    tagcols = None
            elif rng.random() < 0.1:
                tagcols = rng.choice([[0], [3], [7]])
        elif mode == "polyline":
            ids = []
            nblocks = rng.randint(0, 4)
            for _ in range(nblocks):
                fid = float(rng.randint(0, 6))
                ids += [fid] * rng.choice([1, 2, 2, 3, 3, 4])
            if rng.random() < 0.25:
                rng.shuffle(ids)
            last = None
            for fid in ids:
                p = (coord(), coord())
                if last is not None and rng.random() < 0.1:
                    p = last
                last = p
                pts.append(p)
                rows.append([fid, p[0], p[1]])
        else:
            rows = [[float(rng.randint(0, 5))] for _ in range(nrows)]
        # margins for the tolerance tests
        ok = _clusters_ok(pts, tol)
        for i in range(0, len(pts) - 1, 2 if mode == "format1" else 1):
            a, b = pts[i], pts[i + 1]
            if _degenerate_margin(a, b):
                ok = False
        if ok:
            break
    else:
        rows, pts = [], []
    lines = []
    if rng.random() < 0.6:
        lines.append({"c": "# FID,START_X,START_Y,END_X,END_Y"})
    for r in rows:
        x = rng.random()
        if x < 0.06:
            lines.append({"c": "# a comment, with a comma"})
        elif x < 0.1:
            lines.append([])
        lines.append([frac(v) for v in r])
    if rows and rng.random() < 0.05:  # ragged
        k = rng.randrange(len(lines))
        if isinstance(lines[k], list) and lines[k]:
            lines[k] = lines[k] + [frac(1.0)]
    if rng.random() < 0.3:
        lines.append([])
    has_hdr = bool(lines) and isinstance(lines[0], dict)
    read = {"skip_header": rng.choice([1 if has_hdr else 0] * 4 + [0, 1, 2]), "tagcols": tagcols,
            "max_num_fracs": rng.choice([None] * 6 + [0, 1, 2, 3]), "polyline": (mode == "polyline") != (rng.random() < 0.07),
            "domain": [frac(v) for v in (-5.0, 6.0, -4.5, 7.0)] if rng.random() < 0.4 else None, "tol": frac(tol)}
    return {"kind": "raw2d", "mode": mode, "lines": lines, "read": read}


def _gen_polygon(rng, n):
    c = np.array([rng.uniform(-5, 5) for _ in range(3)])
    if rng.random() < 0.3:  # axis-aligned plane
        ax = rng.randrange(3)
        u = np.eye(3)[(ax + 1) % 3]
        v = np.eye(3)[(ax + 2) % 3]
    else:
        u = np.array([rng.gauss(0, 1) for _ in range(3)])
        v = np.array([rng.gauss(0, 1) for _ in range(3)])
        u /= np.linalg.norm(u)
        v -= u * (u @ v)
        v /= np.linalg.norm(v)
    # angles well separated so that the polygon is strictly convex and the angular sort is clear-cut
    base = rng.uniform(0, 2 * math.pi)
    ang = [base + (k + rng.uniform(0.15, 0.85)) * 2 * math.pi / n for k in range(n)]
    ra, rb = rng.uniform(0.5, 3), rng.uniform(0.5, 3)
    P = [c + ra * math.cos(a) * u + rb * math.sin(a) * v for a in ang]
    k = rng.randrange(n)
    P = P[k:] + P[:k]
    if rng.random() < 0.5:
        P.reverse()
    return [[float(x) for x in p] for p in P]


def _gen_csv3d(rng, tier):
    nf = rng.choice([0, 1, 1, 2, 3, 5]) if tier == "quick" else rng.randint(0, 10)
    fracs = [_gen_polygon(rng, rng.randint(3, 8)) for _ in range(nf)]
    dom = None
    if rng.random() < 0.6 or nf == 0:
        cs = [p for f in fracs for p in f] or [[0.0, 0.0, 0.0]]
        lo = [min(p[i] for p in cs) - rng.choice([0, 1, 0.5]) for i in range(3)]
        hi = [max(p[i] for p in cs) + rng.choice([1, 2, 0.25]) for i in range(3)]
        if rng.random() < 0.5:  # python ints in the bounding box: written as "-3", read as -3.0
            lo = [int(math.floor(x)) for x in lo]
            hi = [int(math.ceil(x)) + 1 for x in hi]
        dom = lo + hi
    has_domain = dom is not None
    if rng.random() < 0.12 and (nf > 0):
        has_domain = not has_domain
    # with a has_domain mismatch the reader takes a fracture row for the domain (or vice versa): the outcome depends on
    # the exact vertex order in the file, so those networks are built with sort_points=False (order as in the case)
    return {"kind": "csv3d", "fracs": [[[frac(x) for x in p] for p in f] for f in fracs],
            "sort": rng.random() < 0.6 and has_domain == (dom is not None),
            "check_convexity": nf <= 2 and rng.random() < 0.15,  # sympy based and slow (0.3 s per fracture): rarely on
            "domain": [frac(x) for x in dom] if dom is not None else None, "dom_int": bool(dom is not None and isinstance(dom[0], int)),
            "has_domain": has_domain}


def _gen_raw3d(rng, tier):
    lines = []
    has_domain = rng.random() < 0.6
    dom_present = has_domain if rng.random() < 0.8 else not has_domain
    if rng.random() < 0.4:
        lines.append({"c": "# domain, then fractures"})
    if rng.random() < 0.08:
        lines.append([])
    if dom_present:
        d = [frac(float(v)) for v in (-10, -10, -10, 10, 10, 10)]
        r = rng.random()
        if r < 0.1:
            d = d[:5]
        elif r < 0.2:
            d = d + [frac(3.0), frac(4.0)]
        elif r < 0.27:
            d[rng.randrange(6)] = None
        lines.append(d)
    for _ in range(rng.choice([0, 1, 2, 3])):
        x = rng.random()
        if x < 0.1:
            lines.append({"c": "#" + rng.choice(["", " skipped", "1,2,3"])})
        elif x < 0.2:
            lines.append([])
        f = _gen_polygon(rng, rng.randint(3, 7))
        cells = [frac(v) for p in f for v in p]
        y = rng.random()
        if y < 0.08:
            cells = cells[:-1]
        elif y < 0.14:
            cells = cells[:6]
        elif y < 0.18:
            cells = cells[:3]
        elif y < 0.25:
            cells[rng.randrange(len(cells))] = None
        lines.append(cells)
    if rng.random() < 0.3:
        lines.append([])
    return {"kind": "raw3d", "lines": lines, "has_domain": has_domain, "check_convexity": rng.random() < 0.1}


def _gen_ell3d(rng, tier):
    lines = []
    has_domain = rng.random() < 0.6
    r = rng.random()
    if has_domain:
        if r < 0.7:
            lines.append([frac(float(v)) for v in (-20, -20, -20, 20, 20, 20)])
        elif r < 0.78:
            lines.append({"c": "# the domain line may not be a comment"})
            lines.append([frac(float(v)) for v in (-20, -20, -20, 20, 20, 20)])
        elif r < 0.84:
            lines.append([])
        elif r < 0.9:
            lines.append([frac(float(v)) for v in (-20, -20, -20, 20, 20)])
        elif r < 0.95:
            lines.append([frac(-20.0), None, frac(-20.0), frac(20.0), frac(20.0), frac(20.0)])
        # else: no domain line at all (an ellipse row is taken for it, or StopIteration)
    for _ in range(rng.choice([0, 1, 1, 2, 3])):
        x = rng.random()
        if x < 0.12:
            lines.append({"c": "#" + rng.choice(["", " ellipse", "1,2"])})
        elif x < 0.17:
            lines.append([])
        maj = rng.uniform(1, 4)
        row = [rng.uniform(-5, 5), rng.uniform(-5, 5), rng.uniform(-5, 5), maj, maj * rng.uniform(0.2, 0.9),
               rng.uniform(-3, 3), rng.uniform(-3, 3), rng.uniform(-1.5, 1.5), rng.choice([4.0, 5.0, 8.0, 12.0, 7.9, 16.0])]
        cells = [frac(v) for v in row]
        y = rng.random()
        if y < 0.05:
            cells = cells[:-1]
        elif y < 0.17:
            cells = rng.choice([cells[:6], cells + cells[:3], cells[:3]])  # 6, 12 or 3 numbers: ValueError
        elif y < 0.22:
            cells = cells + cells  # 18 numbers: accepted, the first nine are used
        elif y < 0.27:
            cells[rng.randrange(9)] = None
        lines.append(cells)
    return {"kind": "ell3d", "lines": lines, "has_domain": has_domain, "degrees": rng.random() < 0.4}


NAME_CHARS = "abcxyzPQ019_.-#"


def _gen_txt(rng, tier):
    ncols = rng.choice([0, 1, 2, 2, 3, 3, 4, 5])
    nrows = rng.choice([0, 1, 2, 2, 3, 4, 6])
    cols = []
    fmt_all = rng.choice(FMTS)
    for j in range(ncols):
        name = "".join(rng.choice(NAME_CHARS[:-1] if rng.random() < 0.9 else NAME_CHARS) for _ in range(rng.randint(1, 7)))
        if name.startswith("#") and rng.random() < 0.7:
            name = "n" + name
        if cols and rng.random() < 0.05:
            name = cols[0]["name"]
        n = nrows if rng.random() < 0.95 else nrows + 1
        arr = []
        for _ in range(n):
            r = rng.random()
            if r < 0.15:
                v = float(rng.randint(-5, 2000))
            elif r < 0.3:
                v = rng.choice([0.0, 1 / 3, 1e-5, 0.1, 2.5e-7, 1.005, 123456.789, 0.30000000000000004, 9.995e3])
            else:
                v = rng.uniform(-1, 1) * 10 ** rng.randint(-8, 8)
            arr.append(frac(v))
        cols.append({"name": name, "arr": arr, "fmt": fmt_all if rng.random() < 0.7 else rng.choice(FMTS)})
    return {"kind": "txt", "cols": cols}


def gen_case(rng, tier):
    k = rng.choices(["csv2d", "raw2d", "csv3d", "raw3d", "txt", "ell3d"], [32, 19, 18, 9, 14, 8])[0]
    return {"csv2d": _gen_csv2d, "raw2d": _gen_raw2d, "csv3d": _gen_csv3d, "raw3d": _gen_raw3d, "txt": _gen_txt,
            "ell3d": _gen_ell3d}[k](rng, tier)


# ------------------------------------------------------------------------------------------------ file text <-> lines
def _cell_text(c):
    if c is None:
        return "abc"
    v = fl(c)
    return repr(v)


def _lines_to_text(lines, blank=""):
    out = []
    for ln in lines:
        if isinstance(ln, dict):
            out.append(ln["c"])
        else:
            out.append(",".join(_cell_text(c) for c in ln))
    return "".join(s + "\n" for s in out)


def _parse_csv_text(text):
    """the harness' own parse of a written csv file: lines -> comment text / exact numbers"""
    lines = []
    if text == "":
        return lines
    for raw in text.split("\n")[:-1] if text.endswith("\n") else text.split("\n"):
        raw = raw.rstrip("\r")
        if raw.startswith("#"):
            lines.append({"c": raw})
        elif raw == "":
            lines.append([])
        else:
            lines.append([frac(float(t)) for t in raw.split(",")])
    return lines


def _dihedral_canon(verts):
    """canonical representative of a vertex cycle up to rotation and reflection (exact)"""
    vs = [tuple(Fraction(x) for x in p) for p in verts]
    n = len(vs)
    if n == 0:
        return []
    best = None
    for seq in (vs, vs[::-1]):
        for k in range(n):
            cand = seq[k:] + seq[:k]
            if best is None or cand < best:
                best = cand
    return [[frac(x) for x in p] for p in best]


# ------------------------------------------------------------------------------------------------ real code
def _dom2(d):
    import porepy as pp
    if d is None:
        return None
    v = [fl(x) for x in d]
    return pp.Domain({"xmin": v[0], "xmax": v[1], "ymin": v[2], "ymax": v[3]})


def _pre2(case):
    """the decidable input conditions of csv2d_roundtrip_tol (Separated for both tolerances, Constructible), evaluated
    in exact rational arithmetic on the Python side"""
    Fr = Fraction
    fr = [[Fr(x) for x in f] for f in case["fracs"]]
    pts = {(f[0], f[1]) for f in fr} | {(f[2], f[3]) for f in fr}
    pts = sorted(pts)
    for tol in (Fr(case["tol"]), Fr(case["read"]["tol"])):
        for i, p in enumerate(pts):
            for q in pts[i + 1:]:
                if not (abs(p[0] - q[0]) > tol or abs(p[1] - q[1]) > tol):
                    return False
    for f in fr:
        a, b = (f[0], f[1]), (f[2], f[3])
        if a == b or all(abs(x - y) <= Fr(1, 10 ** 8) + Fr(1, 10 ** 5) * abs(y) for x, y in zip(a, b)):
            return False
    return True


def _build_net2(case):
    import porepy as pp
    from porepy.fracs.fracture_network_2d import FractureNetwork2d
    fr = []
    for f, t in zip(case["fracs"], case["tags"]):
        a = [fl(x) for x in f]
        fr.append(pp.LineFracture(np.array([[a[0], a[2]], [a[1], a[3]]]), tags=(t if t else None)))
    return FractureNetwork2d(fr, _dom2(case.get("domain")), fl(case["tol"]))


def _net2_out(net, ids):
    bb = None
    if net.domain is not None:
        b = net.domain.bounding_box
        bb = [frac(b[k]) for k in ("xmin", "xmax", "ymin", "ymax")]
    return {"fracs": [[frac(f.pts[0, 0]), frac(f.pts[1, 0]), frac(f.pts[0, 1]), frac(f.pts[1, 1])] for f in net.fractures],
            "tags": [[int(t) for t in f.tags] for f in net.fractures], "domain": bb, "ids": [int(i) for i in ids]}


def _read2(path, read):
    from porepy.fracs import fracture_importer as fi
    try:
        with warnings.catch_warnings():
            warnings.simplefilter("ignore")
            kw = {} if read["skip_header"] == 1 else {"skip_header": read["skip_header"]}  # 1 is the documented default
            net, ids = fi.network_2d_from_csv(path, tagcols=read["tagcols"], tol=fl(read["tol"]), max_num_fracs=read["max_num_fracs"],
                                              polyline=read["polyline"], return_frac_id=True, domain=_dom2(read["domain"]), **kw)
        return _net2_out(net, ids)
    except Exception as e:
        return err_kind(e)


def _build_net3(case):
    import porepy as pp
    fr = [pp.PlaneFracture(np.array([[fl(x) for x in p] for p in f]).T, sort_points=case["sort"]) for f in case["fracs"]]
    dom = None
    if case["domain"] is not None:
        v = [Fraction(x) for x in case["domain"]]
        v = [int(x) for x in v] if case.get("dom_int") else [float(x) for x in v]
        dom = pp.Domain({"xmin": v[0], "ymin": v[1], "zmin": v[2], "xmax": v[3], "ymax": v[4], "zmax": v[5]})
    from porepy.fracs.fracture_network_3d import FractureNetwork3d
    return FractureNetwork3d(fr, dom), dom


def _net3_out(net, exact):
    bb = None
    if net.domain is not None:
        b = net.domain.bounding_box
        bb = [frac(b[k]) for k in ("xmin", "ymin", "zmin", "xmax", "ymax", "zmax")]
    vl = [[[frac(x) for x in col] for col in f.pts.T] for f in net.fractures]
    return {"fracs": vl if exact else [_dihedral_canon(f) for f in vl], "domain": bb}


def _read3(path, has_domain, check_convexity, exact=False):
    from porepy.fracs import fracture_importer as fi
    try:
        return _net3_out(fi.network_3d_from_csv(path, has_domain=has_domain, check_convexity=check_convexity), exact)
    except BaseException as e:
        if isinstance(e, (KeyboardInterrupt, SystemExit)):
            raise
        return err_kind(e)


def _exact3(case):
    """csv3d cases in which the model is given the angle keys of PlaneFracture's vertex sort, so that vertex
    lists are compared exactly (not only as vertex cycles): the reader is told the truth about the domain line."""
    return case["has_domain"] == (case["domain"] is not None)


def _theta(verts):
    """the sort key of PlaneFracture.sort_points for the vertex list `verts` (list of [x, y, z] floats): the angle of
    each vertex about the centroid in the fracture's own local coordinates (computed by the real local_coordinates)"""
    import porepy as pp
    f = pp.PlaneFracture(np.array(verts, dtype=float).T, sort_points=False)
    p2 = f.local_coordinates()
    p2 = p2 - np.mean(p2, axis=1).reshape((-1, 1))
    return [float(t) for t in np.arctan2(p2[1], p2[0])]


def _thetas(case):
    """(keys of the construction sort or None, keys the reader derives from the stored vertex lists)"""
    fr = [[[fl(x) for x in p] for p in f] for f in case["fracs"]]
    th1 = None
    stored = fr
    if case["sort"]:
        th1 = [_theta(f) for f in fr]
        stored = [[f[i] for i in sorted(range(len(f)), key=lambda i: t[i])] for f, t in zip(fr, th1)]
    th2 = [_theta(f) for f in stored]
    return th1, th2


def _read_elliptic(path, has_domain, degrees):
    """elliptic_network_3d_from_csv with create_elliptic_fracture wrapped so that the arguments it receives are
    recorded (three triples per ellipse: centre; major, minor, major-axis angle; strike, dip, number of points)"""
    import porepy as pp
    from porepy.fracs import fracture_importer as fi
    rec = []
    orig = pp.create_elliptic_fracture

    def wrapper(center, maj, mn, a_maj, a_strike, a_dip, num_points):
        rec.append([[frac(x) for x in center], [frac(maj), frac(mn), frac(a_maj)], [frac(a_strike), frac(a_dip), frac(int(num_points))]])
        if not isinstance(num_points, int):
            raise TypeError("num_points must reach create_elliptic_fracture as an int")
        return orig(center, maj, mn, a_maj, a_strike, a_dip, num_points)

    pp.create_elliptic_fracture = wrapper
    try:
        net = fi.elliptic_network_3d_from_csv(path, has_domain=has_domain, degrees=degrees)
    except BaseException as e:
        if isinstance(e, (KeyboardInterrupt, SystemExit)):
            raise
        return err_kind(e)
    finally:
        pp.create_elliptic_fracture = orig
    bb = None
    if net.domain is not None:
        b = net.domain.bounding_box
        bb = [frac(b[k]) for k in ("xmin", "ymin", "zmin", "xmax", "ymax", "zmax")]
    if len(net.fractures) != len(rec):
        return {"err": "fracture-count-differs-from-ellipse-rows"}
    return {"fracs": rec, "domain": bb}


def _txt_objs(case):
    from porepy.utils.txt_io import TxtData
    out = []
    for c in case["cols"]:
        a = np.array([fl(v) for v in c["arr"]], dtype=float)
        out.append(TxtData(c["name"], a) if c["fmt"] is None else TxtData(c["name"], a, c["fmt"]))
    return out


def _txt_roundtrip(case, d):
    """returns (file text or None, read dict or exception)"""
    from pathlib import Path
    from porepy.utils.txt_io import export_data_to_txt, read_data_from_txt
    p = Path(d) / "data.txt"
    try:
        export_data_to_txt(_txt_objs(case), p)
    except Exception as e:
        return None, e
    text = open(p).read()
    try:
        with warnings.catch_warnings():
            warnings.simplefilter("ignore")
            return text, read_data_from_txt(p)
    except Exception as e:
        return text, e


def impl_run(case):
    from pathlib import Path
    kind = case["kind"]
    with tempfile.TemporaryDirectory(prefix="c47_") as d:
        p = Path(d) / "net.csv"
        if kind == "csv2d":
            net = _build_net2(case)
            net.to_csv(p, with_header=case["with_header"])
            return {"lines": _parse_csv_text(open(p).read()), "pre": _pre2(case), "net": _read2(p, case["read"])}
        if kind == "raw2d":
            open(p, "w").write(_lines_to_text(case["lines"]))
            return {"net": _read2(p, case["read"])}
        if kind == "csv3d":
            net, dom = _build_net3(case)
            net.to_csv(p, domain=dom)
            lines = _parse_csv_text(open(p).read())
            return {"held": [[[frac(x) for x in col] for col in f.pts.T] for f in net.fractures], "lines": lines,
                    "net": _read3(p, case["has_domain"], case["check_convexity"], _exact3(case))}
        if kind == "raw3d":
            open(p, "w").write(_lines_to_text(case["lines"]))
            return {"net": _read3(p, case["has_domain"], case["check_convexity"])}
        if kind == "ell3d":
            open(p, "w").write(_lines_to_text(case["lines"]))
            return {"net": _read_elliptic(p, case["has_domain"], case["degrees"])}
        if kind == "txt":
            text, rd = _txt_roundtrip(case, d)
            if text is None:
                return err_kind(rd)
            ls = text.split("\n")
            out = {"header": ls[0], "rows": [l.split() for l in ls[1:] if l != ""]}
            if isinstance(rd, Exception):
                out["read"] = err_kind(rd)
            else:
                out["read"] = {k: ([frac(x) for x in v] if getattr(v, "ndim", 0) == 1 else {"scalar": frac(v)}) for k, v in rd.items()}
            return out
    raise ValueError(kind)


# ------------------------------------------------------------------------------------------------ model
def _fmt_of(c):
    return DEFAULT_FMT if c["fmt"] is None else c["fmt"]


def _rounded(c):
    f = _fmt_of(c)
    return [frac(float(f % fl(v))) for v in c["arr"]]


def model_ops(case):
    kind = case["kind"]
    if kind == "csv2d":
        return [{"op": "csv2d", "fracs": case["fracs"], "tol": case["tol"], "with_header": case["with_header"], "read": case["read"]}]
    if kind == "raw2d":
        return [{"op": "raw2d", "lines": case["lines"], "read": case["read"]}]
    if kind == "csv3d":
        op = {"op": "csv3d", "fracs": case["fracs"], "domain": case["domain"], "has_domain": case["has_domain"]}
        if _exact3(case):
            th1, th2 = _thetas(case)
            op["thetas1"] = None if th1 is None else [[frac(t) for t in ts] for ts in th1]
            op["thetas2"] = [[frac(t) for t in ts] for ts in th2]
        return [op]
    if kind == "raw3d":
        return [{"op": "raw3d", "lines": case["lines"], "has_domain": case["has_domain"]}]
    if kind == "ell3d":
        return [{"op": "ell3d", "lines": case["lines"], "has_domain": case["has_domain"]}]
    if kind == "txt":
        return [{"op": "txt", "cols": [{"name": c["name"], "arr": c["arr"], "rounded": _rounded(c)} for c in case["cols"]]}]
    raise ValueError(kind)


def model_decode(outs, case):
    o = outs[0]
    kind = case["kind"]
    if (kind == "raw3d" or (kind == "csv3d" and not _exact3(case))) and isinstance(o.get("net"), dict) and "fracs" in o["net"]:
        o = dict(o, net=dict(o["net"], fracs=[_dihedral_canon(f) for f in o["net"]["fracs"]]))
    if kind == "ell3d" and isinstance(o.get("net"), dict) and "fracs" in o["net"]:
        # the angle scaling and int(num_points) of the reader, applied to the numbers the model hands to `mk`
        degrees = case["degrees"]
        sc = 1 - degrees + degrees * np.pi / 180
        fr = []
        for c3, a3, b3 in o["net"]["fracs"]:
            fr.append([c3, [a3[0], a3[1], frac(fl(a3[2]) * sc)], [frac(fl(b3[0]) * sc), frac(fl(b3[1]) * sc), frac(int(fl(b3[2])))]])
        o = dict(o, net=dict(o["net"], fracs=fr))
    if kind == "txt" and "rows" in o:
        fmts = [_fmt_of(c) for c in case["cols"]]
        rows = [[fmts[j] % fl(v) for j, v in enumerate(r)] for r in o["rows"]]
        rd = o["read"]
        if isinstance(rd, list):
            rd = {k: v for k, v in rd}  # dict(zip(names, values)): the last duplicate wins
        o = {"header": o["header"], "rows": rows, "read": rd}
    return o


def compare(impl, model, case):
    return deep_compare(impl, model)


# ------------------------------------------------------------------------------------------------ oracle
def _pts_of_case2(case):
    return [(fl(f[0]), fl(f[1])) for f in case["fracs"]] + [(fl(f[2]), fl(f[3])) for f in case["fracs"]]


def _oracle_csv2d(case):
    from pathlib import Path
    from porepy.fracs import fracture_importer as fi
    tol = fl(case["tol"])
    net = _build_net2(case)
    orig = [[float(f.pts[0, 0]), float(f.pts[1, 0]), float(f.pts[0, 1]), float(f.pts[1, 1])] for f in net.fractures]
    want = [[fl(x) for x in f] for f in case["fracs"]]
    if orig != want:
        return {"what": "network construction changed the fracture coordinates", "key": "csv2d-construction"}
    pts = sorted(set(_pts_of_case2(case)))
    # precondition of csv2d_roundtrip: distinct end points are farther apart than tol
    separated = all(max(abs(p[0] - q[0]), abs(p[1] - q[1])) > tol and _dist(p, q) > tol for i, p in enumerate(pts) for q in pts[i + 1:])
    rtol_pair = any(max(abs(p[0] - q[0]), abs(p[1] - q[1])) > tol and (_allclose_pt(p, q, tol) or _allclose_pt(q, p, tol))
                    for i, p in enumerate(pts) for q in pts[i + 1:])
    for hdr, skip in ((case["with_header"], 1 if case["with_header"] else 0), (True, 0)):
        with tempfile.TemporaryDirectory(prefix="c47_") as d:
            p = Path(d) / "n.csv"
            net.to_csv(p, with_header=hdr)
            text = open(p).read()
            with warnings.catch_warnings():
                warnings.simplefilter("ignore")
                try:
                    kw = {} if skip == 1 else {"skip_header": skip}
                    net2, ids = fi.network_2d_from_csv(p, tol=tol, return_frac_id=True, domain=net.domain, **kw)
                except Exception as e:
                    return {"what": f"reading back a written 2-D network raised {type(e).__name__}: {e}", "key": "csv2d-read-raises"}
        back = [[float(f.pts[0, 0]), float(f.pts[1, 0]), float(f.pts[0, 1]), float(f.pts[1, 1])] for f in net2.fractures]
        if len(back) != len(want):
            return {"what": f"{len(want)} fractures written, {len(back)} read back (header={hdr}, skip_header={skip})", "key": "csv2d-count"}
        if separated:
            if back != want:
                i = next(k for k in range(len(want)) if back[k] != want[k])
                key = KEY_RTOL if rtol_pair else "csv2d-roundtrip-differs"
                return {"what": f"fracture {i} written as {want[i]} came back as {back[i]} (tol={tol})", "key": key}
        else:
            if any(abs(x - y) > tol for a, b in zip(back, want) for x, y in zip(a, b)):
                return {"what": "a coordinate moved by more than tol in the round trip", "key": "csv2d-roundtrip-beyond-tol"}
        if [int(i) for i in ids] != list(range(len(want))):
            return {"what": f"fracture ids {list(ids)} instead of 0..{len(want) - 1}", "key": "csv2d-ids"}
        if net.domain is not None:
            if net2.domain is None or net2.domain.bounding_box != net.domain.bounding_box:
                return {"what": "the domain passed to the reader is not the domain of the network read", "key": "csv2d-domain"}
        elif want:
            xs = [w[0] for w in back] + [w[2] for w in back]
            ys = [w[1] for w in back] + [w[3] for w in back]
            bb = net2.domain.bounding_box if net2.domain is not None else None
            if bb is None or [float(bb[k]) for k in ("xmin", "xmax", "ymin", "ymax")] != [min(xs), max(xs), min(ys), max(ys)]:
                return {"what": "without a domain argument the domain read is not the bounding box of the end points", "key": "csv2d-domain"}
        # the file itself: header text, one row per fracture, every token decodes to exactly the number written
        ls = text.split("\n")[:-1]
        ls = [l.rstrip("\r") for l in ls]
        if hdr:
            if not ls or not ls[0].startswith("#"):
                return {"what": "header line is not a comment", "key": "csv2d-file-header"}
            ls = ls[1:]
        if separated:
            if len(ls) != len(want):
                return {"what": "number of data rows differs from the number of fractures", "key": "csv2d-file-rows"}
            for i, (l, w) in enumerate(zip(ls, want)):
                cells = l.split(",")
                try:
                    ok = cells[0] == str(i) and [float(c) for c in cells[1:]] == w
                except ValueError:
                    ok = False
                if not ok:
                    return {"what": f"row {i} of the file is {l!r}, expected id {i} and {w}", "key": KEY_RTOL if rtol_pair else "csv2d-file-cell"}
    # csv2d_roundtrip_max on the real code: max_num_fracs = k returns the first k fractures
    if separated and len(want) >= 2:
        k = 1 + len(want) // 2
        with tempfile.TemporaryDirectory(prefix="c47_") as d:
            p = Path(d) / "n.csv"
            net.to_csv(p)
            with warnings.catch_warnings():
                warnings.simplefilter("ignore")
                try:
                    net3, ids3 = fi.network_2d_from_csv(p, tol=tol, return_frac_id=True, max_num_fracs=k)
                except Exception as e:
                    return {"what": f"reading with max_num_fracs={k} raised {type(e).__name__}: {e}", "key": "csv2d-max-raises"}
        back = [[float(f.pts[0, 0]), float(f.pts[1, 0]), float(f.pts[0, 1]), float(f.pts[1, 1])] for f in net3.fractures]
        if back != want[:k] or [int(i) for i in ids3] != list(range(k)):
            return {"what": f"max_num_fracs={k} did not return the first {k} fractures", "key": KEY_RTOL if rtol_pair else "csv2d-max-num-fracs"}
    return None


def _dihedral_equal(a, b):
    return _dihedral_canon(a) == _dihedral_canon(b)


def _oracle_csv3d(case):
    from pathlib import Path
    from porepy.fracs import fracture_importer as fi
    net, dom = _build_net3(case)
    given = [[[fl(x) for x in p] for p in f] for f in case["fracs"]]
    held = [[[float(x) for x in col] for col in f.pts.T] for f in net.fractures]
    for g, h in zip(given, held):
        if (not case["sort"] and g != h) or not _dihedral_equal(g, h):
            return {"what": "PlaneFracture construction changed the polygon", "key": "csv3d-construction"}
    with tempfile.TemporaryDirectory(prefix="c47_") as d:
        p = Path(d) / "n.csv"
        net.to_csv(p, domain=dom)
        text = open(p).read()
        if dom is None and not held:
            return None  # nothing to read back: the reader needs fractures or a domain
        try:
            net2 = fi.network_3d_from_csv(p, has_domain=dom is not None, check_convexity=case["check_convexity"])
        except BaseException as e:
            if isinstance(e, (KeyboardInterrupt, SystemExit)):
                raise
            return {"what": f"reading back a written 3-D network raised {type(e).__name__}: {e}", "key": "csv3d-read-raises"}
    back = [[[float(x) for x in col] for col in f.pts.T] for f in net2.fractures]
    if len(back) != len(held):
        return {"what": f"{len(held)} fractures written, {len(back)} read back", "key": "csv3d-count"}
    for i, (b, h) in enumerate(zip(back, held)):
        if not _dihedral_equal(b, h):
            return {"what": f"fracture {i}: vertices {h} came back as {b} (not the same vertex cycle)", "key": "csv3d-roundtrip-differs"}
    if dom is not None:
        if net2.domain is None or {k: float(v) for k, v in net2.domain.bounding_box.items()} != {k: float(v) for k, v in dom.bounding_box.items()}:
            return {"what": "domain read back differs from the domain written", "key": "csv3d-domain"}
    elif net2.domain is not None:
        return {"what": "a domain appeared in the network read back", "key": "csv3d-domain"}
    ls = [l.rstrip("\r") for l in text.split("\n")[:-1]]
    if dom is not None:
        try:
            ok = [float(c) for c in ls[0].split(",")] == [float(dom.bounding_box[k]) for k in ("xmin", "ymin", "zmin", "xmax", "ymax", "zmax")]
        except (ValueError, IndexError):
            ok = False
        if not ok:
            return {"what": "first row of the file is not the domain xmin,ymin,zmin,xmax,ymax,zmax", "key": "csv3d-file-domain"}
        ls = ls[1:]
    if len(ls) != len(held):
        return {"what": "number of fracture rows differs from the number of fractures", "key": "csv3d-file-rows"}
    for i, (l, h) in enumerate(zip(ls, held)):
        try:
            ok = [float(c) for c in l.split(",")] == [x for pnt in h for x in pnt]
        except ValueError:
            ok = False
        if not ok:
            return {"what": f"row {i} of the file does not hold the vertices of fracture {i} point by point", "key": "csv3d-file-cell"}
    return None


def _names_ok(names):
    ws = " \t\n\r\x0b\x0c"
    return (all(n and not any(ch in ws for ch in n) for n in names) and len(set(names)) == len(names)
            and not names[0].startswith("#"))


def _digit_bound(fmt, v):
    """half a unit of the last digit printed by fmt for v (None if the format gives no such bound)"""
    m = re.fullmatch(r"%\d*\.(\d+)([ef])", fmt)
    if not m:
        return None
    k = int(m.group(1))
    if m.group(2) == "f":
        return 0.5 * 10.0 ** (-k)
    if v == 0:
        return 0.0
    e = int(("%.17e" % abs(v)).split("e")[1])  # decimal exponent of v
    return 0.5 * 10.0 ** (e - k) * 1.0000001


def _oracle_txt(case):
    cols = case["cols"]
    if not cols:
        return None
    lens = {len(c["arr"]) for c in cols}
    names = [c["name"] for c in cols]
    if len(lens) != 1:
        return None  # outside the property's hypotheses (export raises ValueError)
    nrows = lens.pop()
    with tempfile.TemporaryDirectory(prefix="c47_") as d:
        text, rd = _txt_roundtrip(case, d)
    if text is None:
        return {"what": f"export_data_to_txt raised {type(rd).__name__}", "key": "txt-export-raises"}
    vals = [[fl(v) for v in c["arr"]] for c in cols]
    # known wrong behaviours of read_data_from_txt, recognised exactly (they do not depend on the names)
    if isinstance(rd, TypeError) and nrows == 1 and len(cols) == 1:
        return {"what": "one array of one value: read_data_from_txt raises TypeError (iteration over a 0-d array)", "key": KEY_TXT_1X1}
    if isinstance(rd, Exception):
        return {"what": f"read_data_from_txt raised {type(rd).__name__}: {rd}", "key": "txt-read-raises"}
    if nrows == 0 and rd == {}:
        return {"what": "arrays of length 0: read_data_from_txt returns an empty dictionary (names lost)", "key": KEY_TXT_0ROW}
    if len(cols) == 1 and nrows >= 2 and len(rd) <= 1 and all(np.ndim(v) == 0 for v in rd.values()):
        return {"what": f"a single array of {nrows} values comes back as a scalar (its first value only): {rd}", "key": KEY_TXT_1COL}
    if nrows == 1 and len(cols) >= 2 and rd and all(np.ndim(v) == 0 for v in rd.values()):
        return {"what": "arrays of length 1 come back as 0-d scalars, not arrays of shape (1,)", "key": KEY_TXT_1ROW}
    if not _names_ok(names):
        return None  # outside the property's hypotheses (the correspondence check still compares with the model)
    if list(rd) != names:
        return {"what": f"names {names} came back as {list(rd)}", "key": "txt-names"}
    for c, v in zip(cols, vals):
        got = rd[c["name"]]
        if np.shape(got) != (nrows,):
            return {"what": f"array {c['name']!r} of shape ({nrows},) came back with shape {np.shape(got)}", "key": "txt-shape"}
        fmt = _fmt_of(c)
        for x, g in zip(v, got):
            g = float(g)
            if fmt in FAITHFUL_FMTS:
                if g != x:
                    return {"what": f"value {x!r} written with the faithful format {fmt} came back as {g!r}", "key": "txt-roundtrip-differs"}
            else:
                if g != float(fmt % x):
                    return {"what": f"value {x!r} written with {fmt} came back as {g!r}, not as float({fmt % x!r})", "key": "txt-roundtrip-differs"}
                b = _digit_bound(fmt, x)
                if b is not None and abs(g - x) > b + math.ulp(x):  # + the rounding of the decimal token to binary64
                    return {"what": f"value {x!r} written with {fmt} came back as {g!r}: more than half a unit of the last digit away", "key": "txt-rounding-bound"}
    # the file: names in the header, one row per index, tokens are the formatted values
    ls = text.split("\n")
    if ls[0].lstrip("# ").split() != names:
        return {"what": "header line does not hold the names", "key": "txt-file-header"}
    rows = [l.split() for l in ls[1:] if l != ""]
    want = [[_fmt_of(c) % v[i] for c, v in zip(cols, vals)] for i in range(nrows)]
    if rows != want:
        return {"what": "data rows of the file are not the formatted values row by row", "key": "txt-file-cell"}
    return None


def oracle(case):
    kind = case["kind"]
    if kind == "csv2d":
        return _oracle_csv2d(case)
    if kind == "csv3d":
        return _oracle_csv3d(case)
    if kind == "txt":
        return _oracle_txt(case)
    return None


# ------------------------------------------------------------------------------------------------ bookkeeping
def nontrivial(case):
    k = case["kind"]
    if k == "csv2d":
        return len(case["fracs"]) >= 2
    if k == "csv3d":
        return len(case["fracs"]) >= 1
    if k == "txt":
        return len(case["cols"]) >= 1 and all(len(c["arr"]) >= 1 for c in case["cols"])
    return len([l for l in case["lines"] if isinstance(l, list) and l]) >= 2


def shrink_candidates(case):
    k = case["kind"]
    if k in ("csv2d", "csv3d"):
        n = len(case["fracs"])
        for i in range(n):
            c = dict(case, fracs=case["fracs"][:i] + case["fracs"][i + 1:])
            if k == "csv2d":
                c["tags"] = case["tags"][:i] + case["tags"][i + 1:]
            yield c
        if k == "csv2d" and any(case["tags"]):
            yield dict(case, tags=[[] for _ in case["tags"]])
        if k == "csv2d" and case.get("domain") is not None and n > 0:
            yield dict(case, domain=None, read=dict(case["read"], domain=None))
    elif k == "txt":
        cols = case["cols"]
        for i in range(len(cols)):
            yield dict(case, cols=cols[:i] + cols[i + 1:])
        m = min((len(c["arr"]) for c in cols), default=0)
        for i in range(m):
            yield dict(case, cols=[dict(c, arr=c["arr"][:i] + c["arr"][i + 1:]) for c in cols])


def stats(cases, impl_outs):
    kinds = {}
    for c in cases:
        kinds[c["kind"]] = kinds.get(c["kind"], 0) + 1
    fl2 = {}
    for c in cases:
        if c["kind"] == "csv2d":
            fl2[c["flavour"] + "/" + c["style"]] = fl2.get(c["flavour"] + "/" + c["style"], 0) + 1
    errs = {}
    for o in impl_outs:
        if not isinstance(o, dict):
            continue
        for part in (o, o.get("net"), o.get("read")):
            if isinstance(part, dict) and isinstance(part.get("err"), str):
                errs[part["err"]] = errs.get(part["err"], 0) + 1
    shared = sum(1 for c in cases if c["kind"] == "csv2d" and len({tuple(f[:2]) for f in c["fracs"]} | {tuple(f[2:]) for f in c["fracs"]}) < 2 * len(c["fracs"]))
    c2 = [(c, o) for c, o in zip(cases, impl_outs) if c["kind"] == "csv2d" and isinstance(o, dict)]
    c3 = [(c, o) for c, o in zip(cases, impl_outs) if c["kind"] == "csv3d" and isinstance(o, dict)]
    tx = [c for c in cases if c["kind"] == "txt"]
    strata = {
        "csv2d_empty_network": sum(1 for c, _ in c2 if not c["fracs"]),
        "csv2d_single_fracture": sum(1 for c, _ in c2 if len(c["fracs"]) == 1),
        "csv2d_input_conditions_hold (Separated+Constructible)": sum(1 for _, o in c2 if o.get("pre") is True),
        "csv2d_input_conditions_fail": sum(1 for _, o in c2 if o.get("pre") is False),
        "csv2d_no_header_read_with_default_skip": sum(1 for c, _ in c2 if not c["with_header"] and c["read"]["skip_header"] == 1),
        "csv2d_header_skip0": sum(1 for c, _ in c2 if c["with_header"] and c["read"]["skip_header"] == 0),
        "csv2d_max_num_fracs": _hist(["none" if c["read"]["max_num_fracs"] is None else ("0" if c["read"]["max_num_fracs"] == 0 else ("<n" if c["read"]["max_num_fracs"] < len(c["fracs"]) else ">=n")) for c, _ in c2]),
        "csv2d_read_polyline_or_tagcols": sum(1 for c, _ in c2 if c["read"]["polyline"] or c["read"]["tagcols"] is not None),
        "csv2d_with_tags": sum(1 for c, _ in c2 if any(c["tags"])),
        "csv2d_with_domain": sum(1 for c, _ in c2 if c["domain"] is not None),
        "csv3d_exact_mode": sum(1 for c, _ in c3 if _exact3(c)),
        "csv3d_has_domain_mismatch": sum(1 for c, _ in c3 if not _exact3(c)),
        "csv3d_empty_network": sum(1 for c, _ in c3 if not c["fracs"]),
        "csv3d_built_with_sort_points": sum(1 for c, _ in c3 if c["sort"]),
        "csv3d_fractures_read_back_in_other_vertex_order": sum(
            1 for c, o in c3 if _exact3(c) and isinstance(o.get("net"), dict) and "fracs" in o["net"]
            for h, b in zip(o["held"], o["net"]["fracs"]) if h != b),
        "csv3d_int_domain": sum(1 for c, _ in c3 if c.get("dom_int")),
        "csv3d_check_convexity_on": sum(1 for c, _ in c3 if c["check_convexity"]),
        "raw2d_modes": _hist([c["mode"] for c in cases if c["kind"] == "raw2d"]),
        "raw2d_polyline_flag_mismatch": sum(1 for c in cases if c["kind"] == "raw2d" and c["read"]["polyline"] != (c["mode"] == "polyline")),
        "raw_files_with_comment_or_blank_lines": sum(1 for c in cases if "lines" in c and any(isinstance(l, dict) or l == [] for l in c["lines"][1:])),
        "ell3d_degrees": sum(1 for c in cases if c["kind"] == "ell3d" and c["degrees"]),
        "txt_one_column": sum(1 for c in tx if len(c["cols"]) == 1),
        "txt_one_row": sum(1 for c in tx if c["cols"] and all(len(col["arr"]) == 1 for col in c["cols"])),
        "txt_zero_rows": sum(1 for c in tx if c["cols"] and all(len(col["arr"]) == 0 for col in c["cols"])),
        "txt_no_arrays": sum(1 for c in tx if not c["cols"]),
        "txt_unequal_lengths": sum(1 for c in tx if len({len(col["arr"]) for col in c["cols"]}) > 1),
        "txt_default_format_columns": sum(1 for c in tx for col in c["cols"] if col["fmt"] is None),
        "txt_faithful_format_columns": sum(1 for c in tx for col in c["cols"] if col["fmt"] in FAITHFUL_FMTS),
        "txt_names_outside_hypotheses (leading # / duplicate)": sum(1 for c in tx if c["cols"] and not _names_ok([col["name"] for col in c["cols"]])),
    }
    return {"kinds": kinds, "strata": strata, "csv2d_flavour_style": fl2, "error_outcomes_of_real_code": errs,
            "csv2d_with_shared_endpoints": shared,
            "csv2d_fracture_counts": _hist([len(c["fracs"]) for c in cases if c["kind"] == "csv2d"]),
            "csv3d_vertex_counts": _hist([len(f) for c in cases if c["kind"] == "csv3d" for f in c["fracs"]]),
            "txt_shapes": _hist([f"{len(c['cols'])}x{len(c['cols'][0]['arr']) if c['cols'] else 0}" for c in cases if c["kind"] == "txt"]),
            "txt_formats": _hist([_fmt_of(col) for c in cases if c["kind"] == "txt" for col in c["cols"]])}


def _hist(xs):
    h = {}
    for x in xs:
        h[str(x)] = h.get(str(x), 0) + 1
    return dict(sorted(h.items()))
