"""C22 Subgrid extraction and partitioning preserve the parent grid.

One case = one call of one function of porepy/grids/partition.py on a generated grid:
  extract        extract_subgrid(g, cells, sort)            (index arrays, boolean masks, duplicates, out of range)
  extract_faces  extract_subgrid(g, faces, faces=True)      (1-d -> 0-d, 2-d -> 1-d, 3-d -> 2-d)
  pstruct        partition_structured(g, num_part= / coarse_dims=)
  overlap        overlap(g, cell_ind, num_layers, criterion)
  pgrid          partition_grid(g, ind)
  pcoord         partition_coordinates(g, n)                (box search compared with the exact-rational model away from knife edges)
  dcd            determine_coarse_dimensions(n, fine)       (1-4 axes, compared exactly with the integer model)
  s2g            subgrid_to_grid_mapping(g, loc_faces, loc_cells, is_vector, nd)
  pwrap          partition(g, n)                            (wrapper: tensor grid -> partition_structured, else partition_coordinates)
  connected      grid_is_connected(g, cells)                (oracle only: networkx)
Index outputs are compared exactly with the Lean model (PorepyVerif/C22/Model.lean); the oracle checks the
property on the real code, including the recomputed geometry of the extracted grid.
"""
import functools
import random
import warnings
from fractions import Fraction

import numpy as np

from harness.common import err_kind, deep_compare, fracs, frac

PID = "C22"
THEOREMS = [
    "PorepyVerif.C22.extract_maps_point_to_parent",
    "PorepyVerif.C22.extract_cells_order",
    "PorepyVerif.C22.extract_faces_maps_point_to_parent",
    "PorepyVerif.C22.partition_grid_cells_once",
    "PorepyVerif.C22.axis_index_closed_form",
    "PorepyVerif.C22.partition_structured_cell",
    "PorepyVerif.C22.partition_structured_in_range",
    "PorepyVerif.C22.partition_structured_total",
    "PorepyVerif.C22.partition_structured_monotone",
    "PorepyVerif.C22.overlap_zero_id",
    "PorepyVerif.C22.overlap_monotone",
    "PorepyVerif.C22.overlap_contains_neighbours",
    "PorepyVerif.C22.overlap_layer_exact",
    "PorepyVerif.C22.first_occurrence_spec",
    "PorepyVerif.C22.extract_faces_sign_rule",
    "PorepyVerif.C22.extract_faces3_edges",
    "PorepyVerif.C22.edge_key_injective",
    "PorepyVerif.C22.exact_root_spec",
    "PorepyVerif.C22.coarse_dimensions_in_range",
    "PorepyVerif.C22.partition_structured_num_part",
    "PorepyVerif.C22.partition_coordinates_total",
    "PorepyVerif.C22.extract_geometry_local",
    "PorepyVerif.C22.expand_indices_spec",
    "PorepyVerif.C22.subgrid_to_grid_answers",
    "PorepyVerif.C22.hypotheses_decidable",
    "PorepyVerif.C22.partition_structured_answers_iff",
    "PorepyVerif.C22.partition_wrapper_tensor",
]
LEAN_MODULES = ["PorepyVerif.C22.Props"]
AUDIT = "PorepyVerif/C22/Audit.lean"
DRIVER = "PorepyVerif/C22/Driver.lean"
N = {"quick": 360, "thorough": 15000}
GEOM_TOL = 1e-12
RULE = ("one call per case; grids: CartGrid 1-d/2-d/3-d, StructuredTriangleGrid, StructuredTetrahedralGrid, fracture-split Cartesian 2-d/3-d "
        "(duplicated faces and nodes), sizes 1-12 cells per axis (2-d) / 1-4 (3-d), optionally mapped by a dyadic affine map (shear/stretch) and, "
        "where faces stay planar (2-d, simplices), node jitter up to 0.2 cell sizes; cell sets: single cell, all cells, empty, random subsets "
        "(mostly unconnected), face-connected blobs, boolean masks, unsorted with sort=False, ~8% malformed (duplicates, out of range, wrong mask "
        "size); face sets for faces=True: random (2-d), coplanar or random with is_planar=False (3-d), one or several points (1-d); "
        "partition_structured: fine dims incl. primes and 1, coarse_dims in [1, fine] (non-divisible mostly), num_part from 1 to beyond the "
        "cell count, ~8% malformed (coarse > fine, coarse = 0); overlap: depths 0-3, criteria node/face (also 'Node ', 'FACE'), duplicates in "
        "cell_ind, empty and out-of-range sets; partition_grid: ids with gaps and single-cell parts; determine_coarse_dimensions: 1-4 axes, sizes up to 40/20/9/4, targets 0, 1, perfect squares/cubes/4th powers, "
        "around and beyond the cell count; partition_coordinates: all grid types, targets 1-40. non-trivial = no error expected and the "
        "input is not the whole grid / empty; distinct = distinct (kind, grid, arguments)")
TRUSTED = [
    "determine_coarse_dimensions: the model replaces floor/ceil of the float np.power(target/prod, 1/k) by the exact integer k-th root (rootFloor/rootCeil, characterised by "
    "exact_root_spec). The float can deviate from it only when target/prod is an exact k-th power with k >= 3 (1/3 is not a binary fraction: 64**(1/3) = 3.9999999999999996, so floor gives 3 "
    "where the exact root gives 4); in that case only s_low differs and the search over roundings still reaches the exact root in every axis. The range theorem holds for ANY floor/ceil pair "
    "(RootOk), so it covers the float behaviour too; equality of model and code is checked by correspondence (exhaustive sweep over all fine <= 12 (1-d), 10x10, 6x6x6, 3^4 and ~40 targets each "
    "at build time: 13252 calls, 0 differences; random calls on every run incl. perfect powers)",
    "partition_coordinates: the box search is modelled over exact rationals (inputs = the binary64 centres/extents as exact rationals); the float code evaluates min + dx*k with rounding, so cases in "
    "which a centre is within 1e-9 (relative to the coordinate scale; found by thorough seed 9 on a grid scaled by 2^24, corpus pcoord-knife-edge-scale24) of a box boundary are not compared (counted in input_distribution; exact hits with binary64-exact box edges are compared). The preparation of the inputs "
    "(map_grid to natural coordinates, node extent, delta_int = ceil(n^(1/d)*delta/min delta)) is float glue done by the harness with the same calls as the code; the check_connectivity branch is not modelled",
    "grid_is_connected (networkx) is checked by the oracle only; partition_metis is skipped (pymetis not installed)",
    "modelled, not verified: scipy csc construction from (data, indices, indptr) keeps the stored order; coo->csc conversion in _extract_cells_from_faces_3d (columns compared as sorted "
    "(face, sign) lists); np.unique / np.sort / np.cumsum / np.meshgrid+swapaxes+ravel are modelled by usort / isort / cumsumFrom / nested flatMap",
    "geometry: Grid.compute_geometry is not modelled in Lean (that is C19); the locality argument is in EXPLANATION and the equality is checked by the oracle on the real code to 1e-12",
    "the planarity test of _extract_cells_from_faces_3d (float) is not modelled: the generator passes coplanar face sets with is_planar=True and arbitrary sets with is_planar=False",
    "the face-variant theorems cover node map and cell-node incidence (shared _extract_submatrix); the sign rule and the edge numbering of the lower-dimensional grid are modelled and compared, not proved",
]
EXPLANATION = (
    "FULL for the index maps, CORE for the geometry. Lean: extract_maps_point_to_parent (face_map/node_map are strictly increasing, contain exactly the faces of the "
    "selected cells / nodes of those faces, and the local incidence renumbered through the maps IS the parent's incidence on those cells and faces, signs included), "
    "extract_cells_order, partition_grid_cells_once; for faces=True: extract_faces_maps_point_to_parent, extract_faces_sign_rule (first-occurrence sign rule as coded, signed row sum 2-k resp. k-2 for a "
    "node/edge shared by k chosen faces: closed exactly for k=2, accepted grids have k<=3), extract_faces3_edges (faces of the 2-d grid = distinct undirected edges in lexicographic order, each an oriented "
    "edge of a cell; cell-face incidence = consecutive node pairs of the parent face), edge_key_injective; axis_index_closed_form (the cumulative-sum construction equals min(i div floor(f/c), c-1)), "
    "partition_structured_cell/in_range/total/monotone for 1-3 axes under 1 <= coarse <= fine; determine_coarse_dimensions over integers: exact_root_spec, coarse_dimensions_in_range (never the 'bug somewhere' "
    "error, 1 <= coarse <= fine per axis, 1 <= prod coarse <= prod fine, for ANY floor/ceil root pair; no bound relative to the target holds as coded: target 5 on 3x3 gives 9 parts), "
    "partition_structured_num_part (num_part variant = composition, in range and total); partition_coordinates_total (centres inside the node extent get exactly one box id in range, the box containing them). "
    "Observation, not a violation: np.any(hit_ceil) tests an INDEX array, so a ceiling hit in dimension 0 alone does not restart the search (determine_coarse_dimensions(50,[2,5,5]) = [2,4,4], 32 parts although 50 fit); "
    "the model reproduces it and coarse_dimensions_in_range shows the range property is unaffected. overlap_zero_id/monotone/contains_neighbours/layer_exact for any cell-entity relation "
    "(node or face criterion). Geometry (CORE, by oracle): compute_geometry computes face areas/centers/normals from the nodes of that face only, cell centers and volumes from "
    "sub-simplices spanned by the cell's own faces, their nodes and the cell's temporary center; since the extracted grid has the same node coordinates (g.nodes[:, node_map]), the same "
    "node order per face and the same signed cell-face entries for the selected cells (this is what the Lean theorem proves), the recomputed values are the same arithmetic on the same "
    "numbers; the only non-local ingredient is the unit plane normal of a 2-d grid (sum over all cells, normalised), equal up to rounding, and the sign flip of a face normal, fixed by the "
    "cell_faces signs which are preserved. The oracle recomputes the geometry of every extracted grid and compares volumes, centers, areas, face centers and outward normals to 1e-12. "
    "Clause map: 'index maps point to the matching parent entities' = extract_maps_point_to_parent (+ extract_faces_* for faces=True, expand_indices_spec/subgrid_to_grid_answers for subgrid_to_grid_mapping); "
    "'recomputed geometry equals the parent's' = extract_geometry_local (identical geometric input of every face and cell; that compute_geometry is a function of that input stays oracle-checked to 1e-12); "
    "'every cell exactly one part within range' = partition_structured_total/in_range/answers_iff, partition_structured_num_part, partition_wrapper_tensor, partition_coordinates_total, partition_grid_cells_once; "
    "'overlap only grows and contains all neighbours' = overlap_monotone, overlap_contains_neighbours (+ layer_exact, zero_id). The hypotheses 1 <= coarse <= fine and 'centres inside the node extent' are "
    "decidable (hypotheses_decidable) and evaluated by the driver on every case. "
    "Genuine defect found by this check and repaired in /repo (f7a883320): partition_structured raised UnboundLocalError on 1-d tensor grids (regression case in corpus)."
)
ASSUMPTIONS = [
    "indices passed to the functions are non-negative (numpy's negative-index wrap-around is outside the model)",
    "partition_structured theorems assume 1 <= coarse_dims[i] <= fine_dims[i] (checked by the oracle for determine_coarse_dimensions' output)",
]

warnings.simplefilter("ignore")

KINDS = ("extract", "extract_faces", "pstruct", "overlap", "pgrid", "pcoord", "connected", "dcd", "s2g", "pwrap")


# ----------------------------------------------------------------------------- grids
@functools.lru_cache(maxsize=None)
def _frac_grid(dims):
    import porepy as pp

    if len(dims) == 2:
        y = max(1, dims[1] // 2)
        x1 = max(1, dims[0] - 1) if dims[0] > 1 else 1
        fr = [np.array([[0 if dims[0] < 3 else 1, x1], [y, y]])]
    else:
        x = max(1, dims[0] // 2)
        fr = [np.array([[x, x, x, x], [0, dims[1], dims[1], 0], [0, 0, dims[2], dims[2]]])]
    mdg = pp.meshing.cart_grid(fr, list(dims))
    return mdg.subdomains(dim=len(dims))[0]


def build_grid(spec):
    """Deterministic grid from its JSON spec (fresh object every call)."""
    import porepy as pp

    t, dims = spec["type"], spec["dims"]
    if t == "cart":
        g = pp.CartGrid(np.array(dims))
    elif t == "tri":
        g = pp.StructuredTriangleGrid(np.array(dims))
    elif t == "tet":
        g = pp.StructuredTetrahedralGrid(np.array(dims))
    elif t == "frac":
        g = _frac_grid(tuple(dims)).copy()
    else:
        raise ValueError(t)
    nd = g.dim
    jit = spec.get("jit", 0)
    if jit:
        r = random.Random(spec.get("pseed", 0))
        off = np.array([[r.randint(-jit, jit) / 64.0 for _ in range(g.num_nodes)] for _ in range(nd)])
        g.nodes[:nd] += off
    aff = spec.get("aff")
    if aff:
        A = np.array([[float(Fraction(x)) for x in row] for row in aff])
        g.nodes[:nd] = A @ g.nodes[:nd]
    if spec.get("scale"):
        g.nodes[:nd] *= 2.0 ** spec["scale"]  # exact in binary64
    g.compute_geometry()
    return g


def topo(g):
    cf = g.cell_faces.tocsc()
    fn = g.face_nodes.tocsc()
    cols = lambda m: [m.indices[m.indptr[i]:m.indptr[i + 1]].tolist() for i in range(m.shape[1])]
    dat = lambda m: [[int(x) for x in m.data[m.indptr[i]:m.indptr[i + 1]]] for i in range(m.shape[1])]
    return {"cf_faces": cols(cf), "cf_signs": dat(cf), "fn": cols(fn)}


def cell_entities(g, crit):
    """cell -> sorted nodes (or faces), computed from cell_faces / face_nodes only (not from g.cell_nodes())."""
    t = topo(g)
    if crit == "face":
        return [sorted(set(fs)) for fs in t["cf_faces"]]
    return [sorted({n for f in fs for n in t["fn"][f]}) for fs in t["cf_faces"]]


def norm_crit(s):
    return s.lower().strip()


# ----------------------------------------------------------------------------- generator
def gen_grid(rng, tier, kinds=("cart2", "cart3", "tri", "tet", "frac2", "frac3", "cart1")):
    big = tier == "thorough"
    k = rng.choice(kinds)
    if k == "cart1":
        spec = {"type": "cart", "dims": [rng.randint(1, 9)]}
    elif k == "cart2":
        spec = {"type": "cart", "dims": [rng.randint(1, 7 if big else 5), rng.randint(1, 6 if big else 5)]}
    elif k == "cart3":
        spec = {"type": "cart", "dims": [rng.randint(1, 4 if big else 3), rng.randint(1, 3), rng.randint(1, 3)]}
    elif k == "tri":
        spec = {"type": "tri", "dims": [rng.randint(1, 4), rng.randint(1, 4)]}
    elif k == "tet":
        spec = {"type": "tet", "dims": [rng.randint(1, 2), rng.randint(1, 2), rng.randint(1, 2)]}
    elif k == "frac2":
        spec = {"type": "frac", "dims": rng.choice([[3, 2], [4, 4], [2, 2], [5, 3]])}
    else:
        spec = {"type": "frac", "dims": rng.choice([[2, 2, 2], [3, 2, 1]])}
    nd = len(spec["dims"])
    if nd >= 2 and rng.random() < 0.5:
        # dyadic affine map: unit lower-triangular shear times a diagonal stretch (keeps faces planar, orientation positive)
        A = [[Fraction(0)] * nd for _ in range(nd)]
        for i in range(nd):
            A[i][i] = Fraction(rng.choice([1, 1, 2, 3, 1]), rng.choice([1, 2, 4]))
            for j in range(i):
                A[i][j] = Fraction(rng.randint(-2, 2), 4)
        spec["aff"] = [[str(x) for x in row] for row in A]
    if rng.random() < 0.07:
        spec["scale"] = rng.choice([-20, -8, 12, 24])
    if spec["type"] in ("tri", "tet") or (spec["type"] == "cart" and nd == 2) or nd == 1:
        if rng.random() < 0.6:
            spec["jit"] = (rng.choice([2, 4, 6]) if spec["type"] == "tet" else rng.choice([3, 6, 12])) if nd > 1 else rng.choice([3, 12, 20])
            spec["pseed"] = rng.randrange(10**6)
            try:
                build_grid(spec)  # compute_geometry refuses inverted cells: keep only valid perturbed grids
            except ValueError:
                del spec["jit"], spec["pseed"]
    return spec


def _blob(rng, g, size):
    """face-connected set of cells grown from a random seed"""
    c2c = g.cell_connection_map().tocsr()
    cur = {rng.randrange(g.num_cells)}
    frontier = list(cur)
    while frontier and len(cur) < size:
        c = frontier.pop(rng.randrange(len(frontier)))
        nb = [int(x) for x in c2c.indices[c2c.indptr[c]:c2c.indptr[c + 1]] if int(x) not in cur]
        rng.shuffle(nb)
        for x in nb[: max(1, len(nb) // 2 + 1)]:
            if len(cur) < size:
                cur.add(x)
                frontier.append(x)
        if nb:
            frontier.append(c)
    return sorted(cur)


def gen_cells(rng, g, allow_empty=True):
    n = g.num_cells
    style = rng.choice(["single", "all", "random", "random", "random", "blob", "blob", "few", "empty" if allow_empty else "few"])
    if style == "single":
        return [rng.randrange(n)], style
    if style == "all":
        return list(range(n)), style
    if style == "empty":
        return [], style
    if style == "few":
        return sorted(rng.sample(range(n), min(n, 2))), style
    if style == "blob":
        return _blob(rng, g, rng.randint(1, max(1, n - 1))), style
    return sorted(rng.sample(range(n), rng.randint(1, n))), style


def _coplanar_faces(rng, g):
    """faces of a 3-d grid lying in one plane (by exact comparison of normals direction and offset of the unmapped structure)"""
    f0 = rng.randrange(g.num_faces)
    n0 = g.face_normals[:, f0] / np.linalg.norm(g.face_normals[:, f0])
    d0 = n0 @ g.face_centers[:, f0]
    nrm = g.face_normals / np.linalg.norm(g.face_normals, axis=0)
    par = np.abs(np.abs(n0 @ nrm) - 1) < 1e-9
    # every node of the face must lie in the plane
    fn = g.face_nodes.tocsc()
    ok = []
    for f in np.where(par)[0]:
        nodes = fn.indices[fn.indptr[f]:fn.indptr[f + 1]]
        if np.all(np.abs(n0 @ g.nodes[:, nodes] - d0) < 1e-9 * max(1.0, float(np.max(np.abs(g.nodes))))):
            ok.append(int(f))
    ok = ok or [f0]
    k = rng.randint(1, len(ok))
    return sorted(rng.sample(ok, k))


def gen_case(rng, tier):
    kind = rng.choices(KINDS, weights=[29, 12, 15, 15, 6, 6, 3, 10, 9, 5])[0]
    if kind == "extract":
        spec = gen_grid(rng, tier)
        g = build_grid(spec)
        cells, style = gen_cells(rng, g)
        case = {"kind": kind, "grid": spec, "cells": cells, "sort": True, "style": style}
        if rng.random() < 0.15:
            case["repeat"] = True  # the oracle calls twice on the same parent object: same answer, parent untouched
        r = rng.random()
        if r < 0.10:
            case["mask"] = [c in set(cells) for c in range(g.num_cells)]
            if rng.random() < 0.15:
                case["mask"] = case["mask"][:-1] if rng.random() < 0.5 else case["mask"] + [True]
                case["style"] = "mask-size"
        elif r < 0.28:
            rng.shuffle(cells)
            case["sort"] = rng.random() < 0.4
            case["style"] += "-unsorted"
        elif r < 0.33 and cells:
            case["cells"] = cells + [rng.choice(cells)]
            rng.shuffle(case["cells"])
            case["style"] = "duplicate"
        elif r < 0.36:
            case["cells"] = cells + [g.num_cells + rng.randint(0, 2)]
            case["style"] = "out-of-range"
        return case
    if kind == "extract_faces":
        spec = gen_grid(rng, tier, kinds=("cart2", "tri", "frac2", "cart3", "tet", "cart3", "cart1"))
        g = build_grid(spec)
        case = {"kind": kind, "grid": spec, "sort": True, "planar": True}
        if g.dim == 1:
            k = rng.choice([1, 1, 1, 2, 0])
            case["faces"] = sorted(rng.sample(range(g.num_faces), min(k, g.num_faces)))
        elif g.dim == 2:
            k = rng.choice([1, 2, rng.randint(1, g.num_faces), g.num_faces])
            case["faces"] = sorted(rng.sample(range(g.num_faces), k))
        else:
            if rng.random() < 0.6:
                case["faces"] = _coplanar_faces(rng, g)
            else:
                case["planar"] = False
                case["faces"] = sorted(rng.sample(range(g.num_faces), rng.randint(1, min(g.num_faces, 12))))
        if rng.random() < 0.2:
            rng.shuffle(case["faces"])  # sort=True puts them back in order
        if rng.random() < 0.03:
            case["faces"] = case["faces"] + [g.num_faces]
        elif rng.random() < 0.12 and g.dim > 1:
            fs = set(case["faces"])
            case["mask"] = [f in fs for f in range(g.num_faces)]
            case["faces"] = sorted(fs)
            if rng.random() < 0.2:
                case["mask"] = case["mask"][:-1]
        return case
    if kind == "s2g":
        spec = gen_grid(rng, tier)
        g = build_grid(spec)
        cells, style = gen_cells(rng, g, allow_empty=False)
        case = {"kind": kind, "grid": spec, "cells": cells, "nd": rng.choice([None, None, 1, 2, 3]), "vector": rng.random() < 0.6, "style": "ok"}
        r = rng.random()
        if r < 0.08:
            case["bad"] = "face"    # a local face index beyond the parent
            case["style"] = "out-of-range"
        elif r < 0.14:
            case["bad"] = "cell"
            case["style"] = "out-of-range"
        elif r < 0.40:
            case["style"] = "permuted"  # loc arrays in permuted order (the function does not require sorted input)
        elif r < 0.46:
            case["style"] = "duplicates"
        return case
    if kind == "pwrap":
        if rng.random() < 0.7:
            nd = rng.choice([1, 2, 2, 3])
            hi = {1: 14, 2: 9, 3: 5}[nd]
            spec = {"type": "cart", "dims": [rng.choice([1, 2, rng.randint(1, hi), hi]) for _ in range(nd)]}
        else:
            spec = gen_grid(rng, tier, kinds=("tri", "tet", "cart2", "frac2"))
        return {"kind": kind, "grid": spec, "num": rng.choice([1, 2, 3, 4, 6, 9, 25, 1000])}
    if kind == "dcd":
        nd = rng.choice([1, 2, 2, 3, 3, 3, 4])
        hi = {1: 40, 2: 20, 3: 9, 4: 4}[nd]
        fine = [rng.choice([1, 2, rng.randint(1, hi), rng.randint(1, hi), hi]) for _ in range(nd)]
        tot = int(np.prod(fine))
        cubes = [n ** k for n in range(1, 8) for k in (2, 3, 4)]
        return {"kind": kind, "grid": {"type": "none", "dims": fine},
                "target": rng.choice([0, 1, 2, tot - 1, tot, tot + 5, rng.choice(cubes), rng.randint(1, tot + 2), rng.randint(1, tot + 2), rng.randint(1, 60)])}
    if kind == "pstruct":
        nd = rng.choice([1, 2, 2, 2, 3, 3])
        hi = {1: 14, 2: 12, 3: 6}[nd] + (3 if tier == "thorough" else 0)
        fine = [rng.choice([1, 2, 3, 5, 7, 11, rng.randint(1, hi), rng.randint(1, hi)]) for _ in range(nd)]
        fine = [min(f, hi) for f in fine]
        case = {"kind": kind, "grid": {"type": "cart", "dims": fine}}
        if rng.random() < 0.5:
            coarse = [rng.randint(1, f) for f in fine]
            r = rng.random()
            if r < 0.08:
                i = rng.randrange(nd)
                coarse[i] = fine[i] + rng.randint(1, 2)
            elif r < 0.11:
                coarse[rng.randrange(nd)] = 0
            case["coarse"] = coarse
        else:
            tot = int(np.prod(fine))
            case["num_part"] = rng.choice([1, 2, 3, 4, 5, 7, 16, tot, tot + 3, rng.randint(1, tot + 1), rng.randint(1, tot + 1)])
        return case
    if kind == "overlap":
        spec = gen_grid(rng, tier)
        g = build_grid(spec)
        cells, style = gen_cells(rng, g)
        if style == "random" and len(cells) > 3:
            cells = cells[: rng.randint(1, 3)]
        if rng.random() < 0.15 and cells:
            cells = cells + [rng.choice(cells)]
            rng.shuffle(cells)
        if rng.random() < 0.03:
            cells = cells + [g.num_cells]
        return {"kind": kind, "grid": spec, "cells": cells, "layers": rng.choice([0, 1, 1, 2, 3]),
                "criterion": rng.choice(["node", "node", "face", "face", "Node ", "FACE"])}
    if kind == "pgrid":
        spec = gen_grid(rng, tier)
        g = build_grid(spec)
        npart = rng.randint(1, min(g.num_cells, 5))
        ids = sorted(rng.sample(range(8), npart))
        ind = [rng.choice(ids) for _ in range(g.num_cells)]
        return {"kind": kind, "grid": spec, "ind": ind}
    if kind == "pcoord":
        spec = gen_grid(rng, tier)
        return {"kind": kind, "grid": spec, "num": rng.choice([1, 2, 3, 4, 5, 8, 13, 40])}
    spec = gen_grid(rng, tier)
    g = build_grid(spec)
    cells, _ = gen_cells(rng, g, allow_empty=False)
    return {"kind": "connected", "grid": spec, "cells": cells if rng.random() < 0.8 else None}


# ----------------------------------------------------------------------------- real code
def _cols(m):
    m = m.tocsc()
    return [[int(x) for x in m.indices[m.indptr[i]:m.indptr[i + 1]]] for i in range(m.shape[1])]


def _dat(m):
    m = m.tocsc()
    return [[int(x) for x in m.data[m.indptr[i]:m.indptr[i + 1]]] for i in range(m.shape[1])]


def _ints(a):
    return [int(x) for x in np.atleast_1d(a)]


def _sub_out(h, fm, nm):
    return {"cells": _ints(h.parent_cell_ind), "face_map": _ints(fm), "node_map": _ints(nm),
            "cf_faces": _cols(h.cell_faces), "cf_signs": _dat(h.cell_faces), "fn": _cols(h.face_nodes)}


def _call_extract(P, g, case):
    if "mask" in case:
        c = np.array(case["mask"], dtype=bool)
    else:
        c = np.array(case["cells"], dtype=int)
    return P.extract_subgrid(g, c, sort=case["sort"])


def _faces_arg(case):
    return np.array(case["mask"], dtype=bool) if "mask" in case else np.array(case["faces"], dtype=int)


def _s2g_args(g, case):
    """loc_faces / loc_cells of a sub-grid extracted from g (real extract_subgrid), then distorted per the case's stratum"""
    from porepy.grids import partition as P

    _, fm, _ = P.extract_subgrid(g, np.array(case["cells"], dtype=int))
    lf, lc = _ints(fm), sorted(case["cells"])
    r = random.Random(str(case["cells"]))
    if case.get("style") == "permuted":
        r.shuffle(lf)
        r.shuffle(lc)
    elif case.get("style") == "duplicates":
        lf = lf + lf[:1]
        lc = lc + lc[-1:]
    if case.get("bad") == "face":
        lf = lf + [g.num_faces]
    if case.get("bad") == "cell":
        lc = [g.num_cells + 1] + lc
    return lf, lc


def _coarse_for(case):
    """coarse dims of a pstruct case: given, or what the REAL determine_coarse_dimensions returns (trusted, see TRUSTED)"""
    from porepy.grids import partition as P

    if "coarse" in case:
        return [int(c) for c in case["coarse"]]
    return [int(c) for c in P.determine_coarse_dimensions(case["num_part"], np.array(case["grid"]["dims"]))]


def _pcoord_inputs(g, n):
    """inputs of the box search exactly as partition_coordinates prepares them (map to natural coordinates, node extent,
    integer extents delta_int); float glue, trusted -- the search itself is the model's"""
    import porepy as pp

    if g.dim in (1, 2):
        g = g.copy()
        cell_centers, *_, nodes = pp.map_geometry.map_grid(g)
        cc = np.atleast_2d(cell_centers)[: g.dim]
        nodes = np.atleast_2d(nodes)[: g.dim]
    else:
        cc, nodes = g.cell_centers[: g.dim], g.nodes[: g.dim]
    lo, hi = np.min(nodes, axis=1), np.max(nodes, axis=1)
    delta = hi - lo
    delta_int = np.ceil(np.power(n, 1 / g.dim) * delta / np.min(delta)).astype("int")
    return cc, lo, hi, delta, [int(x) for x in delta_int]


def _sorted_cols(faces, signs):
    return [sorted(zip(f, s)) for f, s in zip(faces, signs)]


def impl_run(case):
    from porepy.grids import partition as P

    kind = case["kind"]
    if kind == "connected":
        return {"skip": True}
    if kind == "pcoord":
        g = build_grid(case["grid"])
        try:
            return {"part": _ints(P.partition_coordinates(g, case["num"], check_connectivity=False))}
        except Exception as e:
            return err_kind(e)
    if kind == "s2g":
        g = build_grid(case["grid"])
        lf, lc = _s2g_args(g, case)
        nd = case["nd"] if case["nd"] is not None else g.dim
        try:
            fmap, cmap = P.subgrid_to_grid_mapping(g, np.array(lf, dtype=int), np.array(lc, dtype=int), case["vector"], case["nd"])
        except Exception as e:
            return err_kind(e)
        k = nd if case["vector"] else 1
        if fmap.shape != (g.num_faces * k, len(lf) * k) or cmap.shape != (len(lc) * k, g.num_cells * k):
            return {"shape": [list(fmap.shape), list(cmap.shape)]}
        fc, cc = fmap.tocoo(), cmap.tocoo()
        if not (np.all(fc.data == 1) and np.all(cc.data == 1)):
            return {"data": "not all ones"}
        return {"face_rows": [int(r) for _, r in sorted(zip(fc.col.tolist(), fc.row.tolist()))],
                "cell_cols": [int(c) for _, c in sorted(zip(cc.row.tolist(), cc.col.tolist()))]}
    if kind == "pwrap":
        g = build_grid(case["grid"])
        try:
            return {"part": _ints(P.partition(g, case["num"]))}
        except Exception as e:
            return err_kind(e)
    if kind == "dcd":
        try:
            return {"coarse": _ints(P.determine_coarse_dimensions(max(case["target"], 0), np.array(case["grid"]["dims"])))}
        except Exception as e:
            return err_kind(e)
    g = build_grid(case["grid"])
    try:
        if kind == "extract":
            h, fm, nm = _call_extract(P, g, case)
            return _sub_out(h, fm, nm)
        if kind == "extract_faces":
            h, f, nm = P.extract_subgrid(g, _faces_arg(case), sort=case["sort"], faces=True, is_planar=case["planar"])
            out = {"faces": _ints(f), "node_map": _ints(nm)}
            if g.dim > 1:
                out["cf"] = [[list(p) for p in col] for col in _sorted_cols(_cols(h.cell_faces), _dat(h.cell_faces))]
                out["fn"] = _cols(h.face_nodes)
            return out
        if kind == "pstruct":
            if "coarse" in case:
                p = P.partition_structured(g, coarse_dims=np.array(case["coarse"]))
            else:
                p = P.partition_structured(g, num_part=case["num_part"])
            out = {"part": _ints(p)}
            if "num_part" in case:
                out["coarse"] = _coarse_for(case)
            return out
        if kind == "overlap":
            r = P.overlap(g, np.array(case["cells"], dtype=int), case["layers"], case["criterion"])
            return {"cells": _ints(r)}
        if kind == "pgrid":
            sg, fms, nms = P.partition_grid(g, np.array(case["ind"], dtype=int))
            return [_sub_out(h, fm, nm) for h, fm, nm in zip(sg, fms, nms)]
    except Exception as e:
        return err_kind(e)
    raise ValueError(kind)


# ----------------------------------------------------------------------------- model
def model_ops(case):
    kind = case["kind"]
    if kind == "connected":
        return []
    if kind == "pcoord":
        g = build_grid(case["grid"])
        cc, lo, hi, delta, delta_int = _pcoord_inputs(g, case["num"])
        return [{"op": "pcoord", "lo": fracs(lo), "hi": fracs(hi), "num": case["num"], "delta_int": delta_int,
                 "cc": [fracs(cc[:, i]) for i in range(cc.shape[1])]}]
    if kind == "s2g":
        g = build_grid(case["grid"])
        lf, lc = _s2g_args(g, case)
        nd = case["nd"] if case["nd"] is not None else g.dim
        return [{"op": "s2g", "num_faces": g.num_faces, "num_cells": g.num_cells, "loc_faces": lf, "loc_cells": lc, "nd": nd if case["vector"] else 1}]
    if kind == "pwrap":
        g = build_grid(case["grid"])
        if hasattr(g, "cart_dims"):
            return [{"op": "pwrap", "num": case["num"], "fine": _ints(g.cart_dims)}]
        cc, lo, hi, delta, delta_int = _pcoord_inputs(g, case["num"])
        return [{"op": "pcoord", "lo": fracs(lo), "hi": fracs(hi), "num": case["num"], "delta_int": delta_int,
                 "cc": [fracs(cc[:, i]) for i in range(cc.shape[1])]}]
    if kind == "dcd":
        return [{"op": "dcd", "target": max(case["target"], 0), "fine": case["grid"]["dims"]}]
    if kind == "pstruct":
        ops = [{"op": "pstruct", "fine": case["grid"]["dims"], "coarse": _coarse_for(case)}]
        if "num_part" in case:  # the model's own determine_coarse_dimensions must agree with the real one
            ops.append({"op": "dcd", "target": case["num_part"], "fine": case["grid"]["dims"]})
        return ops
    g = build_grid(case["grid"])
    t = topo(g)
    if kind == "extract":
        if "mask" in case:
            return [dict(t, op="extract_mask", mask=case["mask"], sort=case["sort"])]
        return [dict(t, op="extract", cells=case["cells"], sort=case["sort"])]
    if kind == "extract_faces":
        if "mask" in case and len(case["mask"]) != g.num_faces:
            return [{"op": "extract_mask", "cf_faces": [], "cf_signs": [], "fn": [], "mask": [True], "sort": True}]  # IndexError branch
        return [{"op": "extract_faces", "fn": t["fn"], "faces": case["faces"], "dim": g.dim, "sort": case["sort"]}]
    if kind == "overlap":
        return [{"op": "overlap", "ce": cell_entities(g, norm_crit(case["criterion"])), "cells": case["cells"], "layers": case["layers"]}]
    if kind == "pgrid":
        return [dict(t, op="pgrid", ind=case["ind"])]
    raise ValueError(kind)


def model_decode(outs, case):
    if not outs:
        return {"skip": True}
    o = outs[0]
    if case["kind"] == "pstruct" and len(outs) == 2:
        o = dict(o, coarse=outs[1].get("coarse", outs[1]))
    if case["kind"] == "extract_faces" and isinstance(o, dict) and "cf_faces" in o:
        o = dict(o)
        o["cf"] = [[list(p) for p in col] for col in _sorted_cols(o.pop("cf_faces"), o.pop("cf_signs"))]
    return o


HYP_COUNTS = {"dims_ok": 0, "dims_not_ok": 0, "centres_inside": 0, "centres_outside": 0}
PCOORD_SKIPPED = [0, 0]  # [compared, skipped because a centre is within 1e-9 (relative to the coordinate scale) of a box boundary]


def compare(impl, model, case):
    if case["kind"] == "connected":
        return None
    if case["kind"] == "pstruct" and isinstance(model, dict) and "hyp" in model:
        model = dict(model)
        hyp = model.pop("hyp")
        HYP_COUNTS["dims_ok" if hyp else "dims_not_ok"] += 1
        if hyp and not (isinstance(impl, dict) and "part" in impl):
            return f"1 <= coarse <= fine holds (decided by the driver) but the real partition_structured did not answer: {impl}"
        return deep_compare(impl, model)
    if case["kind"] == "pwrap" and "res" not in model:
        return deep_compare(impl, model)
    if case["kind"] in ("pcoord", "pwrap"):
        HYP_COUNTS["centres_inside" if model["hyp"] else "centres_outside"] += 1
        if not model["hyp"]:
            return "a cell centre lies outside the node extent [lo, hi): hypothesis of partition_coordinates_total fails on a generated grid"
        # the float code and the exact model may legitimately differ when a cell centre is within rounding distance of a box
        # boundary; such cases are not compared, unless the boundary is hit exactly and every box edge is binary64-exact
        margin = Fraction(model["margin"])
        g = build_grid(case["grid"])
        _, lo, hi, delta, _ = _pcoord_inputs(g, case["num"])
        # knife edge = within 1e-9 of a box boundary RELATIVE to the size of the coordinates involved (min + dx*k is rounded at that scale)
        scale = Fraction(max(float(np.max(np.abs(lo))), float(np.max(np.abs(hi))), float(np.max(delta))))
        if margin < scale / 10**9:
            exact = all(Fraction(float(d)) / c == Fraction(float(d) / c) for d, c in zip(delta, model["coarse"]))
            if not (margin == 0 and exact):
                PCOORD_SKIPPED[1] += 1
                return None
        PCOORD_SKIPPED[0] += 1
        return deep_compare(impl, model["res"])
    return deep_compare(impl, model)


# ----------------------------------------------------------------------------- oracle
def _fail(what, key):
    return {"what": what, "key": key}


def _close(a, b, scale):
    a, b = np.asarray(a, dtype=float), np.asarray(b, dtype=float)
    if a.shape != b.shape:
        return False
    if a.size == 0:
        return True
    return bool(np.all(np.abs(a - b) <= GEOM_TOL * max(1.0, scale)))


def _outward(g):
    t = topo(g)
    return [{f: g.face_normals[:, f] * s for f, s in zip(fs, ss)} for fs, ss in zip(t["cf_faces"], t["cf_signs"])]


def _check_sub(g, h, fm, nm, cells, tag, geometry=True):
    """the extraction part of the property for one (parent, child, maps, cell list)"""
    tg, th = topo(g), topo(h)
    fm, nm = _ints(fm), _ints(nm)
    if _ints(h.parent_cell_ind) != list(cells) or h.num_cells != len(cells):
        return _fail(f"{tag}: parent_cell_ind {_ints(h.parent_cell_ind)} is not the requested cell list {list(cells)}", f"{tag}-cells")
    want_f = sorted({f for c in cells for f in tg["cf_faces"][c]})
    if fm != want_f:
        return _fail(f"{tag}: face_map {fm} is not the sorted set of faces of the extracted cells {want_f}", f"{tag}-face-map")
    want_n = sorted({n for f in want_f for n in tg["fn"][f]})
    if nm != want_n:
        return _fail(f"{tag}: node_map {nm} is not the sorted set of nodes of the extracted faces {want_n}", f"{tag}-node-map")
    if h.num_faces != len(fm) or h.num_nodes != len(nm) or h.dim != g.dim:
        return _fail(f"{tag}: sub-grid sizes ({h.num_faces},{h.num_nodes},dim {h.dim}) do not match the maps", f"{tag}-sizes")
    for j, c in enumerate(cells):
        loc = sorted((fm[lf], s) for lf, s in zip(th["cf_faces"][j], th["cf_signs"][j]))
        par = sorted(zip(tg["cf_faces"][c], tg["cf_signs"][c]))
        if loc != par:
            return _fail(f"{tag}: cell {j} of the sub-grid has signed faces {loc} (parent numbering), parent cell {c} has {par}", f"{tag}-cell-faces")
    for i, f in enumerate(fm):
        loc = [nm[ln] for ln in th["fn"][i]]
        if loc != tg["fn"][f]:
            return _fail(f"{tag}: face {i} of the sub-grid has nodes {loc} (parent numbering), parent face {f} has {tg['fn'][f]}", f"{tag}-face-nodes")
    if not np.array_equal(h.nodes, g.nodes[:, nm]):
        return _fail(f"{tag}: node coordinates of the sub-grid differ from the parent's at node_map", f"{tag}-node-coordinates")
    if not geometry:
        return None
    scale = float(np.max(np.abs(g.nodes))) if g.num_nodes else 1.0
    # (i) copied geometry
    for name, a, b in (("cell_volumes", h.cell_volumes, g.cell_volumes[cells]), ("cell_centers", h.cell_centers, g.cell_centers[:, cells]),
                       ("face_areas", h.face_areas, g.face_areas[fm]), ("face_centers", h.face_centers, g.face_centers[:, fm]),
                       ("face_normals", h.face_normals, g.face_normals[:, fm])):
        if not np.array_equal(a, b):
            return _fail(f"{tag}: copied {name} differ from the parent's on the extracted entities", f"{tag}-copied-{name}")
    # (ii) recomputed geometry
    if h.num_cells == 0:
        return None
    h2 = h.copy()
    h2.compute_geometry()
    L = scale ** max(1, g.dim)
    for name, a, b, sc in (("cell_volumes", h2.cell_volumes, g.cell_volumes[cells], L), ("cell_centers", h2.cell_centers, g.cell_centers[:, cells], scale),
                           ("face_areas", h2.face_areas, g.face_areas[fm], L), ("face_centers", h2.face_centers, g.face_centers[:, fm], scale)):
        if not _close(a, b, sc):
            return _fail(f"{tag}: recomputed {name} of the sub-grid differ from the parent's (max diff {np.max(np.abs(np.asarray(a) - np.asarray(b))):.3e})", f"{tag}-recomputed-{name}")
    og, oh = _outward(g), _outward(h2)
    for j, c in enumerate(cells):
        for lf, nvec in oh[j].items():
            if not _close(nvec, og[c][fm[lf]], L):
                return _fail(f"{tag}: recomputed outward normal of sub-grid cell {j}, face {lf} differs from the parent's (cell {c}, face {fm[lf]})", f"{tag}-recomputed-normals")
    return None


def _bfs_components(adj, nodes):
    nodes = list(nodes)
    seen, comps = set(), []
    s = set(nodes)
    for v in nodes:
        if v in seen:
            continue
        comp, stack = [], [v]
        seen.add(v)
        while stack:
            x = stack.pop()
            comp.append(x)
            for y in adj[x]:
                if y in s and y not in seen:
                    seen.add(y)
                    stack.append(y)
        comps.append(sorted(comp))
    return comps


def _face_adjacency(g):
    t = topo(g)
    by_face = {}
    for c, fs in enumerate(t["cf_faces"]):
        for f in fs:
            by_face.setdefault(f, []).append(c)
    adj = [set() for _ in range(g.num_cells)]
    for f, cs in by_face.items():
        for a in cs:
            for b in cs:
                if a != b:
                    adj[a].add(b)
    return adj


def _oracle_extract(P, g, case):
    ncell = g.num_cells
    if "mask" in case:
        bad = len(case["mask"]) != ncell
        cells = [i for i, b in enumerate(case["mask"]) if b]
    else:
        cells = list(case["cells"])
        bad = any(c >= ncell for c in cells)
    dup = len(set(cells)) != len(cells)
    before = (topo(g), g.nodes.copy(), g.cell_volumes.copy(), g.face_normals.copy()) if case.get("repeat") else None
    try:
        h, fm, nm = _call_extract(P, g, case)
        if before is not None:
            h_b, fm_b, nm_b = _call_extract(P, g, case)
            if _sub_out(h, fm, nm) != _sub_out(h_b, fm_b, nm_b):
                return _fail("extract_subgrid called twice on the same parent gave different sub-grids", "extract-not-repeatable")
            if topo(g) != before[0] or not (np.array_equal(g.nodes, before[1]) and np.array_equal(g.cell_volumes, before[2]) and np.array_equal(g.face_normals, before[3])):
                return _fail("extract_subgrid modified the parent grid", "extract-mutates-parent")
    except IndexError:
        return None if bad else _fail(f"extract_subgrid raised IndexError for valid cells {cells}", "extract-unexpected-IndexError")
    except ValueError:
        return None if dup else _fail(f"extract_subgrid raised ValueError for valid distinct cells {cells}", "extract-unexpected-ValueError")
    if bad:
        return _fail(f"extract_subgrid accepted out-of-range cells / a mask of the wrong size ({cells}, {ncell} cells)", "extract-no-IndexError")
    want = sorted(cells) if case["sort"] else cells
    if dup:
        return None  # duplicated cells: behaviour compared with the model only
    return _check_sub(g, h, fm, nm, want, "extract")


def _oracle_faces(P, g, case):
    faces = list(case["faces"])
    bad = any(f >= g.num_faces for f in faces) or ("mask" in case and len(case["mask"]) != g.num_faces)
    want_assert = g.dim == 1 and len(faces) != 1
    try:
        h, f, nm = P.extract_subgrid(g, _faces_arg(case), sort=case["sort"], faces=True, is_planar=case["planar"])
    except IndexError:
        return None if bad else _fail(f"extract_subgrid(faces=True) raised IndexError for valid faces {faces}", "faces-unexpected-IndexError")
    except ValueError:
        # Grid.__init__ rejects a lower-dimensional grid in which a node (2-d parent) / an edge (3-d parent) is shared by >= 4 of the faces
        tg = topo(g)
        cnt = {}
        for x in faces:
            pn = tg["fn"][x]
            ents = [(n,) for n in pn] if g.dim == 2 else [tuple(sorted((pn[i], pn[(i + 1) % len(pn)]))) for i in range(len(pn))]
            for e in ents:
                cnt[e] = cnt.get(e, 0) + 1
        if g.dim >= 2 and not bad and max(cnt.values(), default=0) >= 4:
            return None
        return _fail(f"extract_subgrid(faces=True) raised ValueError for faces {faces} of a {g.dim}-d grid", "faces-unexpected-ValueError")
    except AssertionError:
        return None if want_assert else _fail(f"extract_subgrid(faces=True) raised AssertionError for faces {faces} of a {g.dim}-d grid", "faces-unexpected-AssertionError")
    if bad or want_assert:
        return _fail(f"extract_subgrid(faces=True) accepted invalid faces {faces}", "faces-no-error")
    tg = topo(g)
    fs = sorted(faces)
    f, nm = _ints(f), _ints(nm)
    if f != fs:
        return _fail(f"faces=True: returned face list {f} is not the sorted input {fs}", "faces-face-list")
    want_n = sorted({n for x in fs for n in tg["fn"][x]})
    if nm != want_n:
        return _fail(f"faces=True: node map {nm} is not the sorted set of nodes of the faces {want_n}", "faces-node-map")
    if h.dim != g.dim - 1 or h.num_cells != len(fs):
        return _fail(f"faces=True: result has dim {h.dim}, {h.num_cells} cells for {len(fs)} faces of a {g.dim}-d grid", "faces-sizes")
    if g.dim == 1:  # a PointGrid has no nodes; its cell center is the point
        if not (np.array_equal(h.cell_centers, g.nodes[:, nm]) and np.array_equal(h.cell_centers, g.face_centers[:, fs])):
            return _fail("faces=True (1-d): the point grid's center is not the parent's node / face center", "faces-node-coordinates")
        return None
    if not np.array_equal(h.nodes, g.nodes[:, nm]):
        return _fail("faces=True: node coordinates differ from the parent's at the node map", "faces-node-coordinates")
    if not (np.array_equal(h.cell_volumes, g.face_areas[fs]) and np.array_equal(h.cell_centers, g.face_centers[:, fs])):
        return _fail("faces=True: cell volumes / centers are not the parent's face areas / centers", "faces-copied-geometry")
    th = topo(h)
    cn = [sorted({nm[n] for lf in lfs for n in th["fn"][lf]}) for lfs in th["cf_faces"]]
    for j, x in enumerate(fs):
        if cn[j] != sorted(tg["fn"][x]):
            return _fail(f"faces=True: cell {j} has nodes {cn[j]} (parent numbering) but parent face {x} has {sorted(tg['fn'][x])}", "faces-cell-nodes")
        if g.dim == 3:
            pn = tg["fn"][x]
            want_e = sorted(tuple(sorted((pn[i], pn[(i + 1) % len(pn)]))) for i in range(len(pn)))
            got_e = sorted(tuple(sorted(nm[n] for n in th["fn"][lf])) for lf in th["cf_faces"][j])
            if want_e != got_e:
                return _fail(f"faces=True: cell {j} has edges {got_e}, the boundary of parent face {x} is {want_e}", "faces-cell-edges")
    # faces of the new grid are distinct entities: two cells sharing a node / an edge share the face
    fsets = [tuple(sorted(nm[n] for n in col)) for col in th["fn"]]
    if len(set(fsets)) != len(fsets):
        return _fail(f"faces=True: the new grid has several faces with the same nodes (parent numbering) {sorted(x for x in set(fsets) if fsets.count(x) > 1)}: "
                     "neighbouring cells are not connected through a common face", "faces-duplicate-faces")
    # every face of the new grid is used
    used = sorted({lf for lfs in th["cf_faces"] for lf in lfs})
    if used != list(range(h.num_faces)):
        return _fail("faces=True: the new grid has faces not used by any cell", "faces-unused-faces")
    if case["planar"]:
        h2 = h.copy()
        h2.compute_geometry()
        scale = float(np.max(np.abs(g.nodes)))
        if not (_close(h2.cell_volumes, g.face_areas[fs], scale ** 2) and _close(h2.cell_centers, g.face_centers[:, fs], scale)):
            return _fail("faces=True: recomputed cell volumes / centers differ from the parent's face areas / centers", "faces-recomputed-geometry")
    return None


def _oracle_pstruct(P, g, case):
    fine = list(case["grid"]["dims"])
    nd = len(fine)
    if "coarse" in case:
        coarse = list(case["coarse"])
        if any(c < 1 or c > f for c, f in zip(coarse, fine)):
            # outside the precondition; behaviour compared with the model only -- except that the missing 1-d branch shows here too
            try:
                P.partition_structured(g, coarse_dims=np.array(coarse))
            except UnboundLocalError as e:
                return _fail(f"partition_structured(CartGrid({fine}), coarse={coarse}) raised UnboundLocalError: {e}", f"partition_structured-{nd}d-UnboundLocalError")
            except Exception:
                pass
            return None
    else:
        n = case["num_part"]
        coarse = _ints(P.determine_coarse_dimensions(n, np.array(fine)))
        r = _check_coarse(n, fine, coarse)
        if r:
            return r
    try:
        if "coarse" in case:
            p = P.partition_structured(g, coarse_dims=np.array(coarse))
        else:
            p = P.partition_structured(g, num_part=case["num_part"])
    except Exception as e:
        key = f"partition_structured-{nd}d-{type(e).__name__}"
        return _fail(f"partition_structured(CartGrid({fine}), coarse={coarse}) raised {type(e).__name__}: {e}", key)
    p = np.asarray(p)
    npart = int(np.prod(coarse))
    if p.shape != (g.num_cells,) or not np.issubdtype(p.dtype, np.integer):
        return _fail(f"partition vector has shape {p.shape}, dtype {p.dtype} for {g.num_cells} cells", "pstruct-shape")
    if p.min() < 0 or p.max() >= npart:
        return _fail(f"partition_structured(CartGrid({fine}), coarse={coarse}): ids span [{p.min()}, {p.max()}], allowed [0, {npart})", "pstruct-out-of-range")
    if sorted(set(p.tolist())) != list(range(npart)):
        return _fail(f"partition_structured(CartGrid({fine}), coarse={coarse}): used ids {sorted(set(p.tolist()))}, not all of range({npart})", "pstruct-unused-ids")
    # tensor structure: id(x, y, z) = ax[x] + c0*ay[y] + c0*c1*az[z], every axis map monotone with steps 0/1 from 0 to c-1
    shp = list(reversed(fine))
    q = p.reshape(shp)  # index order (z, y, x)
    strides = [1]
    for c in coarse[:-1]:
        strides.append(strides[-1] * c)
    axes = []
    for a in range(nd):
        sl = [0] * nd
        sl[nd - 1 - a] = slice(None)
        line = q[tuple(sl)]
        if np.any(line % strides[a] != 0) and a > 0:
            return _fail(f"axis {a} of the partition does not step in multiples of {strides[a]}", "pstruct-not-tensor")
        ax = (line // strides[a]).tolist()
        axes.append(ax)
        if ax[0] != 0 or ax[-1] != coarse[a] - 1 or any(b - a_ not in (0, 1) for a_, b in zip(ax, ax[1:])):
            return _fail(f"partition_structured(CartGrid({fine}), coarse={coarse}): coarse index along axis {a} is {ax}, not monotone from 0 to {coarse[a] - 1} in steps of 0/1", "pstruct-axis-not-monotone")
    idx = np.indices(shp)
    want = sum(np.array(axes[a])[idx[nd - 1 - a]] * strides[a] for a in range(nd))
    if not np.array_equal(want, q):
        return _fail(f"partition_structured(CartGrid({fine}), coarse={coarse}) is not the tensor product of its axis maps", "pstruct-not-tensor")
    return None


def _oracle_overlap(P, g, case):
    n = g.num_cells
    cells = list(case["cells"])
    crit = norm_crit(case["criterion"])
    ce = [set(x) for x in cell_entities(g, crit)]
    call = lambda k: _ints(P.overlap(g, np.array(cells, dtype=int), k, case["criterion"]))
    if any(c >= n for c in cells):
        try:
            call(case["layers"])
        except IndexError:
            return None
        return _fail(f"overlap accepted out-of-range cells {cells} ({n} cells)", "overlap-no-IndexError")
    key = f"overlap-{crit}"
    try:
        res = [call(k) for k in range(case["layers"] + 2)]
    except Exception as e:
        return _fail(f"overlap(cells={cells}, layers<= {case['layers'] + 1}, {crit}) raised {type(e).__name__}: {e}", f"{key}-{type(e).__name__}")
    if res[0] != sorted(set(cells)):
        return _fail(f"overlap(cells={cells}, 0 layers) = {res[0]}, expected the sorted input set", f"{key}-zero-not-identity")
    for k, r in enumerate(res):
        if r != sorted(set(r)) or any(c < 0 or c >= n for c in r):
            return _fail(f"overlap result for {k} layers is not a sorted duplicate-free list of cells: {r}", f"{key}-not-sorted-unique")
    for k in range(len(res) - 1):
        a, b = set(res[k]), set(res[k + 1])
        if not a <= b:
            return _fail(f"overlap(cells={cells}, {crit}): layer {k + 1} lost cells {sorted(a - b)} of layer {k}", f"{key}-not-monotone")
        ents = set().union(*[ce[c] for c in a]) if a else set()
        nb = {c for c in range(n) if ce[c] & ents}
        if not nb <= b:
            return _fail(f"overlap(cells={cells}, {crit}): layer {k + 1} misses {crit}-neighbours {sorted(nb - b)} of layer {k}", f"{key}-misses-neighbours")
        if not b <= (a | nb):
            return _fail(f"overlap(cells={cells}, {crit}): layer {k + 1} contains {sorted(b - a - nb)} which are not {crit}-neighbours of layer {k}", f"{key}-spurious-cells")
    return None


def _oracle_pgrid(P, g, case):
    ind = np.array(case["ind"], dtype=int)
    sg, fms, nms = P.partition_grid(g, ind)
    ids = sorted(set(case["ind"]))
    if not (len(sg) == len(fms) == len(nms) == len(ids)):
        return _fail(f"partition_grid returned {len(sg)} grids for {len(ids)} distinct ids", "pgrid-count")
    allc = sorted(c for h in sg for c in _ints(h.parent_cell_ind))
    if allc != list(range(g.num_cells)):
        return _fail("partition_grid: the sub-grids' cells are not a partition of the parent's cells (every cell exactly once)", "pgrid-not-a-partition")
    for i, h, fm, nm in zip(ids, sg, fms, nms):
        cells = [c for c, x in enumerate(case["ind"]) if x == i]
        r = _check_sub(g, h, fm, nm, cells, "pgrid", geometry=True)
        if r:
            return r
    return None


def _oracle_pcoord(P, g, case):
    import porepy as pp

    n = case["num"]
    try:
        p = np.asarray(P.partition_coordinates(g, n, check_connectivity=False))
    except Exception as e:
        return _fail(f"partition_coordinates({case['grid']}, {n}) raised {type(e).__name__}: {e}", f"pcoord-{type(e).__name__}")
    if p.shape != (g.num_cells,):
        return _fail(f"partition_coordinates: result has shape {p.shape} for {g.num_cells} cells", "pcoord-shape")
    if np.any(p != np.round(p)) or p.min() < 0:
        return _fail(f"partition_coordinates: ids are not non-negative integers (min {p.min()}): some cell got no part", "pcoord-unassigned")
    # number of boxes, recomputed as documented: ceil(n^(1/d) * extent / min extent) per axis, then determine_coarse_dimensions
    if g.dim in (1, 2):
        g2 = g.copy()
        _, *_, nodes = pp.map_geometry.map_grid(g2)
        nodes = np.atleast_2d(nodes)
    else:
        nodes = g.nodes
    delta = (np.max(nodes, axis=1) - np.min(nodes, axis=1))[: g.dim]
    delta_int = np.ceil(np.power(n, 1 / g.dim) * delta / np.min(delta)).astype(int)
    nc = int(P.determine_coarse_dimensions(n, delta_int).prod())
    if p.max() >= nc:
        return _fail(f"partition_coordinates: id {p.max()} with only {nc} coarse boxes", "pcoord-out-of-range")
    # every cell lies in the box it was assigned to  <=>  equal ids for cells only if ... (weak form: parts are disjoint by construction)
    return None


def _oracle_connected(P, g, case):
    cells = case["cells"]
    arr = None if cells is None else np.array(cells, dtype=int)
    ok, comps = P.grid_is_connected(g, arr)
    cl = list(range(g.num_cells)) if cells is None else list(cells)
    ref = _bfs_components(_face_adjacency(g), cl)
    got = sorted(sorted(cl[int(i)] for i in c) for c in comps)
    if bool(ok) != (len(ref) == 1):
        return _fail(f"grid_is_connected(cells={cells}) = {ok}, but the cells form {len(ref)} face-connected component(s)", "connected-flag")
    if got != sorted(ref):
        return _fail(f"grid_is_connected(cells={cells}): components {got} differ from the face-connected components {sorted(ref)}", "connected-components")
    return None


def _oracle_s2g(P, g, case):
    lf, lc = _s2g_args(g, case)
    nd = case["nd"] if case["nd"] is not None else g.dim
    k = nd if case["vector"] else 1
    try:
        fmap, cmap = P.subgrid_to_grid_mapping(g, np.array(lf, dtype=int), np.array(lc, dtype=int), case["vector"], case["nd"])
    except Exception as e:
        if case.get("bad"):
            return None
        return _fail(f"subgrid_to_grid_mapping raised {type(e).__name__} for valid local faces/cells: {e}", f"s2g-{type(e).__name__}")
    if case.get("bad"):
        return _fail(f"subgrid_to_grid_mapping accepted a local {case['bad']} index beyond the parent grid", "s2g-no-error")
    if case.get("style") == "duplicates":
        return None
    # maps point to the matching parent entities: pulling the parent's own numbering through the maps gives the expanded local lists
    want_f = [k * f + d for f in lf for d in range(k)]
    want_c = [k * c + d for c in lc for d in range(k)]
    got_f = fmap.T @ np.arange(g.num_faces * k)
    got_c = cmap @ np.arange(g.num_cells * k)
    if not (np.array_equal(got_f, want_f) and np.array_equal(got_c, want_c)):
        return _fail(f"subgrid_to_grid_mapping(vector={case['vector']}, nd={nd}): maps do not point to the parent entities (faces {got_f.tolist()} vs {want_f})", "s2g-wrong-map")
    # restriction after prolongation is the identity on the sub-grid
    if (cmap @ cmap.T != np.eye(len(lc) * k)).sum() or (fmap.T @ fmap != np.eye(len(lf) * k)).sum():
        return _fail("subgrid_to_grid_mapping: restriction after prolongation is not the identity", "s2g-not-identity")
    return None


def _oracle_pwrap(P, g, case):
    try:
        p = np.asarray(P.partition(g, case["num"]))
    except Exception as e:
        return _fail(f"partition({case['grid']}, {case['num']}) raised {type(e).__name__}: {e}", f"pwrap-{type(e).__name__}")
    if p.shape != (g.num_cells,) or np.any(p != np.round(p)) or p.min() < 0:
        return _fail(f"partition({case['grid']}, {case['num']}): not one non-negative integer id per cell", "pwrap-unassigned")
    if hasattr(g, "cart_dims") and sorted(set(int(x) for x in p)) != list(range(int(p.max()) + 1)):
        return _fail(f"partition({case['grid']}, {case['num']}): ids {sorted(set(int(x) for x in p))} are not a full range", "pwrap-unused-ids")
    if len(set(p.tolist())) > max(1, min(g.num_cells, 10**9)):
        return _fail("partition: more parts than cells", "pwrap-too-many")
    return None


def _check_coarse(n, fine, coarse):
    nd = len(fine)
    if len(coarse) != nd or any(c < 1 or c > f for c, f in zip(coarse, fine)):
        return _fail(f"determine_coarse_dimensions({n}, {fine}) = {coarse} is not within [1, fine]", "coarse-dims-out-of-range")
    if n <= 1 and coarse != [1] * nd:
        return _fail(f"determine_coarse_dimensions({n}, {fine}) = {coarse}: target 1 must give one coarse cell", "coarse-dims-limit")
    r = round(n ** (1.0 / nd))
    if n >= 1 and r ** nd == n and r <= min(fine) and coarse != [r] * nd:
        return _fail(f"determine_coarse_dimensions({n}, {fine}) = {coarse}: a perfect power within bounds must give {[r] * nd}", "coarse-dims-perfect-power")
    return None


def _oracle_dcd(P, case):
    fine, n = list(case["grid"]["dims"]), max(case["target"], 0)
    try:
        coarse = _ints(P.determine_coarse_dimensions(n, np.array(fine)))
    except Exception as e:
        return _fail(f"determine_coarse_dimensions({n}, {fine}) raised {type(e).__name__}: {e}", f"coarse-dims-{type(e).__name__}")
    return _check_coarse(n, fine, coarse)


def oracle(case):
    from porepy.grids import partition as P

    if case["kind"] == "dcd":
        return _oracle_dcd(P, case)
    g = build_grid(case["grid"])
    if case["kind"] == "s2g":
        return _oracle_s2g(P, g, case)
    if case["kind"] == "pwrap":
        return _oracle_pwrap(P, g, case)
    return {"extract": _oracle_extract, "extract_faces": _oracle_faces, "pstruct": _oracle_pstruct, "overlap": _oracle_overlap,
            "pgrid": _oracle_pgrid, "pcoord": _oracle_pcoord, "connected": _oracle_connected}[case["kind"]](P, g, case)


# ----------------------------------------------------------------------------- bookkeeping
def nontrivial(case):
    k = case["kind"]
    if k == "extract":
        return case.get("style") not in ("all", "empty", "out-of-range", "mask-size")
    if k == "pstruct":
        fine = case["grid"]["dims"]
        return "num_part" in case or all(1 <= c <= f for c, f in zip(case["coarse"], fine))
    if k == "overlap":
        return len(case["cells"]) > 0
    return True


def shrink_candidates(case):
    k = case["kind"]
    g = case["grid"]
    for key in ("aff", "jit"):
        if key in g:
            g2 = {a: b for a, b in g.items() if a != key}
            yield dict(case, grid=g2)
    if k in ("extract", "overlap", "connected") and case.get("cells") and "mask" not in case:
        cs = case["cells"]
        for i in range(len(cs)):
            yield dict(case, cells=cs[:i] + cs[i + 1:])
    if k == "extract_faces":
        fs = case["faces"]
        for i in range(len(fs)):
            if len(fs) > 1:
                yield dict(case, faces=fs[:i] + fs[i + 1:])
    if k == "overlap" and case["layers"] > 0:
        yield dict(case, layers=case["layers"] - 1)
    if k == "pstruct":
        dims = g["dims"]
        for i, d in enumerate(dims):
            if d > 1:
                nd = dims[:i] + [d - 1] + dims[i + 1:]
                c2 = dict(case, grid=dict(g, dims=nd))
                if "coarse" in case:
                    c2["coarse"] = [min(c, f) if c <= dims[j] else c for j, (c, f) in enumerate(zip(case["coarse"], nd))]
                yield c2
        if "num_part" in case and case["num_part"] > 1:
            yield dict(case, num_part=case["num_part"] - 1)


def stats(cases, impl_outs):
    kinds = {k: sum(1 for c in cases if c["kind"] == k) for k in KINDS}
    gtypes = {}
    for c in cases:
        t = f'{c["grid"]["type"]}{len(c["grid"]["dims"])}'
        gtypes[t] = gtypes.get(t, 0) + 1
    errs = {}
    for o in impl_outs:
        if isinstance(o, dict) and "err" in o:
            errs[o["err"]] = errs.get(o["err"], 0) + 1
    return {
        "kinds": kinds, "grid_types": gtypes, "errors": errs,
        "pcoord_compared_vs_skipped_knife_edge": list(PCOORD_SKIPPED),
        "hypotheses_decided_by_driver": dict(HYP_COUNTS),
        "strata": {
            "size0_empty_cell_set": sum(1 for c in cases if c["kind"] in ("extract", "overlap") and not c.get("cells") and "mask" not in c),
            "size1_single_cell_or_face": sum(1 for c in cases if len(c.get("cells") or c.get("faces") or []) == 1),
            "one_cell_grid": sum(1 for c in cases if int(np.prod(c["grid"]["dims"])) == 1 and c["grid"]["type"] == "cart"),
            "axis_of_length_1": sum(1 for c in cases if 1 in c["grid"]["dims"]),
            "duplicates": sum(1 for c in cases if c.get("style") in ("duplicate", "duplicates") or (c["kind"] == "overlap" and len(set(c["cells"])) < len(c["cells"]))),
            "unsorted_or_permuted": sum(1 for c in cases if "unsorted" in str(c.get("style")) or c.get("style") == "permuted" or (c["kind"] == "extract_faces" and c["faces"] != sorted(c["faces"]))),
            "boolean_masks": sum(1 for c in cases if "mask" in c),
            "out_of_range_or_wrong_size": sum(1 for c in cases if c.get("style") in ("out-of-range", "mask-size") or c.get("bad")),
            "extreme_scale_affine": sum(1 for c in cases if c["grid"].get("scale")),
            "degenerate_coarse_gt_fine_or_zero": sum(1 for c in cases if c["kind"] == "pstruct" and "coarse" in c and any(cc < 1 or cc > f for cc, f in zip(c["coarse"], c["grid"]["dims"]))),
            "target_beyond_cell_count": sum(1 for c in cases if (c["kind"] == "pstruct" and c.get("num_part", 0) > int(np.prod(c["grid"]["dims"]))) or (c["kind"] == "dcd" and c["target"] > int(np.prod(c["grid"]["dims"]))) or (c["kind"] in ("pwrap", "pcoord") and c["num"] >= 25)),
            "repeated_call_same_grid": sum(1 for c in cases if c.get("repeat")),
        },
        "perturbed": sum(1 for c in cases if "jit" in c["grid"]), "affine": sum(1 for c in cases if "aff" in c["grid"]),
        "extract_styles": {s: sum(1 for c in cases if c["kind"] == "extract" and c.get("style") == s)
                           for s in sorted({c.get("style") for c in cases if c["kind"] == "extract"})},
        "overlap_layers": {str(k): sum(1 for c in cases if c["kind"] == "overlap" and c["layers"] == k) for k in range(4)},
        "overlap_criteria": {k: sum(1 for c in cases if c["kind"] == "overlap" and norm_crit(c["criterion"]) == k) for k in ("node", "face")},
        "pstruct_num_part": sum(1 for c in cases if c["kind"] == "pstruct" and "num_part" in c),
        "pstruct_nondivisible": sum(1 for c in cases if c["kind"] == "pstruct" and "coarse" in c and any(cc and f % cc for f, cc in zip(c["grid"]["dims"], c["coarse"]))),
        "pstruct_dims": {str(d): sum(1 for c in cases if c["kind"] == "pstruct" and len(c["grid"]["dims"]) == d) for d in (1, 2, 3)},
    }
