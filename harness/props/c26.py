"""C26 Mortar projections conserve extensive and preserve intensive quantities.

Two kinds of cases:
  "syn": a MortarGrid built directly (1 or 2 sides, 1-D side grids on an arbitrary straight segment, random
         primary_secondary map, optional face_duplicate_ind, malformed maps) followed by a sequence of
         update_mortar / update_secondary calls with random rational node sets (either orientation);
  "mdg": a Cartesian 2-D host with 1-2 axis-aligned fractures (pp.meshing.cart_grid) followed by a sequence of
         MixedDimensionalGrid.replace_subdomains_and_interfaces calls replacing the mortar side grids, the fracture
         grid or the 2-D host (other resolution, fracture nodes shifted along the fracture);
  "tri": (thorough tier, oracle only) a MortarGrid with 2-D simplex side grids, update_mortar / update_secondary
         through match_2d.
After every step all eight projection matrices of every 1-D interface are compared densely with the Lean model.
"""
import json
from fractions import Fraction

import numpy as np
import scipy.sparse as sps

from harness.common import frac, err_kind, deep_compare

PID = "C26"
THEOREMS = [
    "PorepyVerif.C26.match1d_weights",
    "PorepyVerif.C26.match1d_avg_rowsum_one",
    "PorepyVerif.C26.match1d_int_colsum_one",
    "PorepyVerif.C26.avg_rowsum_one_comp",
    "PorepyVerif.C26.int_colsum_one_comp",
    "PorepyVerif.C26.transpose_pairs",
    "PorepyVerif.C26.transpose_pairs_run",
    "PorepyVerif.C26.transpose_entries",
    "PorepyVerif.C26.transposed_sums",
    "PorepyVerif.C26.stack_update_mortar",
    "PorepyVerif.C26.stack_update_secondary",
    "PorepyVerif.C26.stack_update_primary",
    "PorepyVerif.C26.sideInv_step",
    "PorepyVerif.C26.side_history_invariant",
    "PorepyVerif.C26.mortar_update_valid",
    "PorepyVerif.C26.identity_update_valid",
    "PorepyVerif.C26.secondary_update_valid",
    "PorepyVerif.C26.matching_init_sideInv",
    "PorepyVerif.C26.sideOrZero_sums",
    "PorepyVerif.C26.primary_valid_of_blocks",
    "PorepyVerif.C26.face_update_valid",
    "PorepyVerif.C26.step_mortar_stack",
    "PorepyVerif.C26.step_secondary_stack",
    "PorepyVerif.C26.step_primary_stack",
    "PorepyVerif.C26.constructor_two_sides",
    "PorepyVerif.C26.constructor_one_side",
    "PorepyVerif.C26.ireach_inv",
    "PorepyVerif.C26.mortar_projections_conserve",
    "PorepyVerif.C26.constructor_reach_two",
    "PorepyVerif.C26.constructor_reach_one",
    "PorepyVerif.C26.refine_area",
    "PorepyVerif.C26.refine_pos",
    "PorepyVerif.C26.match2d_nested_weights",
    "PorepyVerif.C26.match2d_nested_avg_rowsum_one",
    "PorepyVerif.C26.match2d_nested_int_colsum_one",
    "PorepyVerif.C26.tessPair_sound",
    "PorepyVerif.C26.wellFormedB_sound",
    "PorepyVerif.C26.mortar_update_valid_checked",
    "PorepyVerif.C26.secondary_update_valid_checked",
    "PorepyVerif.C26.face_update_valid_checked",
    "PorepyVerif.C26.kron_rowSum",
    "PorepyVerif.C26.kron_colSum",
]
LEAN_MODULES = ["PorepyVerif.C26.Props"]
AUDIT = "PorepyVerif/C26/Audit.lean"
DRIVER = "PorepyVerif/C26/Driver.lean"
N = {"quick": 40, "thorough": 700}
RULE = ("44% of the cases: a MortarGrid built directly on a straight segment of arbitrary direction (1 or 2 sides, initial grid uniform or with "
        "random rational nodes, either node orientation, random primary_secondary map with extra uncovered faces, with or without "
        "face_duplicate_ind, 8% malformed maps) followed by 1-4 (thorough 1-7) update_mortar (one side, both sides with different or equal "
        "new grids) / update_secondary calls with uniform ratios 1-6 or random rational node sets; 44%: Cartesian 2-D host "
        "(pp.meshing.cart_grid, 12x4 domain, 2-12 by 2-4 cells, transposed in a third of the cases) with 1-2 axis-aligned fractures "
        "(interior, touching the boundary, full width) followed by 1-4 (thorough 1-6) MixedDimensionalGrid.replace_subdomains_and_interfaces "
        "calls replacing mortar side grids (35%), the fracture grid (25%; refine_grid_1d ratio 2-4 or random nodes) or the 2-D host (40%; "
        "other nested or non-nested resolution, fracture nodes shifted along the fracture by up to 3/8 cell); 12%: 2-D mortar grids - a "
        "parallelogram cut into 2 or 4 triangles and a random nested refinement of every triangle (bisections at 1/4..3/4, interior nodes, "
        "regular 4-way refinement, depth 2, thorough 3): pp.match_grids.match_2d for both scalings is compared with the Lean model and a "
        "MortarGrid with these side grids is put through update_mortar / update_secondary (oracle); thorough adds 6% MortarGrids "
        "with non-nested 2-D simplex side grids (match_2d, oracle only). non-trivial = at least one replacement that makes the grids non-matching; "
        "strata (counted in input_distribution.strata): single-cell grids, cell size ratios up to 62, coordinates scaled by 2**-10..2**12, "
        "the same replacement repeated, nd in 1..3, new side grids handed over in reversed dict order. distinct = distinct cases")
TRUSTED = [
    "modelled, not verified: scipy.sparse products / bmat / transposes / coo listing order, porepy.intersections.line_tessellation -> segments_3d "
    "(modelled as the exact interval overlap max(0, min(b,d) - max(a,c)) of the cell parameters along the line), Grid.cell_nodes / cell_volumes, "
    "sparse_kronecker_product (oracle checks nd=2 against numpy.kron)",
    "modelled, not verified: the geometric identification inside match_grids_along_1d_mortar (which faces of the old and new host lie on the "
    "fracture and on which side, node sorting, uniquify_point_set); the harness extracts the fracture faces, their side and their parameter "
    "interval from the grids independently and the model matches them per side (faceMatch)",
    "hypotheses of face_update_valid (the fracture faces of one side tessellate the same segment in the old and the new host, distinct face "
    "indices, all listed old faces covered) are properties of the generated grids, not proved about split_grid / cart_grid",
    "hypotheses of constructor_two_sides / constructor_one_side (WellFormedMap: unit data, every primary face listed once, every secondary "
    "cell coupled) are properties of the face_cells map produced by split_grid / the generator, not proved about those",
    "match_2d: shapely polygon intersections; for nested refinements modelled as 'overlap of a new cell with its parent = its area' "
    "(match2dNested) and compared densely; non-nested 2-D simplex grids: oracle only, thorough tier",
]
EXPLANATION = ("CORE (partial): the model covers _init_projections, _set_projections, update_mortar / update_secondary / update_primary as matrix "
               "algebra over exact rationals and match_1d as interval overlaps. Proved for all inputs: overlap weights of two tessellations of a "
               "segment are non-negative with row / column sums equal to the cell measures, hence averaged match matrices are row-stochastic and "
               "integrated ones column-stochastic; row-/column-stochasticity (on the covered entities) is closed under the products the updates "
               "perform; the stored stacked matrices are updated side by side (block-diagonal times stack = stack of products); for one side and "
               "EVERY history of valid updates the invariant (unit row sums of averaged maps, unit column sums of integrated maps on covered "
               "faces, support on covered faces) holds; the four mortar-to-grid maps are the transposes of the grid-to-mortar maps after every "
               "history although update_secondary / update_primary refresh one pair only; the matrices of match_1d / "
               "match_grids_along_1d_mortar (as modelled) are valid updates whenever the grids tessellate the same segment; the constructor "
               "(initBase = _init_projections incl. stable sort, two-side reordering, face_duplicate_ind) stores the stack of matching 0/1 "
               "sides satisfying the invariant (constructor_two_sides / constructor_one_side); mortar_projections_conserve combines everything: "
               "every interface state reachable from the constructor by valid update_mortar / update_secondary / update_primary calls has "
               "transposed pairs, is the stack of its sides, and on each side all eight projections have unit row sums (averaged) resp. unit "
               "column sums (integrated) on the covered entities. 2-D mortar grids: children of any nested triangle refinement recipe "
               "partition the parent (areas add up, orientation kept), hence match_2d's averaged / integrated matrices of a nested refinement "
               "are row- / column-stochastic. The hypotheses of these theorems are decidable input conditions (tessPair, wellFormedB, faceHypsB with soundness theorems "
               "tessPair_sound, wellFormedB_sound, *_valid_checked); the driver evaluates them on every case and the answer ('hyp': true) "
               "is part of the compared output. Vector-valued variants (nd, A kron I) keep the row / column sums (kron_rowSum, kron_colSum); "
               "primary_to_mortar_avg(nd), mortar_to_secondary_int(nd) and sign_of_mortar_sides are compared with the model on every directly "
               "built case. Not proved: the geometric face identification, non-nested 2-D overlaps, floating point. Correspondence compares all eight matrices densely after every "
               "step with tolerance 1e-10; the oracle checks the property (and that cell measures are mapped to cell measures) on the real objects.")
ASSUMPTIONS = [
    "fractures are straight; 1-D mortar grids (2-D mortar grids through match_2d are covered by the oracle only)",
    "the two fractures of a case do not cross (update_primary raises ValueError for a host with crossing fractures: not a statement of the property)",
    "cell sizes differ by less than 1e3 so that MortarGrid._check_mappings (row sums > 1e-4) does not reject the refinement",
]

MATS = ["primary_to_mortar_int", "primary_to_mortar_avg", "secondary_to_mortar_int", "secondary_to_mortar_avg",
        "mortar_to_primary_int", "mortar_to_primary_avg", "mortar_to_secondary_int", "mortar_to_secondary_avg"]
TOL = 1e-10


# ----------------------------------------------------------------------------- generation
def _tnodes(rng, kmax=6):
    """ascending parameters 0 = t0 < ... < tn = 1 (fractions as strings): uniform refinement or random rationals"""
    mode = rng.random()
    if mode < 0.08:  # stratum: a single cell
        ts = [Fraction(0), Fraction(1)]
    elif mode < 0.16:  # stratum: cells of very different size (ratio up to 62)
        ts = [Fraction(0), Fraction(1, 64), Fraction(rng.choice([2, 33, 63]), 64), Fraction(1)]
        ts = sorted(set(ts))
    elif mode < 0.4:
        n = rng.randint(1, kmax)
        ts = [Fraction(i, n) for i in range(n + 1)]
    else:
        den = rng.choice([4, 6, 8, 12, 16, 5, 7])
        k = rng.randint(0, min(kmax - 1, den - 1))
        inner = sorted(rng.sample(range(1, den), k))
        ts = [Fraction(0)] + [Fraction(i, den) for i in inner] + [Fraction(1)]
    return [str(t) for t in ts]


def _side_spec(rng, kmax=6):
    return {"t": _tnodes(rng, kmax), "rev": rng.random() < 0.4}


def _gen_syn(rng, tier):
    nsides = rng.choice([1, 2, 2, 2])
    init = _side_spec(rng, 5)
    ncell = len(init["t"]) - 1
    nextra = rng.randint(0, 4)
    n_prim = nsides * ncell + nextra
    perm = list(range(n_prim))
    rng.shuffle(perm)
    faces = [sorted(perm[s * ncell:(s + 1) * ncell]) if rng.random() < 0.5 else perm[s * ncell:(s + 1) * ncell] for s in range(nsides)]
    dup = nsides == 2 and rng.random() < 0.5
    if nsides == 2 and not dup:
        # without face_duplicate_ind the code takes the lower face index of a cell as side 1
        pairs = [sorted(p) for p in zip(faces[0], faces[1])]
        faces = [[p[0] for p in pairs], [p[1] for p in pairs]]
    case = {"kind": "syn", "nsides": nsides, "p0": [rng.randint(-3, 3), rng.randint(-3, 3)],
            "d": rng.choice([[4, 0], [0, 2], [3, 4], [-2, 6], [8, -1]]), "init": init, "n_prim": n_prim, "faces": faces,
            "dup": dup, "bad": None, "steps": [], "nd": rng.choice([1, 2, 3]),
            "scale": rng.choice([0, 0, 0, -10, -4, 7, 12])}  # stratum: extreme scale (coordinates times 2**scale)
    if rng.random() < 0.08 and ncell >= 1:
        case["bad"] = rng.choice(["count", "numcells"] if nsides == 2 else ["numcells"])
    nsteps = rng.randint(1, 4 if tier == "quick" else 7)
    for _ in range(nsteps):
        if rng.random() < 0.6:
            which = [s for s in range(nsides) if rng.random() < 0.75] or [rng.randrange(nsides)]
            if nsides == 2 and rng.random() < 0.3:  # the same new grid on both sides
                sp = _side_spec(rng)
                case["steps"].append({"op": "mortar", "sides": {str(s): sp for s in range(nsides)}})
            else:
                case["steps"].append({"op": "mortar", "sides": {str(s): _side_spec(rng) for s in which}, "rev_order": rng.random() < 0.3})
        else:
            case["steps"].append(dict(_side_spec(rng), op="secondary"))
        if rng.random() < 0.15:  # stratum: the same replacement repeated
            case["steps"].append(json.loads(json.dumps(case["steps"][-1])))
    return case


_RES = [2, 3, 4, 6, 12]


def _gen_mdg(rng, tier):
    Lx = 12
    ny = rng.choice([2, 4, 4])
    Ly = 4
    axis = rng.choice([0, 0, 1])  # 0: fractures along x (the long direction), 1: the whole picture transposed
    nfr = rng.choice([1, 2])
    if ny == 2:
        nfr = 1
    cands = [(0, 12), (0, 6), (6, 12), (4, 8), (0, 4), (4, 12), (3, 9), (2, 10), (0, 8), (0, 3), (6, 9)]
    fr = []
    levels = [2] if ny == 2 else rng.sample([1, 2, 3], nfr)
    for lv in levels:
        a, b = rng.choice(cands)
        fr.append({"c": lv if ny == 4 else 2, "a": a, "b": b})
    ok = [n for n in _RES if all((f["a"] * n) % Lx == 0 and (f["b"] * n) % Lx == 0 for f in fr)]
    ok_small = [n for n in ok if n <= (6 if tier == "quick" else 12)] or ok
    case = {"kind": "mdg", "axis": axis, "L": [Lx, Ly], "n": [rng.choice(ok_small), ny], "fracs": fr, "steps": []}
    nsteps = rng.randint(1, 4 if tier == "quick" else 6)
    for _ in range(nsteps):
        r = rng.random()
        k = rng.randrange(nfr)
        if r < 0.35:
            which = [s for s in (0, 1) if rng.random() < 0.75] or [rng.randrange(2)]
            case["steps"].append({"op": "mortar", "intf": k, "sides": {str(s): _side_spec(rng, 7) for s in which}, "rev_order": rng.random() < 0.3})
        elif r < 0.6:
            if rng.random() < 0.4:
                case["steps"].append({"op": "secondary", "intf": k, "ratio": rng.choice([2, 3, 4])})
            else:
                case["steps"].append(dict(_side_spec(rng, 7), op="secondary", intf=k))
        else:
            n2 = rng.choice(ok_small)
            ny2 = ny if rng.random() < 0.6 else (4 if ny == 2 else 4)
            if ny == 2 and ny2 == 4:
                pass  # level 2 of 4 with Ly=4 is y=2: the same line
            shifts = [rng.choice([0, 0, Fraction(1, 4), Fraction(-1, 4), Fraction(1, 8), Fraction(-3, 8)]) for _ in range(16)]
            case["steps"].append({"op": "primary", "n": [n2, ny2], "shift": [str(s) for s in shifts] if rng.random() < 0.6 else None})
    return case


def _gen_tri(rng, tier):
    nsides = rng.choice([1, 2])
    steps = []
    for _ in range(rng.randint(1, 2)):
        if rng.random() < 0.5:
            steps.append({"op": "mortar", "sides": {str(s): [rng.randint(1, 3), rng.randint(1, 3)] for s in range(nsides) if rng.random() < 0.8}})
        else:
            steps.append({"op": "secondary", "n": [rng.randint(1, 3), rng.randint(1, 3)]})
    return {"kind": "tri", "nsides": nsides, "n": [rng.randint(1, 2), rng.randint(1, 2)], "steps": steps}


def _gen_recipe(rng, depth):
    """flat prefix encoding of a nested refinement recipe (see Ref in Model.lean); dyadic parameters"""
    if depth == 0 or rng.random() < 0.3:
        return ["0"]
    k = rng.random()
    if k < 0.4:
        return ["1", rng.choice(["1/2", "1/4", "3/4", "3/8"])] + _gen_recipe(rng, depth - 1) + _gen_recipe(rng, depth - 1)
    if k < 0.6:
        return ["2"] + _gen_recipe(rng, depth)
    if k < 0.8:
        u, v = rng.choice([("1/4", "1/4"), ("1/2", "1/4"), ("1/8", "5/8"), ("1/4", "1/2")])
        return ["3", u, v] + _gen_recipe(rng, depth - 1) + _gen_recipe(rng, depth - 1) + _gen_recipe(rng, depth - 1)
    return ["4"] + [x for _ in range(4) for x in _gen_recipe(rng, depth - 1)]


def _gen_nest(rng, tier):
    """old grid: a parallelogram cut into 2 or 4 triangles; new grid: a nested refinement of every triangle"""
    o = [rng.randint(-2, 2), rng.randint(-2, 2)]
    e1, e2 = rng.choice([([2, 0], [0, 2]), ([4, 0], [2, 2]), ([2, 2], [-2, 4]), ([1, 0], [0, 4])])
    P = lambda a, b: [str(Fraction(o[0]) + a * e1[0] + b * e2[0]), str(Fraction(o[1]) + a * e1[1] + b * e2[1])]
    if rng.random() < 0.5:
        tris = [P(0, 0) + P(1, 0) + P(1, 1), P(0, 0) + P(1, 1) + P(0, 1)]
    else:
        c = P(Fraction(1, 2), Fraction(1, 2))
        tris = [P(0, 0) + P(1, 0) + c, P(1, 0) + P(1, 1) + c, P(1, 1) + P(0, 1) + c, P(0, 1) + P(0, 0) + c]
    depth = 2 if tier == "quick" else 3
    return {"kind": "nest", "parents": tris, "recipes": [_gen_recipe(rng, depth) for _ in tris], "nsides": rng.choice([1, 2])}


def gen_case(rng, tier):
    r = rng.random()
    if tier == "thorough" and r < 0.06:
        return _gen_tri(rng, tier)
    if r > 0.88:
        return _gen_nest(rng, tier)
    if r < 0.5:
        return _gen_syn(rng, tier)
    return _gen_mdg(rng, tier)


# ----------------------------------------------------------------------------- building the real objects
def _grid1d(p0, p1, spec):
    """1-D grid on the segment p0-p1 with nodes at the parameters spec['t'] (listed descending if spec['rev'])"""
    import porepy as pp
    ts = [float(Fraction(t)) for t in spec["t"]]
    if spec.get("rev"):
        ts = ts[::-1]
    p0 = np.asarray(p0, float).reshape(3, 1)
    p1 = np.asarray(p1, float).reshape(3, 1)
    nodes = p0 + (p1 - p0) * np.array(ts)
    g = pp.TensorGrid(np.arange(len(ts), dtype=float))
    g.nodes = nodes
    g.compute_geometry()
    return g


def _ordered(st):
    """(side, spec) pairs of a mortar step in the order the new side grids are handed to the code"""
    items = sorted(st["sides"].items())
    return items[::-1] if st.get("rev_order") else items


def _cells_param(g, origin, direction):
    """parameter interval of every cell of a 1-D grid: exact rational of the float coordinate along `direction`
    (an axis index) or, for a general direction, the projection (floats, class T)."""
    cn = g.cell_nodes().tocsc()
    out = []
    for c in range(g.num_cells):
        idx = cn.indices[cn.indptr[c]:cn.indptr[c + 1]]
        if isinstance(direction, int):
            v = [Fraction(float(g.nodes[direction, i])) for i in idx]
        else:
            d = np.asarray(direction, float)
            v = [Fraction(float(np.dot(g.nodes[:, i] - origin, d) / np.dot(d, d))) for i in idx]
        out.append([frac(min(v)), frac(max(v))])
    return out


def _fr(x):
    if x == 0:
        return "0"
    f = Fraction(float(x))
    return str(f.numerator) if f.denominator == 1 else f"{f.numerator}/{f.denominator}"


def _dense(M):
    A = M.toarray()
    return {"shape": [int(A.shape[0]), int(A.shape[1])], "rows": [[_fr(x) for x in row] for row in A]}


def _snapshot(intf):
    """the eight matrices; "hyp": the input conditions of the theorems (tessellations of one segment, well-formed map)
    hold by construction of the case - the driver evaluates them with the decidable checks of the model"""
    d = {m: _dense(getattr(intf, m)()) for m in MATS}
    d["hyp"] = True
    return d


def _coo_entries(ps):
    """the listing `sparse_array_to_row_col_data(primary_secondary)` hands to `_init_projections`"""
    co = sps.coo_matrix(ps, copy=True)
    return [[str(int(r)), str(int(c)), frac(float(d))] for r, c, d in zip(co.row, co.col, co.data)]


class _Trace:
    """Runs a case on the real code; records per step the impl snapshot, the driver op and the live interfaces."""

    def __init__(self, case, hook=None):
        self.case = case
        self.hook = hook  # called as hook(label, context) after init and after each step (used by the oracle)
        self.impl = []
        self.ops = []

    # ---- syn
    def run_syn(self):
        import porepy as pp
        from porepy.grids.mortar_grid import MortarSides
        c = self.case
        sc = 2.0 ** c.get("scale", 0)
        p0 = np.array(c["p0"] + [0], float) * sc
        p1 = p0 + np.array(c["d"] + [0], float) * sc
        self.origin, self.direction = p0, p1 - p0
        SIDES = [MortarSides.LEFT_SIDE, MortarSides.RIGHT_SIDE][: c["nsides"]]
        sec = _grid1d(p0, p1, c["init"])
        ncell = sec.num_cells
        rows, cols = [], []
        for s in range(c["nsides"]):
            for cell, f in enumerate(c["faces"][s]):
                rows.append(cell)
                cols.append(f)
        if c["bad"] == "count":  # one cell loses a face: bincount != 2
            rows, cols = rows[:-1], cols[:-1]
        n_sec = ncell
        if c["bad"] == "numcells":  # an extra lower-dimensional cell pair that the side grids do not have
            n_sec = ncell + 1
            for s in range(c["nsides"]):
                rows.append(ncell)
                cols.append(c["n_prim"] + s)
        n_prim = c["n_prim"] + (c["nsides"] if c["bad"] == "numcells" else 0)
        ps = sps.csc_matrix((np.ones(len(rows), dtype=bool), (rows, cols)), shape=(n_sec, n_prim))
        dup = np.array(c["faces"][1], dtype=int) if c["dup"] else None
        side_g = {s: sec.copy() for s in SIDES}
        cells0 = _cells_param(sec, p0, self.direction)
        self.ops.append({"op": "init", "nsides": c["nsides"], "num_cells": c["nsides"] * ncell, "n_prim": n_prim, "n_sec": n_sec,
                         "entries": _coo_entries(ps), "dup": [int(x) for x in dup] if dup is not None else None,
                         "sides": [cells0 for _ in SIDES]})
        try:
            intf = pp.MortarGrid(1, side_g, ps, face_duplicate_ind=dup)
        except Exception as e:
            self.impl.append(err_kind(e))
            return
        self.impl.append(_snapshot(intf))
        ctx = {"intf": intf, "covered": None, "n_sec": n_sec, "trace": self}
        if self.hook and self.hook("init", ctx):
            return
        for k, st in enumerate(c["steps"]):
            try:
                if st["op"] == "mortar":
                    new = {SIDES[int(s)]: _grid1d(p0, p1, sp) for s, sp in _ordered(st)}
                    self.ops.append({"op": "mortar", "sides": [(_cells_param(new[S], p0, self.direction) if S in new else None) for S in SIDES]})
                    ctx["pairs"] = [(new[S], intf.side_grids[S]) for S in new]
                    intf.update_mortar(new, 1e-6)
                else:
                    g = _grid1d(p0, p1, st)
                    self.ops.append({"op": "secondary", "cells": _cells_param(g, p0, self.direction)})
                    ctx["pairs"] = [(sg, g) for sg in intf.side_grids.values()]
                    intf.update_secondary(g, 1e-6)
                    ctx["n_sec"] = g.num_cells
            except Exception as e:
                self.impl.append(err_kind(e))
                return
            self.impl.append(_snapshot(intf))
            if self.hook and self.hook(f"step{k}:{st['op']}", ctx):
                return
        nd = c.get("nd", 1)
        self.ops.append({"op": "kron", "nd": nd})
        self.impl.append({"primary_to_mortar_avg_nd": _dense(intf.primary_to_mortar_avg(nd=nd)),
                          "mortar_to_secondary_int_nd": _dense(intf.mortar_to_secondary_int(nd=nd)),
                          "sign": _dense(intf.sign_of_mortar_sides())})

    # ---- mdg
    def _make_mdg(self, n):
        import porepy as pp
        c = self.case
        ax = c["axis"]
        fr = []
        for f in c["fracs"]:
            pts = np.array([[f["a"], f["b"]], [f["c"], f["c"]]], float)
            fr.append(pts if ax == 0 else pts[::-1])
        nn = list(n) if ax == 0 else list(n)[::-1]
        L = list(c["L"]) if ax == 0 else list(c["L"])[::-1]
        mdg = pp.meshing.cart_grid(fr, nn, physdims=[float(x) for x in L])
        mdg.compute_geometry()
        return mdg

    def _frac_of(self, g1):
        """index of the fracture a 1-D grid lies on (by geometry)"""
        c = self.case
        ax = c["axis"]
        lvl = float(np.mean(g1.nodes[1 - ax]))
        for k, f in enumerate(c["fracs"]):
            if abs(lvl - f["c"]) < 1e-9:
                return k
        raise RuntimeError("fracture not identified")

    def _face_recs(self, g2, k):
        """faces of the 2-D host on fracture k: [index, side (1: host cell above the line), lo, hi]"""
        c = self.case
        ax = c["axis"]
        f = c["fracs"][k]
        fn = g2.face_nodes.indices.reshape((2, g2.num_faces), order="F")
        out = []
        for fi in np.where(g2.tags["fracture_faces"])[0]:
            x = g2.nodes[:, fn[:, fi]]
            if np.all(np.abs(x[1 - ax] - f["c"]) < 1e-9) and min(x[ax]) > f["a"] - 1e-9 and max(x[ax]) < f["b"] + 1e-9:
                cell = g2.cell_faces.tocsr()[fi].indices
                assert cell.size == 1
                above = g2.cell_centers[1 - ax, cell[0]] > f["c"]
                v = [Fraction(float(t)) for t in x[ax]]
                out.append([str(int(fi)), "1" if above else "0", frac(min(v)), frac(max(v))])
        return out

    def run_mdg(self):
        import porepy as pp
        from porepy.grids.mortar_grid import MortarSides
        c = self.case
        ax = c["axis"]
        mdg = self._make_mdg(c["n"])
        g2 = mdg.subdomains(dim=2)[0]
        intfs = {}
        for intf in mdg.interfaces(dim=1):
            intfs[self._frac_of(mdg.interface_to_subdomain_pair(intf)[1])] = intf
        self.nfr = len(intfs)
        SIDES = [MortarSides.LEFT_SIDE, MortarSides.RIGHT_SIDE]
        for k in sorted(intfs):
            intf = intfs[k]
            assert list(intf.side_grids.keys()) == SIDES
            ps = mdg.interface_data(intf)["face_cells"] if "face_cells" in mdg.interface_data(intf) else None
            if ps is None:
                raise RuntimeError("face_cells not stored")
            self.ops.append({"op": "init", "intf": k, "nsides": 2, "num_cells": int(intf.num_cells), "n_prim": int(ps.shape[1]), "n_sec": int(ps.shape[0]),
                             "entries": _coo_entries(ps), "dup": None,
                             "sides": [_cells_param(intf.side_grids[S], None, ax) for S in SIDES]})
        self.impl.append({str(k): _snapshot(intfs[k]) for k in sorted(intfs)})
        ctx = {"mdg": mdg, "intfs": intfs, "trace": self}
        if self.hook and self.hook("init", ctx):
            return
        for si, st in enumerate(c["steps"]):
            g2 = mdg.subdomains(dim=2)[0]
            ctx["pre"] = {k: intfs[k].primary_to_mortar_int().copy() for k in intfs}
            try:
                if st["op"] == "mortar":
                    intf = intfs[st["intf"]]
                    f = c["fracs"][st["intf"]]
                    p0 = np.zeros(3)
                    p1 = np.zeros(3)
                    p0[ax], p0[1 - ax], p1[ax], p1[1 - ax] = f["a"], f["c"], f["b"], f["c"]
                    new = {SIDES[int(s)]: _grid1d(p0, p1, sp) for s, sp in _ordered(st)}
                    self.ops.append({"op": "mortar", "intf": st["intf"], "sides": [(_cells_param(new[S], None, ax) if S in new else None) for S in SIDES]})
                    mdg.replace_subdomains_and_interfaces(interface_map={intf: new})
                elif st["op"] == "secondary":
                    intf = intfs[st["intf"]]
                    g_old = mdg.interface_to_subdomain_pair(intf)[1]
                    if "ratio" in st:
                        g_new = pp.refinement.refine_grid_1d(g_old, ratio=st["ratio"])
                        g_new.compute_geometry()
                    else:
                        f = c["fracs"][st["intf"]]
                        p0 = np.zeros(3)
                        p1 = np.zeros(3)
                        p0[ax], p0[1 - ax], p1[ax], p1[1 - ax] = f["a"], f["c"], f["b"], f["c"]
                        g_new = _grid1d(p0, p1, st)
                    self.ops.append({"op": "secondary", "intf": st["intf"], "cells": _cells_param(g_new, None, ax)})
                    mdg.replace_subdomains_and_interfaces(sd_map={g_old: g_new})
                else:
                    other = self._make_mdg(st["n"])
                    g_new = other.subdomains(dim=2)[0]
                    if st.get("shift"):
                        self._shift(g_new, st)
                    for k in sorted(intfs):
                        self.ops.append({"op": "primary", "intf": k, "n_new": int(g_new.num_faces),
                                         "old": self._face_recs(g2, k), "new": self._face_recs(g_new, k)})
                    mdg.replace_subdomains_and_interfaces(sd_map={g2: g_new})
            except Exception as e:
                self.impl.append(dict(err_kind(e), msg=str(e)[:200]))
                return
            self.impl.append({str(k): _snapshot(intfs[k]) for k in sorted(intfs)})
            if self.hook and self.hook(f"step{si}:{st['op']}", ctx):
                return

    def _shift(self, g, st):
        """move the interior nodes of every fracture along the fracture (all coincident copies together)"""
        c = self.case
        ax = c["axis"]
        h = c["L"][0] / st["n"][0]
        sh = [float(Fraction(s)) for s in st["shift"]]
        for f in c["fracs"]:
            on = np.where((np.abs(g.nodes[1 - ax] - f["c"]) < 1e-9) & (g.nodes[ax] > f["a"] + 1e-9) & (g.nodes[ax] < f["b"] - 1e-9))[0]
            for i in on:
                j = int(round((g.nodes[ax, i] - f["a"]) / h))
                g.nodes[ax, i] += sh[j % len(sh)] * h
        g.compute_geometry()

    # ---- tri (oracle only)
    def run_tri(self):
        import porepy as pp
        from porepy.grids.mortar_grid import MortarSides
        c = self.case
        SIDES = [MortarSides.LEFT_SIDE, MortarSides.RIGHT_SIDE][: c["nsides"]]

        def tri(n):
            g = pp.StructuredTriangleGrid(np.array(n), physdims=[1.0, 1.0])
            g.compute_geometry()
            return g

        sec = tri(c["n"])
        nc = sec.num_cells
        rows = list(range(nc)) * c["nsides"]
        cols = list(range(nc * c["nsides"]))
        ps = sps.csc_matrix((np.ones(len(rows), dtype=bool), (rows, cols)), shape=(nc, nc * c["nsides"] + 2))
        intf = pp.MortarGrid(2, {s: sec.copy() for s in SIDES}, ps)
        ctx = {"intf": intf, "covered": None, "n_sec": nc}
        if self.hook and self.hook("init", ctx):
            return
        for k, st in enumerate(c["steps"]):
            if st["op"] == "mortar":
                if not st["sides"]:
                    continue
                intf.update_mortar({SIDES[int(s)]: tri(n) for s, n in st["sides"].items() if int(s) < c["nsides"]}, 1e-6)
            else:
                g = tri(st["n"])
                intf.update_secondary(g, 1e-6)
                ctx["n_sec"] = g.num_cells
                ctx["sec"] = g
            if self.hook and self.hook(f"step{k}:{st['op']}", ctx):
                return

    # ---- nest: 2-D mortar grids, nested triangle refinement (match_2d)
    def run_nest(self):
        import porepy as pp
        from porepy.grids.mortar_grid import MortarSides
        c = self.case
        parents = [[Fraction(x) for x in t] for t in c["parents"]]
        kids = []
        for t, enc in zip(parents, c["recipes"]):
            out, rest = _py_refine(list(enc), ((t[0], t[1]), (t[2], t[3]), (t[4], t[5])))
            assert not rest
            kids += out

        def grid(tris):
            pts, idx, conn = [], {}, []
            for t in tris:
                col = []
                for v in t:
                    if v not in idx:
                        idx[v] = len(pts)
                        pts.append(v)
                    col.append(idx[v])
                conn.append(col)
            p = np.array([[float(x) for x, _ in pts], [float(y) for _, y in pts]])
            g = pp.TriangleGrid(p, np.array(conn, dtype=int).T.copy())
            g.compute_geometry()
            return g

        old = grid([((t[0], t[1]), (t[2], t[3]), (t[4], t[5])) for t in parents])
        new = grid(kids)
        self.ops.append({"op": "match2d", "parents": c["parents"], "recipes": c["recipes"]})
        out = {}
        for sc in ("averaged", "integrated"):
            out[sc] = _dense(pp.match_grids.match_2d(new, old, 1e-6, scaling=sc))
        out["areas2"] = [_fr(2 * v) for v in new.cell_volumes]
        self.impl.append(out)
        self.nest = (old, new)
        # exact expectation (Fractions, independent of the Lean model): a new cell overlaps its parent with its own area
        area = lambda t: abs((t[1][0] - t[0][0]) * (t[2][1] - t[0][1]) - (t[2][0] - t[0][0]) * (t[1][1] - t[0][1])) / 2
        par = []
        for j, (t, enc) in enumerate(zip(parents, c["recipes"])):
            par += [j] * len(_py_refine(list(enc), ((t[0], t[1]), (t[2], t[3]), (t[4], t[5])))[0])
        W = np.zeros((len(kids), len(parents)))
        for i, k in enumerate(kids):
            W[i, par[i]] = float(area(k))
        self.nest_exact = W
        # which pairs of cells overlap at all (scaling=None: 1 where the reported overlap exceeds tol)
        self.nest_self = pp.match_grids.match_2d(new, new, 1e-6, scaling=None).toarray()
        self.nest_pat = pp.match_grids.match_2d(new, old, 1e-6, scaling=None).toarray()
        SIDES = [MortarSides.LEFT_SIDE, MortarSides.RIGHT_SIDE][: c["nsides"]]
        nc = old.num_cells
        rows = list(range(nc)) * c["nsides"]
        cols = list(range(nc * c["nsides"]))
        ps = sps.csc_matrix((np.ones(len(rows), dtype=bool), (rows, cols)), shape=(nc, nc * c["nsides"] + 1))
        intf = pp.MortarGrid(2, {s: old.copy() for s in SIDES}, ps)
        ctx = {"intf": intf, "covered": None, "n_sec": nc}
        self.nest_exc = None
        if self.hook:
            self.hook("init", ctx)
            try:
                intf.update_mortar({SIDES[0]: new}, 1e-6)
                self.hook("step0:mortar", ctx)
                intf.update_secondary(new, 1e-6)
                self.hook("step1:secondary", ctx)
            except ValueError as e:  # MortarGrid._check_mappings rejecting the refinement
                self.nest_exc = f"{type(e).__name__}: {e}"

    def run(self):
        getattr(self, "run_" + self.case["kind"])()
        return self


def _py_refine(enc, t):
    """independent implementation of the refinement recipes (exact Fractions); returns (children, rest of enc)"""
    tag = enc.pop(0)
    a, b, c = t
    lerp = lambda p, q, s: (p[0] + s * (q[0] - p[0]), p[1] + s * (q[1] - p[1]))
    if tag == "0":
        return [t], enc
    if tag == "1":
        s = Fraction(enc.pop(0))
        m = lerp(b, c, s)
        l, enc = _py_refine(enc, (a, b, m))
        r, enc = _py_refine(enc, (a, m, c))
        return l + r, enc
    if tag == "2":
        return _py_refine(enc, (b, c, a))
    if tag == "3":
        u, v = Fraction(enc.pop(0)), Fraction(enc.pop(0))
        p = (a[0] + u * (b[0] - a[0]) + v * (c[0] - a[0]), a[1] + u * (b[1] - a[1]) + v * (c[1] - a[1]))
        out = []
        for sub in ((p, b, c), (a, p, c), (a, b, p)):
            o, enc = _py_refine(enc, sub)
            out += o
        return out, enc
    if tag == "4":
        h = Fraction(1, 2)
        mab, mbc, mca = lerp(a, b, h), lerp(b, c, h), lerp(c, a, h)
        out = []
        for sub in ((a, mab, mca), (mab, b, mbc), (mca, mbc, c), (mab, mbc, mca)):
            o, enc = _py_refine(enc, sub)
            out += o
        return out, enc
    raise ValueError(tag)


_CACHE = {}


def _trace(case):
    key = json.dumps(case, sort_keys=True)
    if key not in _CACHE:
        if len(_CACHE) > 4000:
            _CACHE.clear()
        res = {}
        tr = _Trace(case, _oracle_hook(case, res))
        tr.oracle = res
        _CACHE[key] = tr.run()
    return _CACHE[key]


def impl_run(case):
    if case["kind"] == "tri":
        return []
    return _trace(case).impl


def model_ops(case):
    if case["kind"] == "tri":
        return []
    return _trace(case).ops


def model_decode(outs, case):
    """regroup the driver answers like impl_run: syn: one snapshot per op; mdg: one dict {fracture: snapshot} per step"""
    if case["kind"] == "tri":
        return []
    if case["kind"] in ("syn", "nest"):
        return outs
    tr = _trace(case)
    ops = tr.ops
    cur = {}
    res = []
    i = 0
    n_init = sum(1 for o in ops if o["op"] == "init")
    for o, a in zip(ops[:n_init], outs[:n_init]):
        cur[str(o["intf"])] = a
    res.append(dict(cur))
    i = n_init
    while i < len(ops):
        if ops[i]["op"] == "primary":
            for o, a in zip(ops[i:i + n_init], outs[i:i + n_init]):
                cur[str(o["intf"])] = a
            i += n_init
        else:
            cur[str(ops[i]["intf"])] = outs[i]
            i += 1
        res.append(dict(cur))
    return res


def compare(impl, model, case):
    if case["kind"] == "tri":
        return None
    n = min(len(impl), len(model))
    d = deep_compare(impl[:n], model[:n], tol=TOL)
    if d:
        return d
    if len(impl) != len(model):
        # the impl stopped with an error that the model does not have (the model only models init errors)
        last = impl[-1] if impl else None
        return f"length {len(impl)} vs {len(model)}; last impl output {str(last)[:200]}"
    return None


# ----------------------------------------------------------------------------- oracle (the property on the real objects)
PAIRS = [("mortar_to_primary_int", "primary_to_mortar_avg"), ("mortar_to_primary_avg", "primary_to_mortar_int"),
         ("mortar_to_secondary_int", "secondary_to_mortar_avg"), ("mortar_to_secondary_avg", "secondary_to_mortar_int")]
OTOL = 1e-9


def _near(v, target):
    v = np.asarray(v, float).ravel()
    return v.size == 0 or float(np.max(np.abs(v - target))) <= OTOL


def _check_intf(intf, side_faces, sec_vol, face_area, geo=None):
    """All statements of the property for one interface.  side_faces: None (unknown) or a list of candidate covered
    primary face sets (one per geometric side); sec_vol / face_area: measures of secondary cells / primary faces
    (None if the primary has no geometry).  Returns None or (check, matrix, detail)."""
    M = {m: getattr(intf, m)().toarray() for m in MATS}
    nc = intf.num_cells
    n_prim = None if face_area is None else len(face_area)
    n_sec = None if sec_vol is None else len(sec_vol)
    for m, (r, c) in {"primary_to_mortar_int": (nc, n_prim), "primary_to_mortar_avg": (nc, n_prim),
                      "secondary_to_mortar_int": (nc, n_sec), "secondary_to_mortar_avg": (nc, n_sec)}.items():
        if M[m].shape[0] != r or (c is not None and M[m].shape[1] != c):
            return ("shape", m, f"shape {M[m].shape}, but there are {r} mortar cells and {c} entities in the current grid")
    for a, b in PAIRS:
        if M[a].shape != M[b].T.shape or not np.array_equal(M[a], M[b].T):
            return ("transpose", a, f"{a} is not the transpose of {b}")
    for m in MATS:
        if M[m].size and M[m].min() < 0:
            return ("negative", m, f"negative weight {M[m].min()}")
    # vector-valued variants are Kronecker products with the identity
    for m in ("primary_to_mortar_avg", "mortar_to_secondary_int"):
        K = getattr(intf, m)(nd=2).toarray()
        if K.shape != (2 * M[m].shape[0], 2 * M[m].shape[1]) or not np.array_equal(K, np.kron(M[m], np.eye(2))):
            return ("kron", m, "nd=2 variant is not kron(M, I2)")
    sgn = intf.sign_of_mortar_sides().toarray()
    sizes = [g.num_cells for g in intf.side_grids.values()]
    want = -np.ones(nc) if len(sizes) == 2 else np.ones(nc)
    if len(sizes) == 2:
        want[sizes[0]:] = 1
    if sgn.shape != (nc, nc) or not np.array_equal(sgn, np.diag(want)):
        return ("sign", "sign_of_mortar_sides", "not -1 on the first side and +1 on the second")
    if len(sizes) == 2 and not _near(M["mortar_to_secondary_avg"] @ sgn @ np.ones(nc), 0):
        return ("sign", "mortar_to_secondary_avg", "jump of a constant over the two sides is not zero")
    off = 0
    used = []
    for pos, (proj, g) in enumerate(intf.project_to_side_grids()):
        pr = proj.toarray()
        n = g.num_cells
        sel = np.zeros((n, nc))
        sel[np.arange(n), off + np.arange(n)] = 1
        if pr.shape != sel.shape or not np.array_equal(pr, sel):
            return ("side-projection", "project_to_side_grids", f"side {pos} does not select cells {off}..{off+n}")
        off += n
        vol = g.cell_volumes
        if not np.allclose(intf.cell_volumes[off - n:off], vol, rtol=0, atol=1e-12):
            return ("side-volumes", "cell_volumes", f"side {pos}")
        Pi, Pa = pr @ M["primary_to_mortar_int"], pr @ M["primary_to_mortar_avg"]
        Si, Sa = pr @ M["secondary_to_mortar_int"], pr @ M["secondary_to_mortar_avg"]
        mPi, mPa = M["mortar_to_primary_int"] @ pr.T, M["mortar_to_primary_avg"] @ pr.T
        mSi, mSa = M["mortar_to_secondary_int"] @ pr.T, M["mortar_to_secondary_avg"] @ pr.T
        # averaged maps: constants to constants
        if not _near(Pa.sum(1), 1):
            return ("rowsum", "primary_to_mortar_avg", f"side {pos}: row sums {np.unique(np.round(Pa.sum(1), 10))[:4]}")
        if not _near(Sa.sum(1), 1):
            return ("rowsum", "secondary_to_mortar_avg", f"side {pos}: row sums {np.unique(np.round(Sa.sum(1), 10))[:4]}")
        if not _near(mSa.sum(1), 1):
            return ("rowsum", "mortar_to_secondary_avg", f"side {pos}: row sums {np.unique(np.round(mSa.sum(1), 10))[:4]}")
        # integrated maps: totals
        if not _near(Si.sum(0), 1):
            return ("colsum", "secondary_to_mortar_int", f"side {pos}: column sums {np.unique(np.round(Si.sum(0), 10))[:4]}")
        if not _near(mSi.sum(0), 1):
            return ("colsum", "mortar_to_secondary_int", f"side {pos}: column sums {np.unique(np.round(mSi.sum(0), 10))[:4]}")
        if not _near(mPi.sum(0), 1):
            return ("colsum", "mortar_to_primary_int", f"side {pos}: column sums {np.unique(np.round(mPi.sum(0), 10))[:4]}")
        # primary: totals / constants on the covered faces of this side, nothing elsewhere
        supp = set(np.where(np.abs(Pi).sum(0) > 0)[0].tolist())
        if side_faces is not None:
            hit = [i for i, fs in enumerate(side_faces) if set(fs) == supp]
            if not hit or hit[0] in used:
                return ("support", "primary_to_mortar_int", f"side {pos}: maps from faces {sorted(supp)[:12]}, not from the faces of one side of the fracture {[sorted(f)[:12] for f in side_faces]}")
            used.append(hit[0])
            if geo is not None:
                # the geometric side of the fracture a mortar side lies on never changes
                if geo.get(pos, hit[0]) != hit[0]:
                    return ("side-swap", "primary_to_mortar_int", f"side {pos} now maps from the faces on the other side of the fracture")
                geo[pos] = hit[0]
        cov = sorted(supp)
        if set(np.where(np.abs(Pa).sum(0) > 0)[0].tolist()) - supp:
            return ("support", "primary_to_mortar_avg", f"side {pos}: averaged map reaches faces outside the covered ones")
        if not _near(Pi.sum(0)[cov], 1):
            return ("colsum", "primary_to_mortar_int", f"side {pos}: column sums on covered faces {np.unique(np.round(Pi.sum(0)[cov], 10))[:4]}")
        if not _near(mPa.sum(1)[cov], 1):
            return ("rowsum", "mortar_to_primary_avg", f"side {pos}: row sums on covered faces {np.unique(np.round(mPa.sum(1)[cov], 10))[:4]}")
        # the measure itself is an extensive quantity: integrating maps send cell measures to cell measures
        if sec_vol is not None:
            if not _near(Si @ sec_vol - vol, 0):
                return ("measure", "secondary_to_mortar_int", f"side {pos}: secondary cell measures are not mapped to the mortar cell measures")
            if not _near(mSi @ vol - sec_vol, 0):
                return ("measure", "mortar_to_secondary_int", f"side {pos}: mortar cell measures are not mapped to the secondary cell measures")
        if face_area is not None:
            if not _near(Pi @ face_area - vol, 0):
                return ("measure", "primary_to_mortar_int", f"side {pos}: face measures are not mapped to the mortar cell measures")
            if not _near((mPi @ vol)[cov] - face_area[cov], 0):
                return ("measure", "mortar_to_primary_int", f"side {pos}: mortar cell measures are not mapped to the face measures")
    return None


def _stored_duplicates(intf):
    """a primary face with more than one stored entry in primary_to_mortar_int (mortar not matching the primary)"""
    col = sps.coo_matrix(intf._primary_to_mortar_int).col
    return col.size != np.unique(col).size


def _overlap_missed(pairs, tr):
    """root-cause test for 1-D grids: a pair of cells with a genuine common part (exact, from the cell parameters)
    for which pp.intersections.line_tessellation - as called by match_1d - reports no or a different overlap"""
    import porepy as pp
    L = float(np.linalg.norm(tr.direction))
    for a, b in pairs:
        ca = [[Fraction(x) for x in c] for c in _cells_param(a, tr.origin, tr.direction)]
        cb = [[Fraction(x) for x in c] for c in _cells_param(b, tr.origin, tr.direction)]

        def lines(g):
            cn = g.cell_nodes()
            return cn.indices.reshape((2, -1), order="F")

        rep = {(i, j): w for i, j, w in pp.intersections.line_tessellation(a.nodes, b.nodes, lines(a), lines(b))}
        for i, (lo1, hi1) in enumerate(ca):
            for j, (lo2, hi2) in enumerate(cb):
                ex = float(max(Fraction(0), min(hi1, hi2) - max(lo1, lo2)))
                if ex > 1e-6 and abs(rep.get((i, j), 0.0) / L - ex) > 1e-6:
                    return True
    return False


def _self_match_broken(grids):
    """root-cause test for 2-D grids: match_2d of a grid with itself must be the identity"""
    import porepy as pp
    for g in grids:
        if g is not None and g.dim == 2:
            M = pp.match_grids.match_2d(g, g, 1e-6, scaling=None).toarray()
            if np.abs(M - np.eye(g.num_cells)).max() > 0:
                return True
    return False


def _oracle_hook(case, res):
    """hook for _Trace: checks the property after construction and after every step; the first failure is kept in
    res['r'] (the run continues so that the same run also serves as impl_run)"""
    state = {"dup_before": {}, "geo": {}}

    def hook(label, ctx):
        if "r" in res:
            return False
        op = label.split(":")[-1]
        if "intf" in ctx:  # syn / tri
            side_faces = case["faces"] if case["kind"] == "syn" and not case["bad"] else None
            items = [(0, ctx["intf"], side_faces, None, None)]
        else:
            mdg = ctx["mdg"]
            tr = ctx["trace"]
            g2 = mdg.subdomains(dim=2)[0]
            items = []
            for k, intf in sorted(ctx["intfs"].items()):
                recs = tr._face_recs(g2, k)
                sides = [[int(r[0]) for r in recs if r[1] == s] for s in ("1", "0")]
                sec = mdg.interface_to_subdomain_pair(intf)[1]
                if mdg.interface_to_subdomain_pair(intf)[0] is not g2:
                    res["r"] = {"what": f"{label}: interface {k} is not attached to the current host grid", "key": f"mdg:{op}:pairing"}
                    return False
                items.append((k, intf, sides, sec.cell_volumes, g2.face_areas))
        for k, intf, side_faces, sec_vol, face_area in items:
            r = _check_intf(intf, side_faces, sec_vol, face_area, state["geo"].setdefault(k, {}) if case["kind"] == "mdg" else None)
            if r is not None:
                key = f"{case['kind']}:{op}:{r[0]}:{r[1]}"
                if case["kind"] == "syn" and _overlap_missed(ctx.get("pairs", []), ctx["trace"]):
                    key = "match_1d:overlap-missed-at-large-coordinates"
                if case["kind"] == "tri" and _self_match_broken(list(intf.side_grids.values()) + [ctx.get("sec")]):
                    key = "match_2d:touching-triangles-reported-as-overlapping"
                if op == "primary" and state["dup_before"].get(k):
                    key = "update_primary:old-face-in-several-mortar-cells"
                res["r"] = {"what": f"{label}, interface {k}: {r[2]} ({r[0]} of {r[1]})", "key": key}
                return False
        state["dup_before"] = {k: _stored_duplicates(intf) for k, intf, *_ in items}
        return False

    return hook


def oracle(case):
    tr = _trace(case)
    r = tr.oracle.get("r")
    if case["kind"] == "nest":
        out = tr.impl[0]
        A = np.array([[float(Fraction(x)) for x in row] for row in out["averaged"]["rows"]])
        I = np.array([[float(Fraction(x)) for x in row] for row in out["integrated"]["rows"]])
        old, new = tr.nest
        W = tr.nest_exact
        bad = None
        extra = np.argwhere((tr.nest_pat > 0) & (W == 0))
        extra_self = np.argwhere((tr.nest_self > 0) & (np.eye(new.num_cells) == 0))
        missing = np.argwhere((tr.nest_pat == 0) & (W > 1e-6))
        if extra.size:
            bad = f"new cell {extra[0][0]} is reported to overlap old cell {extra[0][1]}, which is not its parent (they only touch)"
        elif missing.size:
            bad = f"the overlap of new cell {missing[0][0]} with its parent {missing[0][1]} (area {W[missing[0][0], missing[0][1]]:.4g}) is not reported"
        elif extra_self.size:
            bad = f"matching the refined grid with itself, cells {extra_self[0][0]} and {extra_self[0][1]}, which only touch, are reported as overlapping"
        if bad:
            return {"what": "2-D mortar grid, nested triangle refinement: " + bad, "key": "match_2d:touching-triangles-reported-as-overlapping"}
        if np.abs(A * new.cell_volumes[:, None] - W).max() > OTOL or np.abs(I * old.cell_volumes[None, :] - W).max() > OTOL:
            return {"what": "2-D mortar grid, nested triangle refinement: the weights of match_2d(new, old) are not (area of the new cell) / (area of the new resp. old cell) for its parent, 0 otherwise",
                    "key": "nest:match_2d:weights"}
        if tr.nest_exc:
            return {"what": "2-D mortar grid, nested triangle refinement: update_mortar / update_secondary raised " + tr.nest_exc, "key": "nest:update-raised"}
        if r is not None:
            return r
        if A.min() < 0 or I.min() < 0:
            return {"what": "match_2d: negative weight", "key": "nest:match_2d:negative"}
        if not _near(A.sum(1), 1):
            return {"what": f"match_2d averaged: row sums {np.unique(np.round(A.sum(1), 10))[:4]}", "key": "nest:match_2d:rowsum"}
        if not _near(I.sum(0), 1):
            return {"what": f"match_2d integrated: column sums {np.unique(np.round(I.sum(0), 10))[:4]}", "key": "nest:match_2d:colsum"}
        if not _near(I @ old.cell_volumes - new.cell_volumes, 0) or not _near(A.T @ new.cell_volumes - old.cell_volumes, 0):
            return {"what": "match_2d: cell areas are not mapped to cell areas", "key": "nest:match_2d:measure"}
    return r


# ----------------------------------------------------------------------------- bookkeeping for the evidence
def _nonmatching_step(case):
    return any(st["op"] in ("mortar", "secondary", "primary") for st in case.get("steps", []))


def nontrivial(case):
    if case["kind"] == "nest":
        return any(enc != ["0"] for enc in case["recipes"])
    if case["kind"] == "syn" and case.get("bad"):
        return False
    return _nonmatching_step(case)


def shrink_candidates(case):
    steps = case.get("steps", [])
    for i in range(len(steps) - 1, -1, -1):
        yield dict(case, steps=steps[:i] + steps[i + 1:])
    for i, st in enumerate(steps):
        if st["op"] == "mortar" and len(st["sides"]) > 1:
            for s in st["sides"]:
                yield dict(case, steps=steps[:i] + [dict(st, sides={k: v for k, v in st["sides"].items() if k != s})] + steps[i + 1:])
        if st["op"] == "primary" and st.get("shift"):
            yield dict(case, steps=steps[:i] + [dict(st, shift=None)] + steps[i + 1:])
        specs = [st] if "t" in st else list(st.get("sides", {}).values()) if st["op"] == "mortar" else []
        for sp in specs:
            if isinstance(sp, dict) and len(sp.get("t", [])) > 2:
                for j in range(1, len(sp["t"]) - 1):
                    sp2 = dict(sp, t=sp["t"][:j] + sp["t"][j + 1:])
                    if sp is st:
                        yield dict(case, steps=steps[:i] + [sp2] + steps[i + 1:])
                    else:
                        yield dict(case, steps=steps[:i] + [dict(st, sides={k: (sp2 if v is sp else v) for k, v in st["sides"].items()})] + steps[i + 1:])
    if case["kind"] == "mdg" and len(case["fracs"]) == 2:
        for keep in (0, 1):
            st2 = [dict(st, intf=0) for st in steps if st.get("intf", keep) == keep]
            yield dict(case, fracs=[case["fracs"][keep]], steps=st2)


def _specs(case):
    out = []
    if case["kind"] == "syn":
        out.append(case["init"])
    for st in case.get("steps", []):
        if "t" in st:
            out.append(st)
        if isinstance(st.get("sides"), dict):
            out += [sp for sp in st["sides"].values() if isinstance(sp, dict) and "t" in sp]
    return out


def stats(cases, impl_outs):
    import collections
    kinds = collections.Counter(c["kind"] for c in cases)
    ops = collections.Counter(f"{c['kind']}:{st['op']}" for c in cases for st in c.get("steps", []))
    errs = sum(1 for out in impl_outs if isinstance(out, list) and any(isinstance(o, dict) and "err" in o for o in out))
    return {
        "kinds": dict(kinds), "steps": dict(ops),
        "syn_one_sided": sum(1 for c in cases if c["kind"] == "syn" and c["nsides"] == 1),
        "syn_face_duplicate_ind": sum(1 for c in cases if c["kind"] == "syn" and c["dup"]),
        "syn_malformed": sum(1 for c in cases if c["kind"] == "syn" and c["bad"]),
        "reversed_node_order_grids": sum(1 for c in cases for st in c.get("steps", []) for sp in ([st] + list(st.get("sides", {}).values() if isinstance(st.get("sides"), dict) else [])) if isinstance(sp, dict) and sp.get("rev")),
        "mdg_two_fractures": sum(1 for c in cases if c["kind"] == "mdg" and len(c["fracs"]) == 2),
        "mdg_transposed": sum(1 for c in cases if c["kind"] == "mdg" and c["axis"] == 1),
        "mdg_primary_with_shifted_nodes": sum(1 for c in cases if c["kind"] == "mdg" for st in c["steps"] if st["op"] == "primary" and st.get("shift")),
        "mdg_primary_after_nonmatching": sum(1 for c in cases if c["kind"] == "mdg" and any(st["op"] == "primary" for st in c["steps"][1:])),
        "cases_ending_in_error": errs,
        "strata": {
            "single_cell_grids": sum(1 for c in cases for sp in _specs(c) if len(sp["t"]) == 2),
            "cell_size_ratio_over_30": sum(1 for c in cases for sp in _specs(c) if "1/64" in sp["t"]),
            "syn_scale_2^-10..-4": sum(1 for c in cases if c["kind"] == "syn" and c.get("scale", 0) < 0),
            "syn_scale_2^7..12": sum(1 for c in cases if c["kind"] == "syn" and c.get("scale", 0) > 0),
            "repeated_identical_step": sum(1 for c in cases for a, b in zip(c.get("steps", []), c.get("steps", [])[1:]) if a == b),
            "nd": dict(collections.Counter(c.get("nd") for c in cases if c["kind"] == "syn")),
            "mortar_new_grids_in_reversed_dict_order": sum(1 for c in cases for st in c.get("steps", []) if st.get("rev_order")),
            "nest_cells": [len(o[0]["areas2"]) for c, o in zip(cases, impl_outs) if c["kind"] == "nest" and isinstance(o, list) and o][:20],
        },
        "steps_per_case": dict(collections.Counter(len(c.get("steps", [])) for c in cases)),
    }
